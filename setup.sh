#!/bin/sh
# offline setup: verify the tools the checks use are present, byte-compile the framework
set -e
cd "$(dirname "$0")"
python3-vt -c "import z3; assert z3.get_version_string().startswith('5.'), z3.get_version_string()"
test -x /usr/bin/cvc5
/venv/bin/python -c "import pydicom, six"
python3-vt -m compileall -q pyvc contracts spec >/dev/null
mkdir -p evidence out
echo "setup ok"
