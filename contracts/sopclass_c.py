"""Contracts and loop specifications for pynetdicom2/sopclass.py (C16, C17, C19)."""
from pyvc.contracts import contract

# qr_find_scp: one response object is updated and sent per match.  The loop body writes the
# status, the data-set flag and the data set of `rsp`; nothing else (correlation fields keep
# their values -- they are not havoc'd).
c = contract('sopclass.qr_find_scp')
c.prop('C16', 'C17')
ls = c.loop('', 0)
ls.havoc_stmts = ['havoc_elem(rsp, "Status", "int")', 'havoc_elem(rsp, "CommandDataSetType", "int")',
                  'havoc_attr(rsp, "_data_set", "bytes")', 'loop_havoc_sent()']

# qr_move_scp: counters and the pending response's progress fields
c = contract('sopclass.qr_move_scp')
c.prop('C17', 'C19')
ls = c.loop('', 0)
ls.havoc = {'failed': 'int', 'warning': 'int', 'completed': 'int'}
ls.havoc_stmts = ['havoc_elem(rsp, "Status", "int")',
                  'havoc_elem(rsp, "NumberOfRemainingSuboperations", "int")',
                  'havoc_elem(rsp, "NumberOfCompletedSuboperations", "int")',
                  'havoc_elem(rsp, "NumberOfFailedSuboperations", "int")',
                  'havoc_elem(rsp, "NumberOfWarningSuboperations", "int")', 'loop_havoc_sent()']
ls.invariants = [('counts', 'failed >= 0 and warning >= 0 and completed >= 0')]
