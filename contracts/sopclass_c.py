"""Contracts and loop specifications for pynetdicom2/sopclass.py (C16, C17, C19)."""
from pyvc.contracts import contract

# qr_find_scp: one response object is updated and sent per match.  The loop body writes the
# status, the data-set flag and the data set of `rsp`; nothing else (correlation fields keep
# their values -- they are not havoc'd).
c = contract('sopclass.qr_find_scp')
c.prop('C16', 'C17')
ls = c.loop('', 0)
# (applies while the code keeps one response object across iterations; an `rsp` created inside the
# loop body carries nothing from one iteration to the next)
ls.havoc_stmts = [('rsp', 'havoc_elem(rsp, "Status", "int")'), ('rsp', 'havoc_elem(rsp, "CommandDataSetType", "int")'),
                  ('rsp', 'havoc_attr(rsp, "_data_set", "bytes")'), ('rsp', 'havoc_moved(rsp)')]

# qr_move_scp: counters and the pending response's progress fields
c = contract('sopclass.qr_move_scp')
c.prop('C17', 'C19')
ls = c.loop('', 0)
ls.havoc = {'failed': 'int', 'warning': 'int', 'completed': 'int'}
ls.havoc_stmts = [('rsp', 'havoc_elem(rsp, "Status", "int")'),
                  ('rsp', 'havoc_elem(rsp, "NumberOfRemainingSuboperations", "int")'),
                  ('rsp', 'havoc_elem(rsp, "NumberOfCompletedSuboperations", "int")'),
                  ('rsp', 'havoc_elem(rsp, "NumberOfFailedSuboperations", "int")'),
                  ('rsp', 'havoc_elem(rsp, "NumberOfWarningSuboperations", "int")'),
                  ('rsp', 'havoc_moved(rsp)')]
ls.invariants = [('counts', 'failed >= 0 and warning >= 0 and completed >= 0')]

# ---- C19 clauses of the C-MOVE loop: per iteration exactly one sub-operation on the current data
# set and exactly one pending response that reports the progress *after* this sub-operation
ls.for_prop('C19',
            head=['_t0 = trace_len()', '_completed0 = completed'],
            tail=['_stores = events_since(_t0, "sub-store")',
                  'oblige("sub-operation-once", len(_stores) == 1 and _stores[0][1] is data_set)',
                  '_looked = events_since(_t0, "sub-get-scu")',
                  'oblige("storage-service-of-the-instances-sop-class", len(_looked) == 1 and '
                  '_looked[0][1] == data_set.SOPClassUID and _looked[0][2] is assoc)',
                  '_sent = events_since(_t0, "send")',
                  'oblige("one-pending-response", len(_sent) == 1)',
                  'oblige("pending-status", len(_sent) != 1 or sent_field(_sent[0], "status") == 0xFF00)',
                  'oblige("progress-completed", len(_sent) != 1 or '
                  'sent_field(_sent[0], "num_of_completed_sub_ops") == _completed0 + 1)',
                  'oblige("progress-remaining", len(_sent) != 1 or '
                  'sent_field(_sent[0], "num_of_remaining_sub_ops") == nop - (_completed0 + 1))',
                  'oblige("counter", completed == _completed0 + 1)'])

# qr_get_scu: the receive loop of the C-GET user
c = contract('sopclass.qr_get_scu')
c.prop('C17', 'C19')
ls = c.loop('', 0)
# a response object that already exists at the loop head may have been handed to send() in an earlier
# iteration (send only queues a lazy encoder): storing into it again is an ownership obligation
ls.havoc_stmts = [('rsp', 'havoc_moved(rsp)')]
ls.for_prop('C19', head=['_t0 = trace_len()', 'ghost_set("yields_at_head", ghost_get("yield_count", 0))'])
ls.for_prop('C17', head=['_t0 = trace_len()', 'ghost_set("yields_at_head", ghost_get("yield_count", 0))'])
_GET_TAIL = [
    '_sent = events_since(_t0, "send")',
    '_is_store = msg.command_field == 0x0001',
    'oblige("store-request-answered-exactly-once", (len(_sent) == 1) if _is_store else (len(_sent) == 0))',
    'oblige("answered-on-arrival-context", (not _is_store) or len(_sent) != 1 or _sent[0][3] == pc_id)',
    'oblige("instance-handed-over-at-most-once", ghost_get("yield_count", 0) - ghost_get("yields_at_head", 0) '
    '<= (1 if _is_store else 0))',
]
# the operation goes on exactly until the final C-GET response: a pending one (0xFF00, PS3.4 C.4.3.1.4) and the
# C-STORE requests are not the end, whatever their other fields say; anything else that is a C-GET response is
_FINAL_GET_RSP = 'msg.command_field == 0x8010 and msg.status != 0xFF00'
_GET_TAIL.append('oblige("goes-on-only-before-the-final-get-response", not (%s))' % _FINAL_GET_RSP)
ls.on_break = ['oblige("ends-only-on-the-final-get-response", %s)' % _FINAL_GET_RSP]
ls.for_prop('C19', tail=_GET_TAIL)
ls.for_prop('C17', tail=_GET_TAIL)


# ---- C16 clauses of the C-FIND provider loop: one response per match, carrying that match
_find_loop = contract('sopclass.qr_find_scp')
ls = [v for k, v in __import__('pyvc.contracts', fromlist=['REGISTRY']).REGISTRY.loops.items()
      if k == ('sopclass.qr_find_scp', 0)][0]
ls.for_prop('C16',
            head=['_t0 = trace_len()'],
            tail=['_sent = events_since(_t0, "send")',
                  'oblige("one-response-per-match", len(_sent) == 1)',
                  'oblige("match-status", len(_sent) != 1 or sent_field(_sent[0], "status") == status)',
                  'oblige("match-data", len(_sent) != 1 or sent_field(_sent[0], "data_set") == encoded_dataset(data_set))',
                  'oblige("match-context", len(_sent) != 1 or _sent[0][3] == ctx.id)'])

# C17: every per-match response carries the status the application handler gave with that match
ls.for_prop('C17',
            head=['_t0 = trace_len()'],
            tail=['_sent = events_since(_t0, "send")',
                  'oblige("match-status-is-the-handlers", len(_sent) == 1 and sent_field(_sent[0], "status") == status)'])

# qr_find_scu: the receive loop of the C-FIND user
c = contract('sopclass.qr_find_scu')
c.prop('C16')
ls = c.loop('', 0)
ls.for_prop('C16', head=['_t0 = trace_len()'],
            tail=['_y = events_since(_t0, "yield")',
                  'oblige("one-result-per-response", len(_y) == 1)',
                  'oblige("continues-only-after-pending", response.status == 0xFF00 or response.status == 0xFF01)'])
