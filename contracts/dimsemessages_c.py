"""Loop specifications for pynetdicom2/dimsemessages.py: fragment / fragment_file (C06, C10).

fragment(data_set, max_pdu_length, normal, last)   -- loop 0: `for chunk, has_next in chunks(...)`,
a range loop over positions 0, size, 2*size, ... (`_pos` = the position of the current step).
Ghost `_out` = concatenation of the fragments yielded so far.

  content     _out ++ data_set[_pos:] == data_set            (so at exit _out == data_set)
  per step    exactly one fragment is yielded; it is data_set[p : p + maxsize], non-empty and not longer
              than maxsize; it is flagged `last` iff no byte follows it, else `normal`
  order       once a fragment was flagged `last` the loop is over (`_last_seen` => _pos >= len)
  exit        everything was yielded; a non-empty stream ended with a `last` fragment

fragment_file(fp, ...) -- loop 0: `while True` over reads of the file object; same clauses with
`_data0` = the file content from the initial position and the read position as progress.
"""
from pyvc.contracts import contract

_MINE = '[e for e in events_since(_t0, "gen-yield") if e[1] == "%s"]'

f = contract('dimsemessages.fragment')
f.prop('C06', 'C10')
fl = f.loop('', 0)
fl.consts = [('_len', 'len(data_set)'), ('_out', "b''"), ('_last_seen', 'False')]
fl.havoc = {'_out': 'bytes', '_last_seen': 'bool'}
fl.invariants = [('content', '_out + data_set[_pos:] == data_set'),
                 ('last-flag-ends-the-stream', '_last_seen == (_pos >= _len and _pos > 0)')]
fl.lemmas_head = ['_t0 = trace_len()', '_p0 = _pos', 'ghost_set("fragment_stream", data_set)',
                  'ghost_set("fragment_args", (normal, last))']
fl.lemmas_tail = [
    '_mine = ' + _MINE % 'dimsemessages.fragment',
    'oblige("one-fragment-per-step", len(_mine) == 1)',
    '_c = _mine[0][2][0] if len(_mine) == 1 else b""',
    '_f = _mine[0][2][1] if len(_mine) == 1 else -1',
    'oblige("fragment-is-the-next-bytes", _c == data_set[_p0:_p0 + maxsize])',
    'oblige("fragment-non-empty", len(_c) >= 1)',
    'oblige("fragment-fits", len(_c) <= maxsize)',
    'oblige("fragment-fits-the-pdu-limit", max_pdu_length == 0 or len(_c) + 6 <= max_pdu_length)',
    'oblige("last-flag-iff-nothing-follows", _f == (last if _p0 + len(_c) >= _len else normal))',
    '_out = _out + _c',
    '_last_seen = _p0 + len(_c) >= _len',
    '_pdus = [e for e in events_since(_t0, "gen-yield") if e[1] == "dimsemessages.DIMSEMessage.encode"]',
    'oblige("one-pdu-per-fragment", not ghost_get("inside_encode", False) or len(_pdus) == 1)',
]
fl.exit = ['oblige("all-bytes-fragmented", _out == data_set)',
           'oblige("stream-ends-with-last-fragment", _len == 0 or _last_seen)',
           'ghost_set("stream_done", ghost_get("stream_done", ()) + (data_set,))']

g = contract('dimsemessages.fragment_file')
g.prop('C06', 'C10')
gl = g.loop('', 0)
gl.consts = [('_data0', 'rem(fp)'), ('_out', "b''"), ('_last_seen', 'False')]
gl.havoc = {'fp': 'rstream', '_out': 'bytes', '_last_seen': 'bool', 'chunk': 'bytes', 'has_next': 'bytes'}
gl.invariants = [('content', '_out + rem(fp) == _data0'),
                 ('last-flag-ends-the-stream', '_last_seen == (len(rem(fp)) == 0 and len(_out) > 0)')]
gl.decreases = 'len(rem(fp))'
gl.lemmas_head = ['_t0 = trace_len()', '_r0 = rem(fp)', 'ghost_set("fragment_stream", fp)',
                  'ghost_set("fragment_args", (normal, last))']
gl.lemmas_tail = [
    '_mine = ' + _MINE % 'dimsemessages.fragment_file',
    'oblige("one-fragment-per-step", len(_mine) == 1)',
    '_c = _mine[0][2][0] if len(_mine) == 1 else b""',
    '_f = _mine[0][2][1] if len(_mine) == 1 else -1',
    'oblige("fragment-is-the-next-bytes", _c + rem(fp) == _r0)',
    'oblige("fragment-non-empty", len(_c) >= 1)',
    'oblige("fragment-fits-the-pdu-limit", max_pdu_length == 0 or len(_c) + 6 <= max_pdu_length)',
    'oblige("last-flag-iff-nothing-follows", _f == (last if len(rem(fp)) == 0 else normal))',
    '_out = _out + _c',
    '_last_seen = len(rem(fp)) == 0',
    '_pdus = [e for e in events_since(_t0, "gen-yield") if e[1] == "dimsemessages.DIMSEMessage.encode"]',
    'oblige("one-pdu-per-fragment", not ghost_get("inside_encode", False) or len(_pdus) == 1)',
]
# the loop is left by `break` when read() returns nothing
gl.on_break = ['oblige("all-bytes-fragmented", _out == _data0)',
               'oblige("stream-ends-with-last-fragment", len(_data0) == 0 or _last_seen)',
               'ghost_set("stream_done", ghost_get("stream_done", ()) + (fp,))']
