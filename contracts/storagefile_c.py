"""Loop specification for pynetdicom2/__init__.py: _get_storage_file (C15).

`while os.path.exists(full_name)`: the loop rewrites the candidate name until it names no existing
file.  Nothing else is changed; on exit the guard is false, i.e. `full_name` does not exist.
Termination depends on the file system holding finitely many files: assumed, not proved."""
from pyvc.contracts import contract

c = contract('pynetdicom2._get_storage_file')
c.prop('C15')
ls = c.loop('', 0)
ls.havoc = {'i': 'int', 'full_name': 'str'}


# c_find (C16): the one-call convenience wrapper re-yields what the C-FIND user service yields -- every pair
# exactly once, unchanged, in order (per iteration: exactly one yield, and it is the pair just taken)
c = contract('pynetdicom2.c_find')
c.prop('C16')
ls = c.loop('', 0)
ls.for_prop('C16', head=['_t0 = trace_len()'],
            tail=['_y = events_since(_t0, "gen-yield")',
                  '_e = _head[0]',       # the pair taken from the service in this iteration
                  'oblige("one-yield-per-result", len(_y) == 1)',
                  'oblige("yields-the-result-unchanged", len(_y) != 1 or (_y[0][2][0] == _e[0] and _y[0][2][1] == _e[1]))'])
