"""Loop specification for pynetdicom2/__init__.py: _get_storage_file (C15).

`while os.path.exists(full_name)`: the loop rewrites the candidate name until it names no existing
file.  Nothing else is changed; on exit the guard is false, i.e. `full_name` does not exist.
Termination depends on the file system holding finitely many files: assumed, not proved."""
from pyvc.contracts import contract

c = contract('pynetdicom2._get_storage_file')
c.prop('C15')
ls = c.loop('', 0)
ls.havoc = {'i': 'int', 'full_name': 'str'}
