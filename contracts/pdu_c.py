"""Contracts for pynetdicom2/pdu.py and userdataitems.py.

`encode` of the seven PDU classes is a *pure* method: at call sites (state machine, provider)
its result is the uninterpreted value ENC(receiver) about which the `type-byte` clause is known.
The clause is a consequence of the full layout contract proved for C02."""
from pyvc.contracts import contract

PDU_ENCODERS = ['pdu.AAssociatePDUBase.encode', 'pdu.AAssociateRjPDU.encode', 'pdu.PDataTfPDU.encode',
                'pdu.AReleasePDUBase.encode', 'pdu.AAbortPDU.encode']
for q in PDU_ENCODERS:
    c = contract(q)
    c.pure = True
    c.returns('bytes')
    c.prop('C02', 'C04', 'C05', 'C12')
    c.ensure('len(result) >= 6 and byte_at(result, 0) == self.pdu_type', 'type-byte')


# =====================================================================================
# Codec contracts (C01 round trip, C02 standard layout, totality for C12 later).
#
# For every class K:      ghost v : K, rest : bytes
#   K.decode   requires  valid(v)  and the stream holds  v.encode() ++ rest
#              ensures   rt-value:    result == v          (field by field, nested items in order)
#                        rt-consumed: exactly |v.encode()| bytes were consumed (rem == rest)
#   K.total_length / item_length
#              ensures   len:         result == len(self.encode())     (the item's extent)
#   K.encode   ensures   std:         result == wire_K(self)           (PS3.8 / PS3.7 layout, C02)
# `v.encode()` in a requires clause is the *real* encoder: C01 never mentions the standard.
# =====================================================================================
L = 'L'   # the layouts spec module is bound to the name L in the spec prelude

# key, valid predicate, std printer, what may follow the item in a stream ('any' | 'not-0x40')
ITEM_CLASSES = [
    ('userdataitems.MaximumLengthSubItem', 'L.valid_sub_item', 'L.wire_sub_item', 'any'),
    ('userdataitems.ImplementationClassUIDSubItem', 'L.valid_sub_item', 'L.wire_sub_item', 'any'),
    ('userdataitems.ImplementationVersionNameSubItem', 'L.valid_sub_item', 'L.wire_sub_item', 'any'),
    ('userdataitems.AsynchronousOperationsWindowSubItem', 'L.valid_sub_item', 'L.wire_sub_item', 'any'),
    ('userdataitems.ScpScuRoleSelectionSubItem', 'L.valid_sub_item', 'L.wire_sub_item', 'any'),
    ('userdataitems.SOPClassExtendedNegotiationSubItem', 'L.valid_sub_item', 'L.wire_sub_item', 'any'),
    ('userdataitems.UserIdentityNegotiationSubItem', 'L.valid_sub_item', 'L.wire_sub_item', 'any'),
    ('userdataitems.UserIdentityNegotiationSubItemAc', 'L.valid_sub_item', 'L.wire_sub_item', 'any'),
    ('userdataitems.GenericUserDataSubItem', 'L.valid_sub_item', 'L.wire_sub_item', 'any'),
    ('pdu.AbstractSyntaxSubItem', 'L.valid_abstract_syntax', 'L.wire_abstract_syntax', 'any'),
    ('pdu.TransferSyntaxSubItem', 'L.valid_transfer_syntax', 'L.wire_transfer_syntax', 'any'),
    ('pdu.ApplicationContextItem', 'L.valid_var_item', 'L.wire_var_item', 'any'),
    ('pdu.PresentationContextItemAC', 'L.valid_var_item', 'L.wire_var_item', 'any'),
    ('pdu.PresentationDataValueItem', 'L.valid_pdv', 'L.wire_pdv', 'any'),
    ('pdu.PresentationContextItemRQ', 'L.valid_var_item', 'L.wire_var_item', 'not-0x40'),
    ('pdu.UserInformationItem', 'L.valid_var_item', 'L.wire_var_item', 'any'),
]

# PDUs: decode takes the raw bytes of exactly one PDU
PDU_CLASSES = [
    ('pdu.AAssociateRqPDU', 'pdu.AAssociatePDUBase', 'L.valid_associate(v)', 'L.wire_associate(self, 1)'),
    ('pdu.AAssociateAcPDU', 'pdu.AAssociatePDUBase', 'L.valid_associate(v)', 'L.wire_associate(self, 2)'),
    ('pdu.AAssociateRjPDU', 'pdu.AAssociateRjPDU', 'L.valid_rj(v)', 'L.wire_rj(self)'),
    ('pdu.PDataTfPDU', 'pdu.PDataTfPDU', 'L.valid_pdata(v)', 'L.wire_pdata(self)'),
    ('pdu.AReleaseRqPDU', 'pdu.AReleasePDUBase', 'L.valid_release(v)', 'L.wire_release(self, 5)'),
    ('pdu.AReleaseRpPDU', 'pdu.AReleasePDUBase', 'L.valid_release(v)', 'L.wire_release(self, 6)'),
    ('pdu.AAbortPDU', 'pdu.AAbortPDU', 'L.valid_abort(v)', 'L.wire_abort(self)'),
]

CODEC = {}   # key -> dict(decode=Contract, length=[Contract], encode=Contract, ...)


def _codec_contracts():
    for key, valid, wire, follow in ITEM_CLASSES:
        d = contract(key + '.decode@rt')
        d.qualname = key + '.decode'
        d.ghost('v', key).ghost('rest', 'bytes')
        d.require('%s(v)' % valid, 'valid')
        if follow == 'not-0x40':
            d.require('len(rest) == 0 or byte_at(rest, 0) != 0x40', 'follow')
        d.setup = ['stream = stream_of(v.encode() + rest)']
        d.setup_defines_domain = True
        d.ensure('result == v', 'rt-value')
        d.ensure('rem(stream) == rest', 'rt-consumed')
        d.prop('C01', 'C02')
        e = contract(key + '.encode@std')
        e.qualname = key + '.encode'
        e.require('%s(self)' % valid, 'valid')
        e.ensure('result == %s(self)' % wire, 'std')
        e.prop('C02')
        CODEC[key] = dict(decode=d, encode=e, valid=valid, wire=wire)
    for key, owner, valid, wire in PDU_CLASSES:
        d = contract(key + '.decode@rt')
        d.qualname = owner + '.decode'
        d.ghost('v', key)
        d.require(valid, 'valid')
        d.setup = ['%s = v.encode()' % ('raw_bytes' if owner == 'pdu.AAssociatePDUBase' else 'rawstring')]
        d.setup_defines_domain = True
        d.ensure('result == v', 'rt-value')
        d.prop('C01', 'C02')
        e = contract(key + '.encode@std')
        e.qualname = owner + '.encode'
        e.require(valid.replace('(v)', '(self)'), 'valid')
        e.ensure('result == %s' % wire, 'std')
        e.ensure('len(result) == self.total_length()', 'std-total-length')
        e.prop('C02')
        CODEC[key] = dict(decode=d, encode=e, valid=valid, wire=wire, owner=owner)


_codec_contracts()


# =====================================================================================
# Loop specifications of the four decode loops.  Common shape (ghost `todo` = the items whose
# encodings are still in the stream, `_xs0` = the whole list, `_acc` = items yielded so far):
#     content :  rem(stream) == JOIN[encode](todo) (++ fixed tail)
#     progress:  _acc ++ todo == _xs0
#     valid   :  every remaining item is valid
# The ghost initialiser find_join_arg only *proposes* the witness; `content` is checked on entry.
# =====================================================================================
def _list_loop(c, where, elem, valid, with_tail=False, peek=None, extra_havoc=None, extra_inv=()):
    ls = c.loop(where, 0)
    ls.acc = ('_acc', elem)
    ls.consts = [('_xs0', 'find_join_arg("encode", rem(stream), "%s")[0]' % elem),
                 ('_tail0', 'find_join_arg("encode", rem(stream), "%s")[1]' % elem)]
    ls.ghost = [('todo', 'Seq[%s]' % elem, '_xs0', 'todo[1:]')]
    ls.havoc = {'stream': 'rstream', '_acc': 'Seq[%s]' % elem}
    if extra_havoc:
        ls.havoc.update(extra_havoc)
    if with_tail:
        ls.invariants.append(('content', 'rem(stream) == join_map("encode", todo) + _tail0'))
        ls.invariants.append(('tail', 'len(_tail0) == 0 or byte_at(_tail0, 0) != 0x40'))
    else:
        ls.invariants.append(('content', 'rem(stream) == join_map("encode", todo)'))
    ls.invariants.append(('progress', '_acc + todo == _xs0'))
    ls.invariants.append(('valid', 'all_map(%s, todo)' % valid))
    if peek:
        ls.havoc[peek] = ('recompute', '_next_type(copy_stream(stream))')
        ls.invariants.append(('peek', 'same(%s, _next_type(copy_stream(stream)))' % peek))
    for lab, e in extra_inv:
        ls.invariants.append((lab, e))
    ls.lemmas_head = ['_y = reveal_head(todo, %s, "encode", "total_length")' % valid]
    ls.decreases = 'len(rem(stream))'
    # the clauses above specify the round trip (C01/C02).  For totality / termination on arbitrary
    # input (C12) only the havoc, the variant and the definition of the look-ahead variable apply.
    ls.only_for = {'C01', 'C02'}
    # C12: the read position never moves backwards (so the enclosing decoder has consumed something)
    ls.for_prop('C12', consts=[('_rem_len0', 'len(rem(stream))')],
                invariants=[('position-monotone', 'len(rem(stream)) <= _rem_len0')])
    if peek:
        ls.for_prop('C12', invariants=[('peek', 'same(%s, _next_type(copy_stream(stream)))' % peek)])
    return ls


_list_loop(contract('pdu.UserInformationItem.sub_items'), '', 'SubItem', 'L.valid_sub_item', peek='item_type')
_list_loop(contract('pdu.PresentationContextItemRQ.decode'), 'iter_items', 'pdu.TransferSyntaxSubItem',
           'L.valid_transfer_syntax', with_tail=True)
ls = _list_loop(contract('pdu.AAssociatePDUBase.decode'), 'iter_items', 'VarItem', 'L.valid_var_item',
                peek='item_type')
# a presentation-context item is followed by the next variable item: its type byte is not 0x40
ls.lemmas_head.append('_y2 = reveal_head(todo[1:], L.valid_var_item, "encode") '
                      'if _y is not None and kind_of(_y) == "PresentationContextItemRQ" else None')
_list_loop(contract('pdu.PDataTfPDU.decode'), 'iter_items', 'pdu.PresentationDataValueItem', 'L.valid_pdv',
           extra_havoc={'length_read': 'int'},
           extra_inv=[('length', 'length_read + sum_map("total_length", todo) == pdu_length'),
                      ('length-nonneg', 'length_read >= 0')])
