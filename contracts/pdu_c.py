"""Contracts for pynetdicom2/pdu.py and userdataitems.py.

`encode` of the seven PDU classes is a *pure* method: at call sites (state machine, provider)
its result is the uninterpreted value ENC(receiver) about which the `type-byte` clause is known.
The clause is a consequence of the full layout contract proved for C02."""
from pyvc.contracts import contract

PDU_ENCODERS = ['pdu.AAssociatePDUBase.encode', 'pdu.AAssociateRjPDU.encode', 'pdu.PDataTfPDU.encode',
                'pdu.AReleasePDUBase.encode', 'pdu.AAbortPDU.encode']
for q in PDU_ENCODERS:
    c = contract(q)
    c.pure = True
    c.returns('bytes')
    c.prop('C02', 'C04', 'C05', 'C12')
    c.ensure('len(result) >= 6 and byte_at(result, 0) == self.pdu_type', 'type-byte')
