"""Loop specifications for pynetdicom2/asceprovider.py (C09, C10, C11).

AssociationAcceptor.accept -- loop 0 (`for pc_id, proposed_sop, proposed_ts in requested`):
  frame   rsp only grows by presentation-context answers; the two routing tables are written, the
          negotiated maximum length and the Maximum Length sub-item are not touched
  C09     per proposed context exactly one answer is appended, carrying that context's id, and the
          clauses of the statement relate the answer to the proposal and to the configuration;
          the tables get a binding for this id iff the answer is an acceptance, with the
          transfer syntax that is reported
loop 1 (`for ts in proposed_ts`): iterations that do not `break` change nothing; every
          transfer syntax passed over is unsupported (ghost `_done` = the prefix passed over).
The step from "each iteration answers its context" to "the answer list is the proposal list
mapped in order" is the standard induction over iterations; it is not machine-checked here
(listed as an assumption in the evidence)."""
from pyvc.contracts import contract

c = contract('asceprovider.AssociationAcceptor.accept')
c.prop('C09', 'C10')

outer = c.loop('', 0)
outer.havoc = {'rsp': ('hlist_grow', 'VarItem')}
outer.havoc_stmts = ['havoc_dict_attr(self, "sop_classes_as_scp")', 'havoc_dict_attr(self, "accepted_contexts")']
outer.consts = [('_mpl0', 'self.max_pdu_length'), ('_ann0', 'max_pdu_sub_item.maximum_length_received')]
outer.invariants = [('max-length-untouched', 'self.max_pdu_length == _mpl0'),
                    ('announced-untouched', 'max_pdu_sub_item.maximum_length_received == _ann0')]
outer.lemmas_head = ['_rm = list_mark(rsp)', '_sm = dict_mark(self.sop_classes_as_scp)',
                     '_am = dict_mark(self.accepted_contexts)', '_inner = False']

inner = c.loop('', 1)
inner.ghost = [('_done', 'Seq[pdu.TransferSyntaxSubItem]', 'empty_seq("pdu.TransferSyntaxSubItem")', '_done + _head')]
inner.consts = [('_irm', 'list_mark(rsp)'), ('_ism', 'dict_mark(self.sop_classes_as_scp)'),
                ('_iam', 'dict_mark(self.accepted_contexts)'), ('_impl', 'self.max_pdu_length'),
                ('_iann', 'max_pdu_sub_item.maximum_length_received')]
inner.invariants = [('rsp-untouched', 'list_mark(rsp) == _irm'),
                    ('tables-untouched', 'dict_mark(self.sop_classes_as_scp) == _ism and '
                                         'dict_mark(self.accepted_contexts) == _iam'),
                    ('max-length-untouched', 'self.max_pdu_length == _impl and '
                                             'max_pdu_sub_item.maximum_length_received == _iann'),
                    ('progress', '_done + _todo == proposed_ts'),
                    ('passed-over-unsupported', 'all_map(N.ts_unsupported, _done)')]
inner.lemmas_head = ['_inner = True', '_y = reveal_head(_todo, N.ts_unsupported)']
inner.allow_break = True      # a search loop: it stops at the first supported transfer syntax

# ---- C09: the answer to one proposed context
_ANSWER = [
    '_new = list_since(rsp, _rm)',
    'oblige("answers-appended-in-proposal-order", _new is not None)',
    '_new = _new if _new is not None else ()',
    'oblige("one-answer-per-context", len(_new) == 1)',
    '_a = _new[0] if len(_new) == 1 else None',
    'oblige("answer-is-ac-item", _a is not None and kind_of(_a) == "PresentationContextItemAC")',
    '_ok = _a is not None and kind_of(_a) == "PresentationContextItemAC"',
    'oblige("answer-carries-the-proposed-id", _ok and _a.context_id == pc_id)',
    # accepted  <=>  abstract syntax served  and  some proposed transfer syntax supported
    '_all_unsupported = all_map(N.ts_unsupported, proposed_ts)',
    '_split = all_map(N.ts_unsupported, _done + _head_1 + _todo_1) if _inner else True',
    'oblige("accepted-iff-served-and-some-ts-supported", _ok and iff(_a.result_reason == 0, '
    'cfg_served(proposed_sop) and not _all_unsupported))',
    # the transfer syntax returned was proposed for this context and is supported
    'oblige("accepted-ts-was-proposed", _ok and implies(_a.result_reason == 0, _inner and '
    # (the element of the proposal itself, `_head_1[0]` -- not the local `ts`, which the body may rebind: seed R5_C09)
    'proposed_ts == _done + _head_1 + _todo_1 and len(_head_1) == 1 and same(_a.ts_sub_item, _head_1[0])))',
    'oblige("accepted-ts-is-supported", _ok and implies(_a.result_reason == 0, '
    'cfg_supported_ts(_a.ts_sub_item.name)))',
    # routing tables: bound for this id iff accepted, with the reported transfer syntax
    '_sw = dict_writes_since(self.sop_classes_as_scp, _sm)',
    '_aw = dict_writes_since(self.accepted_contexts, _am)',
    'oblige("tables-written-iff-accepted", _ok and iff(_a.result_reason == 0, len(_sw) == 1) and '
    'iff(_a.result_reason == 0, len(_aw) == 1) and len(_sw) <= 1 and len(_aw) <= 1)',
    'oblige("table-keys-are-the-context-id", all(same(k, pc_id) for k, v in _sw + _aw))',
    'oblige("scp-table-entry", len(_sw) != 1 or (_ok and same(_sw[0][1][0], pc_id) and '
    'same(_sw[0][1][1], proposed_sop) and same(_sw[0][1][2], _a.ts_sub_item.name)))',
    'oblige("accepted-contexts-entry", len(_aw) != 1 or (_ok and same(_aw[0][1].id, pc_id) and '
    'same(_aw[0][1].sop_class, proposed_sop) and same(_aw[0][1].supported_ts, _a.ts_sub_item.name)))',
]
# The clauses speak of the context *as proposed*: the loop targets as bound at the head of the iteration
# (the engine's ghost copies `_entry_<target>`), not the locals, which the body may rebind (cf. seed R5_C09).
import re as _re
_ANSWER = [_re.sub(r'\b(pc_id|proposed_sop|proposed_ts)\b', lambda m: '_entry_' + m.group(1), s) for s in _ANSWER]
outer.for_prop('C09', tail=_ANSWER)


# =====================================================================================
# AssociationRequester._request -- loop 0 (`for ctx in accepted`, a filtered generator over the
# answers of the A-ASSOCIATE-AC).  Precondition (harness): every answer carries an id the
# requester proposed (`answers_a_proposed_context`).
#   frame   only the two tables are written; the negotiated maximum length is not touched
#   C11     an answer that is an acceptance (result 0) produces exactly one binding in each table:
#           accepted_contexts[id] = (id, the abstract syntax proposed under id, the peer's transfer
#           syntax), sop_classes_as_scu[that abstract syntax] = (id, the peer's transfer syntax);
#           any other answer produces none
# =====================================================================================
r = contract('asceprovider.AssociationRequester._request')
r.prop('C10', 'C11')
rl = r.loop('', 0)
rl.havoc_stmts = ['havoc_dict_attr(self, "sop_classes_as_scu")', 'havoc_dict_attr(self, "accepted_contexts")']
rl.consts = [('_mpl0', 'self.max_pdu_length')]
rl.invariants = [('max-length-untouched', 'self.max_pdu_length == _mpl0'),
                 ('answers-to-proposed-contexts', 'all_map(N.answers_a_proposed_context, _todo)')]
rl.lemmas_head = ['_sm = dict_mark(self.sop_classes_as_scu)', '_am = dict_mark(self.accepted_contexts)',
                  '_y = reveal_head(_todo, N.answers_a_proposed_context)']
rl.for_prop('C11', tail=[
    '_cur = _head[0]',
    '_sw = dict_writes_since(self.sop_classes_as_scu, _sm)',
    '_aw = dict_writes_since(self.accepted_contexts, _am)',
    '_acc = _cur.result_reason == 0',
    'oblige("usable-iff-accepted", iff(_acc, len(_aw) == 1) and iff(_acc, len(_sw) == 1) and '
    'len(_aw) <= 1 and len(_sw) <= 1)',
    'oblige("accepted-context-entry", len(_aw) != 1 or (same(_aw[0][0], _cur.context_id) and '
    'same(_aw[0][1].id, _cur.context_id) and same(_aw[0][1].sop_class, cfg_proposed_sop(_cur.context_id)) and '
    'same(_aw[0][1].supported_ts, _cur.ts_sub_item.name)))',
    'oblige("scu-table-entry", len(_sw) != 1 or (same(_sw[0][0], cfg_proposed_sop(_cur.context_id)) and '
    'same(_sw[0][1][0], _cur.context_id) and same(_sw[0][1][1], _cur.ts_sub_item.name)))',
])
