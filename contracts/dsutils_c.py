"""Assumed contracts on dsutils.py (thin wrappers around pydicom's reader/writer, which is an
external dependency): data sets are opaque.  decode() yields an opaque decoded data set,
encode() an arbitrary byte string, encode_element() a byte string whose length is a function of
the element (tag and value) only.  Listed as trusted in every evidence file that uses them."""
from pyvc.contracts import contract, assume_external

assume_external('pydicom reader/writer behind dsutils.decode/encode/encode_element: opaque codecs '
                '(decode total or raising; encode deterministic in the data set content)')

c = contract('dsutils.decode')
c.trusted = True
c.abstract = 'return new_decoded_dataset()'

c = contract('dsutils.encode')
c.trusted = True
c.abstract = 'return encoded_dataset(ds)'

c = contract('dsutils.encode_element')
c.trusted = True
c.abstract = 'return encoded_element(elem)'
