"""Contracts for pynetdicom2/fsm.py."""
from pyvc.contracts import contract

# DIMSEDecoder.process as seen by the state machine (C04/C05): it only updates the decoder;
# the precise reassembly contract is C07's.
c = contract('fsm.DIMSEDecoder.process')
c.prop('C04', 'C05', 'C07')
c.abstract = '''
self.receiving = fresh_bool('receiving')
self.msg = opaque_value('msg')
self.pc_id = fresh_int('pc_id')
'''
