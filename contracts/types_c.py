"""Type environment: instance fields of the PDU / item / sub-item classes (checked on every run
against the attributes assigned in each class's __init__) and the closed dispatch families."""
from pyvc.runner import record, family

# ---- PDUs
for k in ('pdu.AAssociateRqPDU', 'pdu.AAssociateAcPDU'):
    record(k, called_ae_title='str', calling_ae_title='str', variable_items='Seq[VarItem]',
           protocol_version='int', reserved1='int', reserved2='int',
           reserved3='Tup[int,int,int,int,int,int,int,int]')
record('pdu.AAssociateRjPDU', reserved1='int', reserved2='int', result='int', source='int', reason_diag='int')
record('pdu.PDataTfPDU', reserved='int', data_value_items='Seq[pdu.PresentationDataValueItem]')
record('pdu.AReleaseRqPDU', reserved1='int', reserved2='int')
record('pdu.AReleaseRpPDU', reserved1='int', reserved2='int')
record('pdu.AAbortPDU', reserved1='int', reserved2='int', reserved3='int', source='int', reason_diag='int')

# ---- items
record('pdu.ApplicationContextItem', reserved='int', context_name='str')
record('pdu.PresentationContextItemRQ', context_id='int', abs_sub_item='pdu.AbstractSyntaxSubItem',
       ts_sub_items='Seq[pdu.TransferSyntaxSubItem]', reserved1='int', reserved2='int', reserved3='int',
       reserved4='int')
record('pdu.PresentationContextItemAC', context_id='int', result_reason='int',
       ts_sub_item='pdu.TransferSyntaxSubItem', reserved1='int', reserved2='int', reserved3='int')
record('pdu.AbstractSyntaxSubItem', reserved='int', name='str')
record('pdu.TransferSyntaxSubItem', reserved='int', name='str')
record('pdu.UserInformationItem', reserved='int', user_data='Seq[SubItem]')
record('pdu.PresentationDataValueItem', context_id='int', data_value='bytes')

# ---- user-information sub-items
record('userdataitems.MaximumLengthSubItem', reserved='int', item_length='int', maximum_length_received='int')
record('userdataitems.ImplementationClassUIDSubItem', reserved='int', implementation_class_uid='str')
record('userdataitems.ImplementationVersionNameSubItem', reserved='int', implementation_version_name='str')
record('userdataitems.AsynchronousOperationsWindowSubItem', reserved='int', item_length='int',
       max_num_ops_invoked='int', max_num_ops_performed='int')
record('userdataitems.ScpScuRoleSelectionSubItem', reserved='int', sop_class_uid='str', scu_role='int',
       scp_role='int')
record('userdataitems.SOPClassExtendedNegotiationSubItem', reserved='int', sop_class_uid='str', app_info='bytes')
record('userdataitems.UserIdentityNegotiationSubItem', reserved='int', user_identity_type='int',
       positive_response_req='int', _primary_field='bytes', _secondary_field='bytes')
record('userdataitems.UserIdentityNegotiationSubItemAc', reserved='int', server_response='str')
record('userdataitems.GenericUserDataSubItem', item_type='int', reserved='int', user_data='bytes')

# ---- harness value types (no repository class): data sets the application oracle hands out
record('harness.AppDataset', handle='int', SOPClassUID='str', SOPInstanceUID='str')
# value view of asceprovider.PContextDef (a namedtuple) as an element of a symbolic sequence of
# dictionary items: (id, sop_class, supported_ts in the set's iteration order)
record('harness.CtxDef', id='int', sop_class='str', supported_ts='Seq[str]')

family('VarItem', ['pdu.ApplicationContextItem', 'pdu.PresentationContextItemRQ',
                   'pdu.PresentationContextItemAC', 'pdu.UserInformationItem'])
family('SubItem', ['userdataitems.MaximumLengthSubItem', 'userdataitems.ImplementationClassUIDSubItem',
                   'userdataitems.ImplementationVersionNameSubItem',
                   'userdataitems.AsynchronousOperationsWindowSubItem',
                   'userdataitems.ScpScuRoleSelectionSubItem',
                   'userdataitems.SOPClassExtendedNegotiationSubItem',
                   'userdataitems.UserIdentityNegotiationSubItem',
                   'userdataitems.UserIdentityNegotiationSubItemAc',
                   'userdataitems.GenericUserDataSubItem'])
