"""Contracts for pynetdicom2/statuses.py (C18; Status.is_pending is used by C16/C19)."""
from pyvc.contracts import contract

# ---------------------------------------------------------------- add_status / register_statuses
# No contract: both are *executed* from the AST when the module is loaded (register_statuses()
# over the real KNOWN_STATUSES literal).  The two fill loops of add_status,
#     for _code in code_range: D[(K, _code)] = status
# are summarised by the engine's loop rule "dictionary fill over a range == one range binding"
# (pyvc/interp.py _accelerate_dict_fill), so the tables stay compact; whatever key expression K
# the code uses is evaluated as written.

# ---------------------------------------------------------------- Status
c = contract('statuses.Status.__init__')
c.prop('C18', 'C16', 'C19')
c.require('0 <= value and value <= 65535')
c.ensure('exactly_one(self.is_success, self.is_pending, self.is_failure, self.is_warning, self.is_cancel)',
         'total')
c.ensure("self.status_type in ps34.NAMES", 'total-name')
c.ensure("(self.is_success == (self.status_type == 'Success')) and (self.is_pending == (self.status_type == 'Pending'))"
         " and (self.is_failure == (self.status_type == 'Failure')) and (self.is_warning == (self.status_type == 'Warning'))"
         " and (self.is_cancel == (self.status_type == 'Cancel'))", 'flags-consistent')
c.ensure('implies(value == 0, self.is_success)', 'success')
c.ensure('_svc is None or self.status_type == _svc', 'service')
c.ensure("implies(_svc is None and not ps34.is_general(value), self.status_type == 'Failure')", 'unknown')
c.ensure('self._value == value', 'value-kept')

c = contract('statuses.Status.__int__')
c.prop('C18')
c.returns('int')
c.ensure('result == self._value', 'int')
