"""Contracts for pynetdicom2/statuses.py (C18; Status.is_pending is used by C16/C19)."""
from pyvc.contracts import contract

# ---------------------------------------------------------------- add_status
# Abstract effect: a *range update* of one of the two module dictionaries.  The real body is
# verified to refine it (loop invariants below); callers -- in particular the module's own
# register_statuses() at import -- see only this effect.
c = contract('statuses.add_status')
c.prop('C18')
c.abstract = '''
status = s(code_type, description)
hi = code if end is None else end
if command is None:
    dict_range_update(_general_status_dict, (), code, hi, status)
else:
    dict_range_update(_status_dict, (command.command_field,), code, hi, status)
'''
# the refinement obligation itself is stated in pyvc/props/c18.py (two runs from one pre-state);
# loops: ordinal 0 = general dictionary, ordinal 1 = command-specific dictionary
for ordinal, dname, prefix in ((0, '_general_status_dict', '()'),
                               (1, '_status_dict', '(command.command_field,)')):
    ls = c.loop('', ordinal)
    ls.havoc = {dname: ('assign_dict', 'range_updated(_old_%s, %s, code, _pos - 1, status)' % (dname, prefix))}
    ls.invariants = [('range-updated',
                      'dict_equiv(%s, range_updated(_old_%s, %s, code, _pos - 1, status), _probe_key)'
                      % (dname, dname, prefix))]

# ---------------------------------------------------------------- Status
c = contract('statuses.Status.__init__')
c.prop('C18', 'C16', 'C19')
c.require('0 <= value and value <= 65535')
c.ensure('exactly_one(self.is_success, self.is_pending, self.is_failure, self.is_warning, self.is_cancel)',
         'total')
c.ensure("self.status_type in ps34.NAMES", 'total-name')
c.ensure("(self.is_success == (self.status_type == 'Success')) and (self.is_pending == (self.status_type == 'Pending'))"
         " and (self.is_failure == (self.status_type == 'Failure')) and (self.is_warning == (self.status_type == 'Warning'))"
         " and (self.is_cancel == (self.status_type == 'Cancel'))", 'flags-consistent')
c.ensure('implies(value == 0, self.is_success)', 'success')
c.ensure('_svc is None or self.status_type == _svc', 'service')
c.ensure("implies(_svc is None and not ps34.is_general(value), self.status_type == 'Failure')", 'unknown')
c.ensure('self._value == value', 'value-kept')

c = contract('statuses.Status.__int__')
c.prop('C18')
c.returns('int')
c.ensure('result == self._value', 'int')
