"""Contracts for pynetdicom2/dulprovider.py (C03, C05, C12, C13)."""
from pyvc.contracts import contract

# DULServiceProvider.run -- `while not self.is_killed`: the event loop.  Invariant (C03): at most one
# event is pending and, if one is, the primitive stored with it is still the current primitive.  The
# havoc statement puts the provider into an arbitrary state that satisfies it (pyvc/props/c03.py).
r = contract('dulprovider.DULServiceProvider.run')
r.prop('C03')
rl = r.loop('', 0)
rl.havoc_stmts = ['c03_havoc(self)']
rl.invariants = [('one-event-at-a-time-with-its-primitive', 'c03_inv(self)')]

# DIMSEDecoder.process as seen by the robustness property: pydicom may raise anything on
# undecodable input, unknown command fields raise KeyError, empty PDVs IndexError ...: the callers
# (DT-2 / AR-6) must survive every Exception.
c = contract('fsm.DIMSEDecoder.process@total')
c.qualname = 'fsm.DIMSEDecoder.process'
c.abstract = '''
if fresh_bool('decoder_raises'):
    raise Exception('undecodable DIMSE fragment')
self.receiving = fresh_bool('receiving')
self.msg = opaque_value('msg')
self.pc_id = fresh_int('pc_id')
'''
