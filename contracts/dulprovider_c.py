"""Contracts for pynetdicom2/dulprovider.py (C03, C05, C12, C13)."""
from pyvc.contracts import contract

# DIMSEDecoder.process as seen by the robustness property: pydicom may raise anything on
# undecodable input, unknown command fields raise KeyError, empty PDVs IndexError ...: the callers
# (DT-2 / AR-6) must survive every Exception.
c = contract('fsm.DIMSEDecoder.process@total')
c.qualname = 'fsm.DIMSEDecoder.process'
c.abstract = '''
if fresh_bool('decoder_raises'):
    raise Exception('undecodable DIMSE fragment')
self.receiving = fresh_bool('receiving')
self.msg = opaque_value('msg')
self.pc_id = fresh_int('pc_id')
'''
