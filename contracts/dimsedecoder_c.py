"""Loop specification of fsm.DIMSEDecoder.process (C07): `for value_item in p_data.data_value_items`.

The decoder is verified against a *fragment stream contract* -- what C06 proves about the sender:
a message travels as command fragments (control 1, ..., 1, 3) whose payloads concatenate to the
encoded command set C, followed -- iff the command set announces a data set -- by data fragments
(0, ..., 0, 2) whose payloads concatenate to the data set D; every payload is non-empty; all on one
presentation context.  The fragments may be grouped into P-DATA-TF PDUs in any way; a PDU ends
with the message's last fragment at the latest.

Ghost state (kept by pyvc/props/c07.py): the parts of C and D not yet delivered (`c_rest`, `d_rest`).
  havoc       c07_havoc(self): an arbitrary decoder state that satisfies the invariant
  invariant   c07_invariant(self): buffered command bytes ++ c_rest == C (until the command set is
              complete, from then on self.msg is the message of C's type built on the decoded command
              set); buffered / written data bytes ++ d_rest == D; receiving <=> something is still
              outstanding; the context id is the stream's
  head        c07_step: the head PDV is the next fragment of the stream (assumption = stream contract)
  tail/break  c07_commit: the fragment has been consumed
A `break` must leave nothing unprocessed (engine rule): it does, because the loop only breaks on the
message's last fragment.
"""
from pyvc.contracts import contract

c = contract('fsm.DIMSEDecoder.process')
c.prop('C07')
ls = c.loop('', 0)
ls.havoc_stmts = ['c07_havoc(self)']
ls.invariants = [('decoder-state', 'c07_invariant(self)')]
ls.lemmas_head = ['c07_step(self, _todo)']
ls.lemmas_tail = ['c07_commit()']
ls.on_break = ['c07_commit()']
