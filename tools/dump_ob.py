#!/usr/bin/env python3-vt
"""debug: run a property driver restricted by PYVC_ONLY and dump obligations whose name contains a substring
usage: PYVC_ONLY=... tools/dump_ob.py C01 'preserve:content' [--solve]"""
import sys, os, importlib, time
sys.path.insert(0, os.path.dirname(os.path.dirname(os.path.abspath(__file__))))
import z3
from pyvc import runner, discharge
pid, sub = sys.argv[1], sys.argv[2]
runner.load_sidecars()
ctx = runner.Ctx(pid, 'quick', 0)
mod = importlib.import_module('pyvc.props.%s' % pid.lower())
mod.run(ctx)
for ob in ctx.obligations:
    if sub in ob.name:
        print('====', ob.name, 'hyps', len(ob.hyps))
        print('GOAL', z3.simplify(ob.goal))
        if '--hyps' in sys.argv:
            for h in ob.hyps:
                print('  H', str(z3.simplify(h))[:400])
        if '--solve' in sys.argv:
            t = time.time()
            print(discharge.solve_text(discharge.to_smt2(ob.formula())), time.time() - t)
        if '--smt' in sys.argv:
            open('/tmp/ob.smt2', 'w').write(discharge.to_smt2(ob.formula()))
