#!/bin/bash
# keep_seed.sh <Cxx> <seed-name> <needs text>  -- confirm a sub-agent's seeded change in its scratch worktree
# /tmp/seed_<name>, run the property's check against /repo with the patch applied, store under /verif/seeded/<name>/
set -u
P=$1; NAME=$2; NEEDS=$3
W=/tmp/seed_$NAME
D=/verif/seeded/$NAME
mkdir -p $D
cd $W || exit 2
git diff -- pynetdicom2 > $D/patch.diff
DEMO=$(ls demo_*.py | head -1)
cp $DEMO $D/
/venv/bin/python $DEMO > /tmp/keep_demo_with.txt 2>&1; WITH=$?
TESTS=$(/venv/bin/python -m pytest -q -p no:cacheprovider tests/test_pdu.py tests/test_dimsemessages.py 2>&1 | tail -1)
git stash -q -- pynetdicom2
/venv/bin/python $DEMO > /tmp/keep_demo_without.txt 2>&1; WITHOUT=$?
git stash pop -q
git -C /repo apply $D/patch.diff || { echo "patch does not apply to /repo"; exit 2; }
cd /verif
PYVC_EVIDENCE_DIR=/tmp/keep_ev PYVC_OUT_DIR=/tmp/keep_out ./check $P > /tmp/keep_check.txt 2>&1; RC=$?
git -C /repo checkout -- .
VIOL=$(grep -c '^VIOLATION' /tmp/keep_check.txt)
FIRST=$(grep '^VIOLATION' /tmp/keep_check.txt | head -2 | sed 's/.*obligation=//' | tr '\n' ';')
python3 - "$P" "$NAME" "$NEEDS" "$WITH" "$WITHOUT" "$TESTS" "$RC" "$VIOL" "$FIRST" "$DEMO" <<'PY'
import json, sys
p, name, needs, w, wo, tests, rc, viol, first, demo = sys.argv[1:]
meta = {'property': p, 'needs_to_manifest': needs, 'demo': demo,
        'confirmed': {'demo_exit_with_change': int(w), 'demo_exit_without_change': int(wo), 'pinned_tests_with_change': tests},
        'ran': ['/venv/bin/python %s (with / without the patch, in a scratch worktree)' % demo,
                '/venv/bin/python -m pytest -q tests/test_pdu.py tests/test_dimsemessages.py (with the patch)',
                'git -C /repo apply patch.diff; ./check %s; git -C /repo checkout -- .' % p],
        'check_result': {'exit': int(rc), 'violation_lines': int(viol), 'first_obligations': first}}
json.dump(meta, open('/verif/seeded/%s/meta.json' % name, 'w'), indent=1)
print(json.dumps(meta['confirmed']), 'check exit', rc, 'violations', viol, first[:200])
PY
rm -rf /tmp/keep_ev /tmp/keep_out
