#!/bin/bash
# confirm_seed.sh <Cxx> <name> <needs text>: like keep_seed.sh but never touches /repo: the patch is applied to a
# scratch copy under /tmp for the check (VERIF_REPO); safe to run several at once.
set -u
P=$1; NAME=$2; NEEDS=$3
W=/tmp/seed_$NAME
D=/verif/seeded/$NAME
mkdir -p $D
cd $W || exit 2
git diff -- pynetdicom2 > $D/patch.diff
DEMO=$(ls demo_*.py | head -1)
cp $DEMO $D/
timeout 900 /venv/bin/python $DEMO > /tmp/cs_${NAME}_with.txt 2>&1; WITH=$?
TESTS=$(/venv/bin/python -m pytest -q -p no:cacheprovider tests/test_pdu.py tests/test_dimsemessages.py 2>&1 | tail -1)
# (no git stash: the stash is shared by all worktrees of the repository)
git apply -R $D/patch.diff
timeout 900 /venv/bin/python $DEMO > /tmp/cs_${NAME}_without.txt 2>&1; WITHOUT=$?
git apply $D/patch.diff
T=$(mktemp -d /tmp/cs_XXXX)
cp -r /repo $T/repo && rm -rf $T/repo/.git
( cd $T/repo && patch -p1 -s < $D/patch.diff ) || { echo "patch does not apply"; rm -rf $T; exit 2; }
cd /verif
VERIF_REPO=$T/repo PYVC_EVIDENCE_DIR=$T/ev PYVC_OUT_DIR=$T/out PYVC_JOBS=${SEED_JOBS:-8} timeout 2400 ./check $P > $T/check.txt 2>&1; RC=$?
VIOL=$(grep -c '^VIOLATION' $T/check.txt)
FIRST=$(grep -E '^(VIOLATION|CHECKER-ERROR|UNDECIDED)' $T/check.txt | head -2 | sed 's/.*obligation=//' | cut -c1-200 | tr '\n' ';')
python3 - "$P" "$NAME" "$NEEDS" "$WITH" "$WITHOUT" "$TESTS" "$RC" "$VIOL" "$FIRST" "$DEMO" <<'PY'
import json, sys
p, name, needs, w, wo, tests, rc, viol, first, demo = sys.argv[1:]
meta = {'property': p, 'needs_to_manifest': needs, 'demo': demo,
        'confirmed': {'demo_exit_with_change': int(w), 'demo_exit_without_change': int(wo), 'pinned_tests_with_change': tests},
        'ran': ['/venv/bin/python %s (with / without the patch, in a scratch worktree)' % demo,
                '/venv/bin/python -m pytest -q tests/test_pdu.py tests/test_dimsemessages.py (with the patch)',
                'VERIF_REPO=<scratch copy of /repo with patch.diff applied> ./check %s' % p],
        'check_result': {'exit': int(rc), 'violation_lines': int(viol), 'first_obligations': first}}
json.dump(meta, open('/verif/seeded/%s/meta.json' % name, 'w'), indent=1)
print(name, json.dumps(meta['confirmed']), 'check exit', rc, 'violations', viol, first[:220])
PY
rm -rf $T
