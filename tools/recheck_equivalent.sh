#!/bin/bash
# recheck_equivalent.sh: every behaviour-preserving patch under seeded/equivalent against the checks of the
# properties anchored in the file it touches; a VIOLATION line or exit 1 on one of them is a false alarm of the
# machinery (exit 3 = the sidecar specification no longer matches the code, "cannot verify": tolerated, listed).
# Scratch copies live under /tmp and are removed; /repo is never touched.
set -u
cd /verif
checks_for() {
  case $1 in
    asce_*) echo "C06 C09 C10 C11 C13 C14";;
    dimse_*) echo "C06 C07 C08 C10 C15 C16";;
    dul_*) echo "C03 C05 C12 C13";;
    fsm_*) echo "C03 C04 C05 C07 C12 C13 C14";;
    sop_*) echo "C15 C16 C17 C19";;
    ae_*) echo "C07 C09 C11";;
    *) echo "";;
  esac
}
one() {
  f=$1; P=$2
  T=$(mktemp -d /tmp/receq_XXXX)
  cp -r /repo $T/repo && rm -rf $T/repo/.git
  ( cd $T/repo && patch -p1 -s < /verif/seeded/equivalent/$f ) || { echo "$f $P PATCH-FAILED"; rm -rf $T; return; }
  VERIF_REPO=$T/repo PYVC_EVIDENCE_DIR=$T/ev PYVC_OUT_DIR=$T/out PYVC_MAX_REPLAYS=3 PYVC_JOBS=5 timeout 3000 ./check $P > $T/log 2>&1; rc=$?
  echo "$f $P exit=$rc $(grep -m1 -E '^(VIOLATION|CHECKER-ERROR|UNDECIDED)' $T/log | sed 's/replay=[^ ]*//' | cut -c1-160)"
  rm -rf $T
}
export -f one
for f in $(ls seeded/equivalent); do for P in $(checks_for $f); do echo "$f $P"; done; done |
  xargs -P ${RECHECK_PAR:-3} -L1 bash -c 'one $0 $1' | sort > /tmp/receq_result.txt
cat /tmp/receq_result.txt
bad=$(grep -c ' exit=[12] ' /tmp/receq_result.txt)
echo "false alarms (exit 1 or 2): $bad; cannot-verify (exit 3): $(grep -c ' exit=3 ' /tmp/receq_result.txt)"
[ "$bad" = 0 ]
