#!/usr/bin/env python3
"""coverage_gaps.py: list the functions of /repo/pynetdicom2 that no evidence file names.

Reads every /verif/evidence/Cxx.json (any key holding records with a "function" entry: functions,
functions_under_contract, provider_functions, ...) and compares with the functions defined in the
repository's current working tree.  Functions that are executed only inline inside another function's
symbolic execution (constructors, the AE-/AA-/AR-/DT- action methods reached through
StateMachine.action, default application handlers replaced by symbolic handlers) are not named by
the evidence files and are reported in the second group.  Nothing here is a verdict: it is the list
to read when asking "what surrounds the verified functions".
"""
import ast
import glob
import json
import os
import sys

REPO = os.environ.get('VERIF_REPO', '/repo')
HERE = os.path.dirname(os.path.dirname(os.path.abspath(__file__)))

INLINE_ONLY = (
    lambda q: q.endswith('.__init__'),
    lambda q: q.endswith('.__repr__') or q.endswith('.__str__'),
    lambda q: q.startswith('fsm.StateMachine.a') or q.startswith('fsm.StateMachine.dt_'),
    lambda q: q.startswith('applicationentity.AEBase.on_'),
)


def named_functions():
    named = set()

    def walk(o):
        if isinstance(o, dict):
            f = o.get('function')
            if isinstance(f, str):
                named.add(f.split(':')[0].split('#')[0].split('[')[0])
            for v in o.values():
                walk(v)
        elif isinstance(o, list):
            for v in o:
                walk(v)
    for f in sorted(glob.glob(os.path.join(HERE, 'evidence', 'C*.json'))):
        walk(json.load(open(f)))
    return named


def defined_functions():
    out = set()
    for p in sorted(glob.glob(os.path.join(REPO, 'pynetdicom2', '*.py'))):
        m = os.path.basename(p)[:-3]
        tree = ast.parse(open(p).read())
        for n in tree.body:
            if isinstance(n, ast.FunctionDef):
                out.add('%s.%s' % (m, n.name))
            elif isinstance(n, ast.ClassDef):
                for k in n.body:
                    if isinstance(k, ast.FunctionDef):
                        out.add('%s.%s.%s' % (m, n.name, k.name))
    return out


def main():
    named, defined = named_functions(), defined_functions()
    # c16 names the package-level helpers as pynetdicom2.<name>
    named |= {'__init__.' + q.split('.', 1)[1] for q in named if q.startswith('pynetdicom2.')}
    missing = sorted(defined - named)
    inline = [q for q in missing if any(t(q) for t in INLINE_ONLY)]
    rest = [q for q in missing if q not in inline]
    print('%d functions defined, %d named by evidence files' % (len(defined), len(defined & named)))
    print('\nnot named, executed inline only or presentation only (%d):' % len(inline))
    for q in inline:
        print('  ' + q)
    print('\nnot named by any evidence file (%d):' % len(rest))
    for q in rest:
        print('  ' + q)
    return 0


if __name__ == '__main__':
    sys.exit(main())
