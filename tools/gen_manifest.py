#!/usr/bin/env python3
"""Generates /verif/MANIFEST.json from the table below (kept in one place so that the
manifest is always schema-valid)."""
import json
import os

HERE = os.path.dirname(os.path.dirname(os.path.abspath(__file__)))

TRUST = ('pyvc VC generator and its models of Python builtins/struct/BytesIO/dict (audited natively, bounded); '
         'z3 5.1 + cvc5 1.0.3; sequential execution (no threads); ')

CLAIMED = {
    'C18': dict(
        text='Deductive proof, per function and for all inputs: Status.__init__ is executed symbolically from the real '
             'source for a symbolic 16-bit code under each of the 24 commands (the finite index is enumerated, the code '
             'stays symbolic, so all 65536 x 24 pairs are covered) against the PS3.4/PS3.7 classification oracle; '
             'add_status is proved (loop invariants) to refine the range update that register_statuses() is '
             'evaluated with; Status.__int__ returns the stored code.',
        ref='4/C18',
        note=TRUST + 'status tables transcribed in spec/ps34_status.py are the oracle; dict = update chain; namedtuple structural equality',
        technique='contract-based deductive verification: AST->VC symbolic execution of the real functions, z3/cvc5'),
}

CLAIMED['C04'] = dict(
    text='Deductive proof, complete over the finite index: for each of the 13 x 19 cells, both roles, ARTIM running or '
         'not, and every applicable primitive kind (fields symbolic), the real provider is built by the real '
         'constructors, StateMachine.action(event) and the action method it dispatches to are executed symbolically from '
         'the working tree (the transition table is the dict display evaluated from the AST), and wire / user / transport / '
         'ARTIM / next-state effects are compared with the transcription of PS3.8 Tables 9-6..9-10; undefined cells must '
         'have no effect. 247 cells x 2 roles x 2 timer states x primitive kinds, ~11000 obligations.',
    ref='4/C04',
    note=TRUST + 'spec/ps38_table_9_10.py is the oracle; transport pre-state per cell is the provider-loop invariant '
         '(C05); PDU encode() and DIMSEDecoder.process are seen through their contracts (C02, C07); sockets, queues, '
         'clock are effect stubs',
    technique='contract-based deductive verification: per-cell symbolic execution of the real action bodies against '
              'the state-table contract, z3/cvc5')

CLAIMED['C01'] = dict(
    text='Deductive proof for all structured values: for each of the 23 PDU / item / sub-item classes the real decode() is '
         'executed symbolically on the bytes the real encode() produces for a symbolic valid value (followed by arbitrary '
         'further bytes) and must return that value field by field and stop exactly at its end; total_length/item_length '
         'equal the encoded byte count. Item lists of any length and any order of kinds are covered by inductive loop '
         'invariants on the four decode loops (ghost remaining-list, JOIN/SUM/ALL fold combinators with engine-applied '
         'structural induction whose pointwise premises are themselves obligations); loop-bearing item decoders are used '
         'modularly (their round-trip contract) inside the PDU-level loop. The standard is never mentioned.',
    ref='4/C01',
    note=TRUST + 'struct pack/unpack as uninterpreted be_n/unbe_n with ground inverse lemmas; str encode/decode uninterpreted '
         'with ASCII lemmas; UID() identity; values the encoder itself rejects (struct.error) are outside the domain; object '
         'equality structural over __init__ fields; re-encoding clause is a corollary of value equality (encode is a function '
         'of the fields)',
    technique='contract-based deductive verification: symbolic execution of real encode/decode, loop invariants, fold '
              'lemmas, z3/cvc5')

CLAIMED['C02'] = dict(
    text='Deductive proof: (a) for every class and every valid value the real encode() equals the printer transcribed from '
         'PS3.8 9.3 / PS3.7 D.3.3 (field order, widths, big-endian, type codes, each length field = bytes it governs) and '
         'total_length() = bytes emitted; item lists through the fold-extensionality lemma whose pointwise premise is an '
         'obligation; (b) every conformant encoding is the image of a structured value under that printer (any item order, '
         'generic sub-items), so by (a) the converse direction is the round-trip obligation set, generated and discharged '
         'again under this property.',
    ref='4/C02',
    note=TRUST + 'spec/ps38_layouts.py (transcription of the standard) is the oracle; text fields ASCII; AE titles <= 16 '
         'characters without pad characters at the ends',
    technique='contract-based deductive verification: real encode vs reference printer, round trip, fold lemmas, z3/cvc5')

CLAIMED['C17'] = dict(
    text='Deductive proof per provider callable (verification_scp, storage_scp, qr_find_scp, modality_work_list_scp, '
         'qr_move_scp + _send_response, StorageCommitment.n_action / n_event_report through MessageDispatcherSCP): the real '
         'function is executed symbolically with a request built by the real message constructor and symbolic message id '
         '(16-bit range), UIDs and context id, the application handler returning any status or raising '
         'EventHandlingError. Correlation (context id, Message ID Being Responded To, SOP class, SOP instance, response '
         'type, status) is a precondition of send() proved at every call site (for every loop iteration via havoc of '
         'what the loop body writes); `answered` is a postcondition on the ghost send counter.',
    ref='4/C17',
    note=TRUST + 'request SOP class equals the abstract syntax of its presentation context; handlers raise only '
         'EventHandlingError; pydicom Dataset on command sets modelled as ordered tag map (pyvc/dsmodel.py); dsutils codecs '
         'opaque; the C-STORE responses of the C-GET user are decided under C19',
    technique='contract-based deductive verification: send() preconditions at call sites, symbolic execution of the '
              'real providers, z3/cvc5')

CLAIMED['C16'] = dict(
    text='Deductive proof with loop rules: qr_find_scp / modality_work_list_scp: for an arbitrary finite sequence of '
         '(data set, status) pairs from the application the loop body is verified for an arbitrary iteration (exactly one '
         'response with that status and that encoded data set on the request context), the loop-exit path sends exactly '
         'one final Success response without data set; every store to a message that may already have been handed to the '
         'lazy encoder is an ownership obligation. qr_find_scu / modality_work_list_scu: receive loop verified for an '
         'arbitrary response: one (decoded data set | None, Status(code)) pair per response, continues only after '
         'FF00/FF01, stops at the first non-pending response.',
    ref='4/C16',
    note=TRUST + 'application iterator finite; data sets opaque (dsutils codecs deterministic); transport of each message '
         'is C06/C07; c_find wrapper not under contract (needs a live association)',
    technique='contract-based deductive verification: loop invariants/havoc, ghost send trace, ownership monitor, z3/cvc5')
CLAIMED['C19'] = dict(
    text='Deductive proof with loop rules: qr_move_scp: arbitrary iteration of the sub-operation loop performs exactly one '
         'store of the current data set on the destination association and sends exactly one pending response reporting '
         'completed = k, remaining = total - k after the k-th sub-operation; loop exit (and the nothing-to-move case) '
         'sends exactly one final response. qr_get_scu: arbitrary received message: a C-STORE request is answered exactly '
         'once on its arrival context, correlated and with the handler status, and handed to the caller at most once; '
         'pending C-GET responses are skipped; the final one ends the operation.',
    ref='4/C19',
    note=TRUST + 'destination association and its storage service are oracles; application supplies a finite list; '
         'received context ids are negotiated ones',
    technique='contract-based deductive verification: loop invariants/havoc, ghost traces, z3/cvc5')

CLAIMED['C12'] = dict(
    text='Deductive proof, modular: every one of the 23 decoders is proved total on ARBITRARY stream content (returns an '
         'instance having consumed at least one byte, or raises one of struct.error / UnicodeDecodeError / '
         'PDUProcessingError; decode loops terminate by the variant |remaining bytes|), nested decoders seen through the '
         'same contract; _process_incoming and _check_network (every state) with an arbitrary receive buffer let none of '
         'these escape and turn them into Evt19; DT-2 / AR-6 survive a DIMSE decoder that may raise any Exception; recv() '
         'is only called on a socket that select() reported readable in the same call (blocking typestate); the state '
         'table is total on peer-caused events in every state in which the socket is read.',
    ref='4/C12',
    note=TRUST + 'recv/select model (any chunk, EOF, error; nondeterministic readiness); pydicom may raise anything; the '
         'well-formed A-ABORT of the Evt19 cells is the wire obligation of C04; OS-level liveness assumed',
    technique='contract-based deductive verification: totality contracts, exception-escape obligations, loop variants, '
              'typestate of blocking calls, z3/cvc5')

LOOPNOTE = ('per-iteration clauses are machine-checked for an arbitrary iteration from an arbitrary state satisfying the '
            'invariants; the step from "every iteration does X for its element" to the statement about the whole '
            'sequence is the standard induction over iterations (trusted schema); loop frame pinned by invariants; ')

CLAIMED['C09'] = dict(
    text='Deductive proof with loop rules: the real AssociationAcceptor.accept on an arbitrary A-ASSOCIATE-RQ in standard '
         'item order (any number of presentation contexts, each proposing any number of transfer syntaxes) against an '
         'arbitrary configuration (uninterpreted predicates served / supported_ts). Outer loop, arbitrary iteration: '
         'exactly one answer appended at the end, with the proposed id; acceptance iff abstract syntax served and some '
         'proposed transfer syntax supported (ALL-fold over the proposal with ghost prefix of syntaxes passed over); the '
         'accepted syntax is an element of the proposal and supported; routing tables written at that id iff accepted, '
         'with the proposed abstract syntax and the reported transfer syntax. Inner loop: passing over changes nothing. '
         'Exit path: one A-ASSOCIATE-AC repeating the AE titles, the application-context item and the user information '
         '(object identity); the provider routes by the same table object. _loop: a message on context k reaches a '
         'service iff k is in the SCP table and the class is served, with the table\'s context; else '
         'ClassNotSupportedError.',
    ref='4/C09',
    note=TRUST + LOOPNOTE + 'constructors (sockets, thread) not executed: object state set as they leave it; proposed '
         'ids pairwise distinct for the whole-table reading; lists of PDU items are hybrid lists (known elements keep '
         'identity, symbolic segments between them)',
    technique='contract-based deductive verification: loop invariants + ghost prefix, ALL-fold lemmas, symbolic '
              'execution of the real accept/_loop, z3/cvc5')

CLAIMED['C10'] = dict(
    text='Deductive proof, all values: own (configured) and peer (announced) maximum lengths symbolic over {0} u '
         '[7, 2^32-1]. accept and _request (real code, arbitrary request/reply around the Maximum Length sub-item): eff '
         '<= peer when peer != 0, eff == own when peer == 0, eff in {0} u [7,..], announced value in [1, own] when own '
         '!= 0; the loops of both functions keep eff and the announced value (invariants). Association.send hands eff and '
         'the caller\'s context id to DIMSEMessage.encode; encode/fragment/fragment_file (C06 obligations, re-generated '
         'here): every P-DATA-TF has pdu_length = len(fragment) + 6 <= eff (eff != 0), every byte is sent for every eff '
         'in range (0 = unlimited).',
    ref='4/C10',
    note=TRUST + LOOPNOTE + 'announced values 1..6 (no room for a one-byte fragment) are outside the domain; receiving '
         'with a configured maximum of 0 (socket.recv(0)) is not part of this property',
    technique='contract-based deductive verification: linear-integer postconditions on the real negotiation code, '
              'loop invariants, z3/cvc5')

CLAIMED['C06'] = dict(
    text='Deductive proof with loop invariants, all stream lengths and all maximum lengths in {0} u [7, 2^32-1]: '
         'fragment (range loop over positions) and fragment_file (read loop, variant |remaining|): invariant `fragments so '
         'far ++ rest of stream == stream`, each step yields exactly one fragment = the next 1..max-6 bytes flagged last iff '
         'nothing follows, `last seen <=> at end and something sent`; at exit everything was sent and a non-empty stream '
         'ended with its single last fragment. DIMSEMessage.encode as a pipeline over those generators (no data set / bytes '
         '/ file): every yielded PDU wraps exactly one fragment in one PDV on the message context, value = control byte ++ '
         'fragment, pdu_length = len + 6 <= max; command codes 1/3, data codes 0/2; command stream complete before data; '
         'both streams completed; file closed. Association.send: set_length, then queue encode(pc_id, negotiated max).',
    ref='4/C06',
    note=TRUST + LOOPNOTE + 'dsutils.encode(command set) is an arbitrary byte string (content is C08); BytesIO model of '
         'file data sets; "identical for bytes and file" = both satisfy the same content contract',
    technique='contract-based deductive verification: loop invariants over byte-sequence concatenation, generator '
              'pipeline with ghost yield trace, z3/cvc5')

CLAIMED['C11'] = dict(
    text='Deductive proof: (A) AEBase.update_context_def_list/_build_context_def_list preserve the table invariant '
         'Inv(n) (keys exactly 1,3,..,2n-1; key 2i+1 holds the i-th configured class with supported_ts) for arbitrary n '
         'and an arbitrary list of m new classes -- checked at an arbitrary key of the resulting table (engine rule for '
         'the dictionary comprehension over zip(classes, count(start, 2))); ids <= 255 proved for n+m <= 128 and refuted '
         'beyond (known finding, reproduced natively with 129 classes); copy_context_def_list returns an equal new '
         'table. (B) _request with an arbitrary table: AE titles, DICOM application context first, one '
         'presentation-context item per table entry (pointwise at an arbitrary position: id, abstract syntax, configured '
         'transfer syntaxes in order), Maximum Length = configured maximum. (C) reply loop, arbitrary iteration: a '
         'context is entered in accepted_contexts / sop_classes_as_scu iff the answer is an acceptance, with the peer\'s '
         'transfer syntax and the abstract syntax proposed under that id; provider routes by the same table; reply '
         'returned. (D) get_scu: partial(service, association, PContextDef(id, class, ts)) iff the table has the class '
         '(and it is configured as SCU), else ClassNotSupportedError.',
    ref='4/C11',
    note=TRUST + LOOPNOTE + 'reply answers carry proposed ids; supported_ts iterated in a fixed order; add_scu/add_scp '
         'wrappers only in the bounded native audit; engine rules: dict comprehension over zip(seq, count), dict.update '
         'with an abstract table, chain() around a generator expression over a symbolic sequence (pointwise map)',
    technique='contract-based deductive verification: data-structure invariant of the context table, pointwise map '
              'instances, loop invariants, z3/cvc5')

CLAIMED['C08'] = dict(
    text='Deductive proof over the finite index of 23 message classes x 4 kinds of data set, field values symbolic: the '
         'real constructor, every tag-bound property setter, the data_set setter and set_length() are executed '
         'symbolically from an ARBITRARY earlier state of the data-set-type element (covers re-sending one object with '
         'changing fields): fresh message says no data set and carries the PS3.7 command field of its type; after the '
         'setter the flag is 0101H iff bool(value) is false (what encode() tests before fragmenting a data set); '
         'set_length stores the sum of |encode_element(e)| over all elements other than (0000,0000) and changes nothing '
         'else. Association.send calls set_length before queueing the encoder. The byte-level reading (bytes that '
         'follow; ascending tag order) rests on the pydicom writer model, which is audited natively on every run and '
         'reported as assumed, not proved.',
    ref='4/C08',
    note=TRUST + 'pydicom Dataset on command sets = insertion-ordered tag map, BaseTag compares equal to ints and '
         '(group, element) pairs (pyvc/dsmodel.py); encode_element a function of tag and value; audit: 23 classes x UID '
         'lengths 1..64 (replay/c08.py); empty file data sets outside the domain',
    technique='contract-based deductive verification: class invariant (data-set flag) preserved by every mutator, '
              'postcondition of set_length, symbolic execution of the real methods, z3/cvc5; writer model audited')

CLAIMED['C07'] = dict(
    text='Deductive proof with a loop invariant over the PDV loop of the real fsm.DIMSEDecoder.process: an arbitrary '
         'P-DATA-TF (any number of PDVs) arrives at an arbitrary point of a fragment stream that satisfies the sender '
         'contract proved under C06 (command fragments 1..1,3 whose payloads concatenate to C, then iff announced data '
         'fragments 0..0,2 concatenating to D, any grouping into PDUs). Invariant: buffered command bytes ++ '
         'undelivered == C until complete, then the message object exists on the decoded command set and the stream\'s '
         'context; buffered or file-written data ++ undelivered == D; receiving <=> something outstanding. Obligations: '
         'dsutils.decode is called on exactly C; completion is signalled exactly at the last fragment (a break leaves no '
         'PDV unprocessed); at completion data set == D in memory, or the storage file holds callback-content ++ D and '
         'is positioned at the reported start. _command_set_to_message maps each of the 23 command fields to the PS3.7 '
         'class (all codes). AEBase.get_file/write_meta: start 0, preamble, meta built from the command set UIDs and the '
         'negotiated transfer syntax.',
    ref='4/C07',
    note=TRUST + LOOPNOTE + 'pydicom reader/writer external: decode(C) = the transmitted command set, '
         'write_file_meta_info arguments checked only; JOIN over a list of byte strings as a fold with ground lemma '
         'instances; one decoder per message; a PDU carries fragments of one message',
    technique='contract-based deductive verification: loop invariant with ghost stream state, assume-guarantee link '
              'to the sender contract of C06, z3/cvc5')

CLAIMED['C15'] = dict(
    text='Deductive proof per function along the path of a C-STORE, composed by contracts (no whole-stack run): storage_scu '
         '(data set in memory: request carries the data set\'s UIDs, the caller\'s message id, the data set encoded with '
         'the negotiated transfer syntax flags, on the given context; data set in a file: UIDs from the file meta, the '
         'open file positioned exactly at the first data-set byte on both paths of the instance-UID fallback; returned '
         'status = the peer\'s); C06/C07 obligations carry the bytes (fragmentation for both sources, reassembly for both '
         'sinks); storage_scp (handler gets the received object and the context exactly once while the file is open, file '
         'closed afterwards, response status = handler\'s or C000 on EventHandlingError); _get_storage_file over an '
         'arbitrary file-system predicate: the one file opened for writing did not exist (loop exit condition), '
         'write_meta gets the negotiated transfer syntax, start 0.',
    ref='4/C15',
    note=TRUST + 'end-to-end = composition of C06, C07, C17 and the clauses here (the composition itself is an '
         'argument, not a machine-checked run over TCP and threads); pydicom reader/writer fidelity external; no '
         'concurrent writer into the storage directory; termination of the uniquifying loop assumed',
    technique='contract-based deductive verification: per-function postconditions, stream positions as byte-sequence '
              'equalities, file-system predicate, z3/cvc5')

CLAIMED['C14'] = dict(
    text='Deductive proof per function, field values symbolic over the byte range: _establish turns the application\'s '
         'AssociationRejectedError(result, source, diag) into exactly one A-ASSOCIATE-RJ with those values and re-raises '
         'it without reaching accept(); handle never enters _loop (the only caller of services) on a refused '
         'association and always stops the provider; reject / abort (source 2 for the acceptor, 0 for the requester) / '
         'release hand the right PDU to the provider before stopping it; _handle_errors and _get_dul_message map '
         'A-ASSOCIATE-RJ, A-ABORT and A-RELEASE-RQ to the library errors with every field unchanged, return (message, '
         'context) pairs as received and raise NetDICOMError for any other PDU; _request raises the rejection / abort of '
         'the reply unchanged and makes no context usable; request_association (generator context manager, five '
         'scenarios): normal exit releases exactly once, exceptional exit aborts exactly once and re-raises, a failed '
         'request only stops the provider.',
    ref='4/C14',
    note=TRUST + 'transport of the PDUs between the two sides is C01 (codec) and C04 (state machine); collaborators '
         'stubbed per function; that the provider thread transmits a queued PDU before honouring the stop request is '
         'scheduling (not claimed)',
    technique='contract-based deductive verification: per-function postconditions over symbolic field values, '
              'exception-flow obligations, symbolic execution of the real generator-based context manager, z3/cvc5')

CLAIMED['C03'] = dict(
    text='Deductive proof per function, buffers and chunks symbolic byte strings of any length: _check_incoming_pdu '
         'appends a received chunk unchanged (end of stream / error: Evt17, socket closed); _process_incoming on an '
         'arbitrary buffer takes a frame iff a complete PDU is buffered (len >= 6 + big-endian length field), hands '
         'exactly those leading bytes to the decoder of the type byte (or Evt19), queues exactly one event, keeps exactly '
         'the rest, and otherwise changes nothing; _check_network in each of the 13 states and for every select/recv '
         'outcome queues at most one event and satisfies buffer ++ chunk == frame ++ new buffer; the run loop body, from '
         'an arbitrary state satisfying the invariant "at most one pending event, stored with the current primitive", '
         'hands each event to the state machine in queue order with its own primitive and re-establishes the invariant '
         '(this is what makes "already waiting at start" irrelevant). Frames = the unique parse of the stream.',
    ref='4/C03',
    note=TRUST + LOOPNOTE + 'socket model (any chunk / EOF / error, nondeterministic readiness); PDU decoders through '
         'their C12 totality contract; queued user primitives are PDU objects; local user passive in the native replay',
    technique='contract-based deductive verification: byte-sequence postconditions on the real framing code, loop '
              'invariant of the event loop with ghost event/primitive pairing, z3/cvc5')

CLAIMED['C05'] = dict(
    text='Deductive refinement proof, by contracts on the real functions, of "each iteration of run() is one step of the '
         'PS3.8 machine": (1) loop invariant of run: one event at a time, handled in queue order with its own primitive; '
         '(2) events numbered as in PS3.8: PDU_TYPES / PDU_TO_EVENT against the transcription, _check_outgoing_pdu (the '
         'user primitive becomes the current primitive and gives its event), _check_timer/Timer (Evt18 iff ARTIM running '
         'and expired), every complete PDU is recognised in every state that has a connection (incl. Sta13); (3) all 247 '
         'cells x role x ARTIM x primitive kind against Table 9-10 (the C04 obligations, re-generated); (4) the loop '
         'invariant Inv (idle <=> no connection; ARTIM runs exactly in Sta2 and Sta13) preserved by every defined cell; '
         '(5) an idle provider without connection reads nothing. The "in particular" clauses follow from (3)+(4)+(5). '
         'Thorough tier adds a bounded CPython cross-check of whole histories (labelled bounded).',
    ref='4/C05',
    note=TRUST + LOOPNOTE + 'the induction over iterations that composes (1)-(5) into "for every history" is not '
         'machine-checked; user primitives legal in the state they are handled in; clock monotonic; sockets/queues are '
         'effect stubs; spec/ps38_table_9_10.py is the oracle',
    technique='contract-based deductive verification: refinement via loop invariant + per-cell contracts + event-source '
              'contracts, z3/cvc5')

CLAIMED['C13'] = dict(
    text='Deductive proof of the safety content of a bounded-liveness statement, as lemmas over contracts: everything of '
         'C05 (each iteration of run() is one PS3.8 step; loop invariant Inv: idle <=> no connection, ARTIM runs exactly '
         'in Sta2 and Sta13); lemmas over the code\'s transition table and the transcription: Evt17 is defined in every '
         'connected state and leads to Sta1; Evt18 is defined in Sta2 and Sta13, closes the connection and leads to Sta1; '
         'every ending action lands in Sta1 or Sta13; every ending of an association the user knows about gives the user '
         'an indication; run() sets the completion event however the loop ends and tells the user when an exception '
         'escapes; kill() raises the stop flag before waiting for that event; stop() stops only an idle provider; '
         'Association.kill() is a bounded wait followed by dul.kill(). With C12 (iterations terminate and never block) '
         'the stop flag is seen at the next loop head and the waits in Sta2/Sta13 are bounded by ARTIM.',
    ref='4/C13',
    note=TRUST + LOOPNOTE + 'the time bound itself (ARTIM period + 50 ms polling) and thread scheduling are not within a '
         'sequential contract verifier: the liveness conclusion is an argument over the machine-checked lemmas; OS '
         'delivers a closed connection as readable end of stream',
    technique='contract-based deductive verification: loop invariant, lemmas over the transition table, postconditions '
              'of run/kill/stop, z3/cvc5')

NOT_YET = {
}

NOT_APPLICABLE = {
    'C20': 'quantifies over thread interleavings of several associations; the sequential contract verifier has no rule '
           '(rely/guarantee, cross-thread permissions) for schedules, so no contract within reach decides it (DESIGN.md 4/C20)',
}

ALL = ['C%02d' % i for i in range(1, 21)]


# dependency phases (pyvc/runner.py DEPENDS): obligations of other properties re-generated in the same run
DEPENDS_TEXT = {
    'C03': 'C04 (every cell of the state table, with the frame clauses: an action leaves the receive buffer and unread '
           'indications alone)',
    'C06': 'C02 for PresentationDataValueItem and PDataTfPDU (the wire form of the fragments)',
    'C07': 'C06 (the sender\'s side of the fragment-stream contract)',
    'C14': 'C04 (the state-table cells that hand A-ASSOCIATE-RJ, A-ABORT and A-RELEASE PDUs to the user) and C02 for '
           'the A-ASSOCIATE-RJ, A-ABORT and A-RELEASE PDU classes (they travel intact)',
    'C15': 'C06 (fragmentation) and C07 (reassembly)',
    'C16': 'C06 (fragmentation) and C07 (reassembly)',
    'C19': 'C15 (storage_scu: one sub-operation is one C-STORE request)',
}


def main():
    checks = []
    for pid in ALL:
        if pid not in CLAIMED:
            continue
        c = dict(CLAIMED[pid])
        if pid in DEPENDS_TEXT:
            c['text'] = c['text'].rstrip() + (' In the same run the obligations of the properties this statement '
                                              'rests on are re-generated on interpreters of their own: %s.'
                                              % DEPENDS_TEXT[pid])
        checks.append({
            'property_id': pid,
            'quick_cmd': './check %s --tier quick' % pid,
            'thorough_cmd': './check %s --tier thorough' % pid,
            'evidence_file': 'evidence/%s.json' % pid,
            'replay_cmd_template': './check %s --replay {path}' % pid,
            'engine': 'pyvc',
            'level_claimed': {'category': c.get('category', 'proof'), 'text': c['text'], 'design_ref': c['ref']},
            'level_note': c['note'],
            'technique': c['technique'],
        })
    na = []
    for pid in ALL:
        if pid in CLAIMED:
            continue
        if pid in NOT_APPLICABLE:
            na.append({'property_id': pid, 'reason': NOT_APPLICABLE[pid]})
        else:
            na.append({'property_id': pid, 'reason': NOT_YET.get(
                pid, 'not claimed yet: the functions this property depends on are not all within the VC generator\'s '
                     'reach at this commit (DESIGN.md 7); no check is registered rather than a weaker technique substituted')})
    m = {
        'version': 1,
        'setup_cmd': './setup.sh',
        'hooks': {
            'guard': 'PYNETDICOM2_VERIF',
            'enable': 'unused: contracts live in sidecar files under /verif/contracts; /repo carries no hooks',
            'baseline_off_cmd': 'cd /repo && /venv/bin/python -m pytest -ra -q -p no:cacheprovider --timeout=900 '
                                '--continue-on-collection-errors',
            'source_commits': [],
            'add_only': True,
        },
        'engines': [{
            'name': 'pyvc',
            'path': 'pyvc/',
            'serves_properties': sorted(CLAIMED),
            'kind_free_text': 'modular VC generator over the Python AST of the real repository files + sidecar '
                              'contracts; obligations discharged by z3 (API) and cvc5 (CLI)',
        }],
        'checks': checks,
        'not_applicable': na,
        'notes': 'exit codes of ./check: 0 held (KNOWN-FINDING lines printed), 1 VIOLATION, 2 undecided '
                 '(solver unknown), 3 checker error. VERIF_REPO overrides the tree under check (mutant self-test).',
    }
    with open(os.path.join(HERE, 'MANIFEST.json'), 'w') as fh:
        json.dump(m, fh, indent=1)
    print('MANIFEST.json: %d checks, %d not_applicable' % (len(checks), len(na)))


if __name__ == '__main__':
    main()
