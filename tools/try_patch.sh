#!/bin/bash
# try_patch.sh <patch> <Cxx> [<Cyy> ...]: apply a patch to a scratch copy of /repo (outside /repo and /verif), run the
# named checks against the copy (VERIF_REPO) and print their exit codes; the copy is removed afterwards.
set -u
PATCH=$1; shift
T=$(mktemp -d /tmp/try_patch_XXXX)
cp -r /repo $T/repo && rm -rf $T/repo/.git
( cd $T/repo && patch -p1 -s < $PATCH ) || { echo "patch failed"; rm -rf $T; exit 2; }
for P in "$@"; do
  VERIF_REPO=$T/repo PYVC_EVIDENCE_DIR=$T/ev PYVC_OUT_DIR=$T/out PYVC_MAX_REPLAYS=3 /verif/check $P > $T/$P.log 2>&1; RC=$?
  echo "$(basename $PATCH) $P exit=$RC $(grep -m2 -E '^(VIOLATION|CHECKER-ERROR|UNDECIDED)' $T/$P.log | sed 's/replay=[^ ]*//' | cut -c1-220 | tr '\n' '|')"
done
rm -rf $T
