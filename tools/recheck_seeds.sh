#!/bin/bash
# recheck_seeds.sh [pattern]: apply every kept seed (seeded/<name>/patch.diff, property from meta.json) to a scratch
# copy of /repo outside /repo and /verif, run the property's check against the copy, and print one line per seed;
# then every behaviour-preserving patch under seeded/equivalent against the checks named in its file name
# (eq_<Cxx>[_Cyy]_*.diff) -- those must exit 0 (or 3: outside the supported subset, never 1).
# Nothing is written to /repo; the scratch copies are removed.  Exit 0 iff every seed gives exit 1 with a VIOLATION line.
set -u
PAT=${1:-*}
JOBS=${RECHECK_PAR:-3}
cd /verif
one() {
  name=$1
  P=$(python3 -c "import json;print(json.load(open('/verif/seeded/$name/meta.json'))['property'])")
  T=$(mktemp -d /tmp/recheck_XXXX)
  cp -r /repo $T/repo && rm -rf $T/repo/.git
  ( cd $T/repo && patch -p1 -s < /verif/seeded/$name/patch.diff ) || { echo "$name PATCH-FAILED"; rm -rf $T; return; }
  VERIF_REPO=$T/repo PYVC_EVIDENCE_DIR=$T/ev PYVC_OUT_DIR=$T/out PYVC_MAX_REPLAYS=3 PYVC_JOBS=5 timeout 3000 ./check $P > $T/log 2>&1; rc=$?
  v=$(grep -c '^VIOLATION' $T/log)
  first=$(grep -m1 '^VIOLATION' $T/log | sed 's/.*obligation=//' | cut -c1-150)
  echo "$name $P exit=$rc violations=$v $first"
  rm -rf $T
}
export -f one
ls seeded | grep -v equivalent | grep -E "^(${PAT//\*/.*})$" | xargs -P $JOBS -I{} bash -c 'one {}' | sort > /tmp/recheck_result.txt
cat /tmp/recheck_result.txt
bad=$(grep -vc ' exit=1 violations=[1-9]' /tmp/recheck_result.txt)
echo "seeds not reported: $bad"
[ "$bad" = 0 ]
