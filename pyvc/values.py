"""Value model of the pyvc symbolic interpreter.

Concrete Python values (int, bool, None, bytes, str, tuple) are used as they are; symbolic
values are z3 terms (Int, Bool, Seq(BV8), Str).  Everything with identity or structure
is one of the classes below.
"""
import z3
from . import smt


class Unsupported(Exception):
    """Construct outside the supported subset / missing model: checker error (exit 3)."""


class PathEnd(Exception):
    """The current path ends here (infeasible, or cut after an invariant check)."""


class Raised(Exception):
    """A Python exception propagating in the interpreted program."""

    def __init__(self, exc):
        Exception.__init__(self, repr(exc))
        self.exc = exc


class ReturnSignal(Exception):
    def __init__(self, value):
        Exception.__init__(self)
        self.value = value


class BreakSignal(Exception):
    pass


class ContinueSignal(Exception):
    pass


class GeneratorStop(Exception):
    """Raised by a yield handler to stop the producing generator (consumer broke out)."""

    def __init__(self, inner=None):
        Exception.__init__(self)
        self.inner = inner


class ModuleVal(object):
    def __init__(self, name, attrs=None, path=None):
        self.name = name
        self.attrs = attrs if attrs is not None else {}
        self.path = path

    def __repr__(self):
        return '<module %s>' % self.name


class ClassVal(object):
    def __init__(self, name, bases, attrs, module=None, node=None):
        self.name = name
        self.bases = bases
        self.attrs = attrs
        self.module = module
        self.node = node
        self.mro = self._c3()

    def _c3(self):
        def merge(seqs):
            res = []
            seqs = [list(s) for s in seqs if s]
            while seqs:
                for s in seqs:
                    cand = s[0]
                    if not any(cand in t[1:] for t in seqs):
                        break
                else:
                    raise Unsupported('inconsistent MRO for %s' % self.name)
                res.append(cand)
                seqs = [[c for c in s if c is not cand] for s in seqs]
                seqs = [s for s in seqs if s]
            return res
        return [self] + merge([b.mro for b in self.bases] + [list(self.bases)])

    def lookup(self, name):
        for c in self.mro:
            if name in c.attrs:
                return c.attrs[name], c
        return None, None

    def is_subclass(self, other):
        return other in self.mro

    @property
    def qualname(self):
        return '%s.%s' % (self.module, self.name) if self.module else self.name

    def __repr__(self):
        return '<class %s>' % self.qualname


class FuncVal(object):
    def __init__(self, name, node, module, closure=None, kind='plain', owner=None):
        self.name = name
        self.node = node            # ast.FunctionDef or ast.Lambda
        self.module = module        # ModuleVal (globals)
        self.closure = closure      # enclosing Frame or None
        self.kind = kind            # plain | classmethod | staticmethod
        self.owner = owner          # ClassVal the function was defined in
        self.defaults = None        # evaluated at definition
        self.kw_defaults = None
        self.is_generator = False
        self.is_contextmanager = False
        self.attrs = {}             # function attributes (sop_classes, store_in_file)

    @property
    def qualname(self):
        mod = self.module.name.split('.')[-1] if self.module else '?'
        if self.owner is not None:
            return '%s.%s.%s' % (mod, self.owner.name, self.name)
        return '%s.%s' % (mod, self.name)

    def __repr__(self):
        return '<function %s>' % self.qualname


class BoundMethod(object):
    def __init__(self, receiver, func):
        self.receiver = receiver
        self.func = func

    def __repr__(self):
        return '<bound %r of %r>' % (self.func, self.receiver)


class PropertyVal(object):
    def __init__(self, fget, fset=None):
        self.fget = fget
        self.fset = fset


class Builtin(object):
    """Model function implemented in Python: fn(interp, args, kwargs) -> value."""

    def __init__(self, name, fn):
        self.name = name
        self.fn = fn

    def __repr__(self):
        return '<builtin %s>' % self.name


class Obj(object):
    def __init__(self, cls, fields=None):
        self.cls = cls
        self.fields = fields if fields is not None else {}
        self.origin = None   # (parent container, accessor) for write-back of unpacked elements

    def __repr__(self):
        return '<%s obj %s>' % (self.cls.name, sorted(self.fields))


class ExcVal(Obj):
    """Instance of an exception class."""

    def __init__(self, cls, args=()):
        Obj.__init__(self, cls, {'args': tuple(args)})


class ListVal(object):
    def __init__(self, items=None):
        self.items = list(items) if items is not None else []

    def __repr__(self):
        return 'ListVal(%r)' % (self.items,)


class Segment(object):
    """An unknown number of consecutive elements of an HList: a symbolic sequence (SeqVal)."""

    def __init__(self, seq):
        self.seq = seq

    def __repr__(self):
        return 'Segment(%s)' % (self.seq.term,)


class HList(object):
    """A Python list whose known elements keep their object identity (so a store to an element is
    seen through every reference) and which may contain symbolic segments of unknown length
    between them.  Only positional access that provably lands on a known element, slicing at
    known elements, append/insert and iteration over a single segment are modelled; everything
    else is Unsupported."""

    def __init__(self, parts=None):
        self.parts = list(parts) if parts is not None else []

    def segments(self):
        return [x for x in self.parts if isinstance(x, Segment)]

    def __repr__(self):
        return 'HList(%r)' % (self.parts,)


class NamedTupleClass(object):
    def __init__(self, name, fields):
        self.name = name
        self.fields = list(fields)

    def __repr__(self):
        return '<namedtuple %s>' % self.name


class NamedTupleVal(object):
    def __init__(self, cls, values):
        self.cls = cls
        self.values = tuple(values)

    def get(self, name):
        return self.values[self.cls.fields.index(name)]

    def __repr__(self):
        return '%s%r' % (self.cls.name, self.values)


class StructVal(object):
    """struct.Struct(fmt)"""

    def __init__(self, fmt):
        self.fmt = fmt

    def __repr__(self):
        return 'Struct(%r)' % self.fmt


class Opaque(object):
    """External thing without a model; using it is Unsupported, passing it around is fine."""

    def __init__(self, name):
        self.name = name

    def __repr__(self):
        return '<opaque %s>' % self.name


class DictVal(object):
    """Dictionary as an update chain.  Each entry: (kind, key, value)
       kind 'key'   : key is a value (concrete or symbolic)
       kind 'range' : key = (prefix tuple, lo, hi): matches prefix + (k,) with lo <= k <= hi
    Later entries shadow earlier ones.  `base` (optional) is an uninterpreted background
    given by (has_fn, get_fn) for dictionaries that are symbolic inputs."""

    def __init__(self, entries=None):
        self.entries = list(entries) if entries is not None else []
        self.base = None
        # for dictionaries given abstractly (background only): number of keys and largest key
        # (Int terms) when known, and the items in iteration order as a symbolic sequence
        self.size = None
        self.keys_max = None
        self.items_seq = None

    def copy(self):
        d = DictVal(self.entries)
        d.base = self.base
        d.size, d.keys_max, d.items_seq = self.size, self.keys_max, self.items_seq
        return d

    def __repr__(self):
        return 'DictVal(%d entries)' % len(self.entries)


class SetVal(object):
    """Set: concrete elements, or a symbolic membership predicate `member(v) -> BoolRef`."""

    def __init__(self, items=None, member=None, frozen=False):
        self.items = list(items) if items is not None else []
        self.member = member
        self.frozen = frozen


class Stream(object):
    """io.BytesIO / binary file object: bytes before the position and remaining bytes."""

    def __init__(self, before, rem, name='stream'):
        self.before = before
        self.rem = rem
        self.closed = False
        self.name = name
        self.writes = []

    def __repr__(self):
        return '<stream %s>' % self.name


class SeqVal(object):
    """Symbolic-length sequence of packed elements: z3 Seq term + element descriptor."""

    def __init__(self, term, elem):
        self.term = term
        self.elem = elem     # element type descriptor (see types.py)

    def __repr__(self):
        return 'SeqVal(%s)' % self.term


class Packed(object):
    """A class instance kept as a z3 datatype term (element of a SeqVal, spec result)."""

    def __init__(self, term, tdesc):
        self.term = term
        self.tdesc = tdesc

    def __repr__(self):
        return 'Packed(%s)' % self.term


class GenVal(object):
    """A generator object that has not been consumed: function + bound frame."""

    def __init__(self, func, frame):
        self.func = func
        self.frame = frame
        self.consumed = False


class IterSource(object):
    """Lazy iterable produced by builtins (range, zip, count, generator expression)."""

    def __init__(self, kind, data):
        self.kind = kind
        self.data = data


def is_symbolic(v):
    return smt.is_z3(v)


def is_intlike(v):
    return (isinstance(v, int) and not isinstance(v, bool)) or smt.is_int_term(v) or isinstance(v, bool)


def is_byteslike(v):
    return isinstance(v, bytes) or smt.is_bytes_term(v)


def is_strlike(v):
    return isinstance(v, str) or smt.is_str_term(v)


def bytes_term(v):
    if isinstance(v, bytes):
        return smt.bytes_lit(v)
    return v


def int_term(v):
    if isinstance(v, bool):
        return z3.IntVal(int(v))
    if isinstance(v, int):
        return z3.IntVal(v)
    if smt.is_bool_term(v):
        return z3.If(v, z3.IntVal(1), z3.IntVal(0))
    return v


def bool_term(v):
    if isinstance(v, bool):
        return z3.BoolVal(v)
    return v
