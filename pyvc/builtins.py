"""Models of Python builtins and of the standard-library / third-party modules the repository
imports.  Everything here is part of the trusted base and is audited differentially against
CPython (audit.py).  External *effects* (socket, queue, timer clock, threads) append to the
path's ghost trace."""
import ast
import struct as _struct
import z3
from . import smt
from .values import (Unsupported, Raised, ReturnSignal, BreakSignal, GeneratorStop, ModuleVal,
                     ClassVal, FuncVal, BoundMethod, PropertyVal, Builtin, Obj, ExcVal, ListVal,
                     NamedTupleClass, NamedTupleVal, StructVal, Opaque, DictVal, SetVal, Stream,
                     SeqVal, Packed, GenVal, IterSource, is_intlike, is_byteslike, is_strlike,
                     int_term, bytes_term, HList, Segment)
from . import ops, bytesops, dicts


class TypeMarker(Builtin):
    """builtin type usable in isinstance() and as a constructor"""

    def __init__(self, name, fn, kinds):
        Builtin.__init__(self, name, fn)
        self.kinds = kinds


def B(name, is_method=False):
    def deco(fn):
        b = Builtin(name, fn)
        b.is_method = is_method
        return b
    return deco


def install(it):
    bi = it.builtins
    obj = ClassVal('object', [], {}, 'builtins')
    obj.mro = [obj]
    bi['object'] = obj

    def exc(name, base):
        c = ClassVal(name, [bi[base]], {}, 'builtins')
        bi[name] = c
        return c
    bi['BaseException'] = ClassVal('BaseException', [obj], {}, 'builtins')
    for name, base in [('Exception', 'BaseException'), ('GeneratorExit', 'BaseException'),
                       ('KeyboardInterrupt', 'BaseException'),
                       ('ArithmeticError', 'Exception'), ('ZeroDivisionError', 'ArithmeticError'),
                       ('AssertionError', 'Exception'), ('AttributeError', 'Exception'),
                       ('LookupError', 'Exception'), ('IndexError', 'LookupError'),
                       ('KeyError', 'LookupError'), ('NameError', 'Exception'),
                       ('OSError', 'Exception'), ('RuntimeError', 'Exception'),
                       ('NotImplementedError', 'RuntimeError'),
                       ('StopIteration', 'Exception'), ('TypeError', 'Exception'),
                       ('ValueError', 'Exception'), ('UnicodeError', 'ValueError'),
                       ('UnicodeDecodeError', 'UnicodeError'), ('UnicodeEncodeError', 'UnicodeError'),
                       ('struct.error', 'Exception'), ('queue.Empty', 'Exception'),
                       ('OverflowError', 'ArithmeticError'), ('MemoryError', 'Exception')]:
        exc(name, base)
    bi['IOError'] = bi['OSError']
    bi['socket.error'] = bi['OSError']
    bi['EnvironmentError'] = bi['OSError']

    # ---------------------------------------------------------------- builtin functions
    def b_len(it, args, kw):
        v, = args
        if isinstance(v, (bytes, str, tuple)):
            return len(v)
        if isinstance(v, ListVal):
            return len(v.items)
        if isinstance(v, HList):
            n = 0
            for x in v.parts:
                n = it.binop(ast.Add(), n, b_len(it, [x.seq], {}) if isinstance(x, Segment) else 1)
            return n
        if isinstance(v, NamedTupleVal):
            return len(v.values)
        if smt.is_bytes_term(v):
            return bytesops.blen(it, v)
        if smt.is_str_term(v):
            return it.p.facts.slen(v)
        if isinstance(v, SeqVal):
            n = smt.as_concrete_int(z3.Length(v.term))
            return n if n is not None else z3.Length(v.term)
        if isinstance(v, DictVal):
            if v.base is not None and not v.entries and v.size is not None:
                return v.size      # abstractly given dictionary
            return len(it.dict_keys(v))
        if isinstance(v, SetVal) and v.member is None:
            return len(v.items)
        if isinstance(v, Obj):
            l, owner = v.cls.lookup('__len__')
            if owner is not None:
                return it.call(BoundMethod(v, l), [], {})
        it.raise_exc('TypeError', 'object has no len()')
    bi['len'] = Builtin('len', b_len)

    def b_isinstance(it, args, kw):
        v, t = args
        types = t if isinstance(t, tuple) else (t,)
        for ty in types:
            if isinstance(ty, TypeMarker):
                if kind_name(v) in ty.kinds:
                    return True
            elif isinstance(ty, ClassVal):
                if isinstance(v, Packed):
                    from .pack import unpack
                    v = unpack(it, v)
                if isinstance(v, Obj) and v.cls.is_subclass(ty):
                    return True
            elif isinstance(ty, NamedTupleClass):
                if isinstance(v, NamedTupleVal) and v.cls is ty:
                    return True
            else:
                raise Unsupported('isinstance against %r' % (ty,))
        return False
    bi['isinstance'] = Builtin('isinstance', b_isinstance)

    def kind_name(v):
        if v is None:
            return 'NoneType'
        if isinstance(v, bool) or smt.is_bool_term(v):
            return 'bool'
        if is_intlike(v):
            return 'int'
        if is_byteslike(v):
            return 'bytes'
        if is_strlike(v):
            return 'str'
        if isinstance(v, (tuple, NamedTupleVal)):
            return 'tuple'
        if isinstance(v, (ListVal, SeqVal, HList)):
            return 'list'
        if isinstance(v, DictVal):
            return 'dict'
        if isinstance(v, SetVal):
            return 'frozenset' if v.frozen else 'set'
        return 'object'
    it.kind_name = kind_name

    def b_hasattr(it, args, kw):
        o, name = args
        sentinel = object()
        try:
            r = it.getattr(o, name, default=sentinel)
        except Raised as e:
            if e.exc.cls.is_subclass(bi['AttributeError']):
                return False
            raise
        return r is not sentinel
    bi['hasattr'] = Builtin('hasattr', b_hasattr)

    def b_getattr(it, args, kw):
        if len(args) == 3:
            return it.getattr(args[0], args[1], default=args[2])
        return it.getattr(args[0], args[1])
    bi['getattr'] = Builtin('getattr', b_getattr)

    def b_setattr(it, args, kw):
        it.setattr(args[0], args[1], args[2])
    bi['setattr'] = Builtin('setattr', b_setattr)

    def to_int(it, args, kw):
        if not args:
            return 0
        v = args[0]
        if isinstance(v, bool):
            return int(v)
        if isinstance(v, int) or smt.is_int_term(v):
            return v
        if smt.is_bool_term(v):
            return int_term(v)
        if isinstance(v, Obj):
            m, owner = v.cls.lookup('__int__')
            if owner is not None:
                return it.call(BoundMethod(v, m), [], {})
            it.raise_exc('TypeError', 'int() argument must be a string or a number')
        if isinstance(v, str):
            try:
                return int(v, *args[1:])
            except ValueError:
                it.raise_exc('ValueError', 'invalid literal for int()')
        if v is None:
            it.raise_exc('TypeError', 'int() argument must be a string or a number, not NoneType')
        raise Unsupported('int(%r)' % (v,))
    bi['int'] = TypeMarker('int', to_int, ('int', 'bool'))

    def to_bool(it, args, kw):
        return it.truthy(args[0]) if args else False
    bi['bool'] = TypeMarker('bool', to_bool, ('bool',))

    def to_str(it, args, kw):
        if not args:
            return ''
        v = args[0]
        if isinstance(v, str) or smt.is_str_term(v):
            return v
        if isinstance(v, int) and not smt.is_z3(v):
            return str(v)
        return it.opaque_str('str')
    bi['str'] = TypeMarker('str', to_str, ('str',))

    def to_bytes(it, args, kw):
        if not args:
            return b''
        v = args[0]
        if is_byteslike(v):
            return v
        raise Unsupported('bytes(%r)' % (v,))
    bi['bytes'] = TypeMarker('bytes', to_bytes, ('bytes',))

    def to_list(it, args, kw):
        if not args:
            return ListVal([])
        v = args[0]
        if isinstance(v, SeqVal):
            return v
        if isinstance(v, HList):
            return HList(v.parts)
        if isinstance(v, IterSource) and v.kind == 'seqmap':
            from .folds import seqmap_to_seq
            return seqmap_to_seq(it, v)
        if isinstance(v, GenVal):
            from .loops import collect_generator
            return collect_generator(it, v)
        if isinstance(v, IterSource) and v.kind == 'chain':
            # list(chain(known..., <comprehension over a symbolic sequence>, known...)): a list
            # with known elements and symbolic segments
            from .folds import seqmap_to_seq
            parts, sym = [], False
            for a in v.data:
                a = it.norm_iterable(a)
                if isinstance(a, IterSource) and a.kind in ('seqmap', 'genexpr0') and \
                        isinstance(a.data[1], SeqVal) and it.seq_len_unknown(a.data[1]):
                    parts.append(Segment(seqmap_to_seq(it, a)))
                    sym = True
                elif isinstance(a, SeqVal) and it.seq_len_unknown(a):
                    parts.append(Segment(a))
                    sym = True
                elif isinstance(a, HList):
                    parts.extend(a.parts)
                    sym = sym or bool(a.segments())
                else:
                    it.iterate(a, parts.append)
            return HList(parts) if sym else ListVal(parts)
        out = []
        it.iterate(v, out.append)
        return ListVal(out)
    bi['list'] = TypeMarker('list', to_list, ('list',))

    def to_tuple(it, args, kw):
        if not args:
            return ()
        out = []
        it.iterate(args[0], out.append)
        return tuple(out)
    bi['tuple'] = TypeMarker('tuple', to_tuple, ('tuple',))

    def to_dict(it, args, kw):
        d = DictVal()
        if args:
            src = args[0]
            if isinstance(src, DictVal):
                d = src.copy()
            else:
                def add(pair):
                    k, v = it.unpack(pair, 2)
                    it.dict_set(d, k, v)
                it.iterate(src, add)
        for k, v in kw.items():
            it.dict_set(d, k, v)
        return d
    bi['dict'] = TypeMarker('dict', to_dict, ('dict',))

    def to_set(frozen):
        def f(it, args, kw):
            if not args:
                return SetVal([], frozen=frozen)
            src = args[0]
            if isinstance(src, SetVal):
                return SetVal(list(src.items), src.member, frozen)
            out = []

            def add(x):
                if ops.contains(it, tuple(out), x) is not True:
                    out.append(x)
            it.iterate(src, add)
            return SetVal(out, frozen=frozen)
        return f
    bi['set'] = TypeMarker('set', to_set(False), ('set',))
    bi['frozenset'] = TypeMarker('frozenset', to_set(True), ('frozenset',))

    def b_range(it, args, kw):
        if len(args) == 1:
            lo, hi, st = 0, args[0], 1
        elif len(args) == 2:
            lo, hi, st = args[0], args[1], 1
        else:
            lo, hi, st = args
        cs = smt.as_concrete_int(st)
        if cs == 0:
            it.raise_exc('ValueError', 'range() arg 3 must not be zero')
        if cs is None:
            if it.p.branch(int_term(st) == 0):
                it.raise_exc('ValueError', 'range() arg 3 must not be zero')
        return IterSource('range', (lo, hi, st))
    bi['range'] = Builtin('range', b_range)

    def b_zip(it, args, kw):
        return IterSource('zip', tuple(args))
    bi['zip'] = Builtin('zip', b_zip)

    def b_enumerate(it, args, kw):
        return IterSource('enumerate', (args[0], args[1] if len(args) > 1 else kw.get('start', 0)))
    bi['enumerate'] = Builtin('enumerate', b_enumerate)

    def b_iter(it, args, kw):
        v = args[0]
        if isinstance(v, ListVal):
            # iterator with position (for next())
            return IterSource('listiter', [v, 0])
        if isinstance(v, (GenVal, IterSource)):
            return v
        return IterSource('iter', v)
    bi['iter'] = Builtin('iter', b_iter)

    def b_next(it, args, kw):
        g = args[0]
        if isinstance(g, IterSource) and g.kind == 'listiter':
            lst, i = g.data
            if i >= len(lst.items):
                if len(args) > 1:
                    return args[1]
                it.raise_exc('StopIteration')
            g.data[1] = i + 1
            return lst.items[i]
        if isinstance(g, Obj):
            n, owner = g.cls.lookup('__next__')
            if owner is not None:
                return it.call(BoundMethod(g, n) if isinstance(n, FuncVal) else n,
                               [] if isinstance(n, FuncVal) else [g], {})
        hook = it.hooks.get('next')
        if hook is not None:
            return hook(it, g, args[1:] )
        raise Unsupported('next() on %r' % (g,))
    bi['next'] = Builtin('next', b_next)

    def b_sum(it, args, kw):
        src = args[0]
        start = args[1] if len(args) > 1 else 0
        if isinstance(src, IterSource) and src.kind == 'seqmap':
            from .folds import fold_sum
            return it.binop(ast.Add(), start, fold_sum(it, src))
        acc = [start]

        def add(x):
            acc[0] = it.binop(ast.Add(), acc[0], x)
        it.iterate(src, add)
        return acc[0]
    bi['sum'] = Builtin('sum', b_sum)

    def minmax(is_min):
        def f(it, args, kw):
            if len(args) == 1 and isinstance(args[0], IterSource) and args[0].kind == 'dictkeys':
                d = args[0].data
                if is_min or d.size is None or d.keys_max is None:
                    raise Unsupported('min()/max() over the keys of an abstract dictionary')
                if it.p.branch(int_term(d.size) <= 0):
                    it.raise_exc('ValueError', 'max() arg is an empty sequence')
                return d.keys_max
            if len(args) == 1:
                items = []
                it.iterate(args[0], items.append)
            else:
                items = list(args)
            if not items:
                it.raise_exc('ValueError', 'min()/max() arg is an empty sequence')
            best = items[0]
            for x in items[1:]:
                c = it.compare(ast.Lt() if is_min else ast.Gt(), x, best)
                if isinstance(c, bool):
                    best = x if c else best
                else:
                    best = z3.If(c, int_term(x), int_term(best))
            return best
        return f
    bi['min'] = Builtin('min', minmax(True))
    bi['max'] = Builtin('max', minmax(False))

    def b_any(it, args, kw):
        res = [False]

        def f(x):
            if it.truthy(x):
                res[0] = True
                raise BreakSignal()
        try:
            it.iterate(args[0], f)
        except BreakSignal:
            pass
        return res[0]
    bi['any'] = Builtin('any', b_any)

    def b_all(it, args, kw):
        res = [True]

        def f(x):
            if not it.truthy(x):
                res[0] = False
                raise BreakSignal()
        try:
            it.iterate(args[0], f)
        except BreakSignal:
            pass
        return res[0]
    bi['all'] = Builtin('all', b_all)

    def b_property(it, args, kw):
        fget = args[0] if args else kw.get('fget')
        fset = args[1] if len(args) > 1 else kw.get('fset')
        return PropertyVal(fget, fset)
    bi['property'] = Builtin('property', b_property)

    def b_repr(it, args, kw):
        return it.opaque_str('repr')
    bi['repr'] = Builtin('repr', b_repr)

    def b_print(it, args, kw):
        return None
    bi['print'] = Builtin('print', b_print)

    def b_type(it, args, kw):
        v = args[0]
        if isinstance(v, Obj):
            return v.cls
        raise Unsupported('type(%r)' % (v,))
    bi['type'] = Builtin('type', b_type)

    def b_super(it, args, kw, frame=None):
        if args:
            cls, obj = args
        else:
            if frame is None or frame.func is None or frame.func.owner is None:
                raise Unsupported('zero-argument super() outside a method')
            cls = frame.func.owner
            first = frame.func.node.args.args[0].arg
            obj = frame.locals[first]
        return SuperObj(cls, obj)
    bi['super'] = Builtin('super', b_super)

    def b_map(it, args, kw):
        return IterSource('map', (args[0], args[1]))
    bi['map'] = Builtin('map', b_map)

    def b_sorted(it, args, kw):
        items = []
        it.iterate(args[0], items.append)
        key, reverse = kw.get('key'), kw.get('reverse', False)
        if set(kw) - {'key', 'reverse'} or smt.is_z3(reverse):
            raise Unsupported('sorted with %r' % (sorted(kw),))
        keys = [it.call(key, [x], {}) for x in items] if key is not None else list(items)

        def concrete(v):
            if isinstance(v, tuple):
                return all(concrete(e) for e in v)
            return isinstance(v, (int, str, bytes, float)) and not smt.is_z3(v)
        if not all(concrete(k) for k in keys):
            raise Unsupported('sorted on symbolic values')
        order = sorted(range(len(items)), key=lambda i: keys[i], reverse=bool(reverse))   # stable, like list.sort
        return ListVal([items[i] for i in order])
    bi['sorted'] = Builtin('sorted', b_sorted)

    def b_abs(it, args, kw):
        v = args[0]
        if isinstance(v, int):
            return abs(v)
        return z3.If(v >= 0, v, -v)
    bi['abs'] = Builtin('abs', b_abs)

    def b_open(it, args, kw):
        hook = it.hooks.get('open')
        if hook is None:
            raise Unsupported('open() without a file-system model')
        return hook(it, args, kw)
    bi['open'] = Builtin('open', b_open)

    def b_id(it, args, kw):
        raise Unsupported('id()')
    bi['id'] = Builtin('id', b_id)

    install_methods(it)
    install_modules(it)


class SuperObj(Obj):
    def __init__(self, cls, obj):
        Obj.__init__(self, cls)
        self.target = obj

        def hook(it, me, name):
            recv = me.target
            mro = recv.cls.mro if isinstance(recv, Obj) else recv.mro
            start = mro.index(me.cls) + 1
            for c in mro[start:]:
                if name in c.attrs:
                    a = c.attrs[name]
                    if isinstance(a, PropertyVal):
                        return it.call(a.fget, [recv], {})
                    if isinstance(a, FuncVal):
                        if a.kind == 'staticmethod':
                            return a
                        return BoundMethod(recv, a)
                    if isinstance(a, Builtin) and getattr(a, 'is_method', False):
                        return BoundMethod(recv, a)
                    return a
            if name == '__init__':
                return Builtin('object.__init__', lambda it, args, kw: None)
            it.raise_exc('AttributeError', name)
        self.getattr_hook = hook


# ======================================================================= methods of values
def install_methods(it):
    mm = it.method_models

    def M(kind, name):
        def deco(fn):
            b = Builtin('%s.%s' % (kind, name), fn)
            mm[(kind, name)] = b
            return fn
        return deco

    # ---- bytes
    @M('bytes', 'join')
    def bytes_join(it, args, kw):
        sep, src = args
        if not (isinstance(sep, bytes) and sep == b''):
            raise Unsupported('bytes.join with non-empty separator')
        if isinstance(src, IterSource) and src.kind == 'seqmap':
            from .folds import fold_join
            return fold_join(it, src)
        if isinstance(src, SeqVal):
            from .folds import fold_join_seq
            return fold_join_seq(it, src)
        acc = [b'']

        def add(x):
            if not is_byteslike(x):
                it.raise_exc('TypeError', 'sequence item: expected a bytes-like object')
            acc[0] = it.binop(ast.Add(), acc[0], x)
        it.iterate(src, add)
        return acc[0]

    @M('bytes', 'decode')
    def bytes_decode(it, args, kw):
        b = args[0]
        if isinstance(b, bytes):
            try:
                return b.decode(*[a for a in args[1:]])
            except UnicodeDecodeError:
                it.raise_exc('UnicodeDecodeError', 'invalid utf-8')
        if it.p.branch(z3.Not(smt.UTF8_OK(b))):
            it.p.facts.dec(b)
            it.raise_exc('UnicodeDecodeError', 'invalid utf-8')
        return it.p.facts.dec(b)

    @M('bytes', 'strip')
    def bytes_strip(it, args, kw):
        b = args[0]
        chars = args[1] if len(args) > 1 else None
        if isinstance(b, bytes):
            return b.strip(chars)
        if chars == b'\0':
            return it.p.facts.strip0(b)
        if isinstance(chars, bytes) and set(chars) == {0, 0x20}:
            return it.p.facts.strip_pad(b)
        raise Unsupported('bytes.strip(%r) on symbolic bytes' % (chars,))

    def _bytes_just(it, args, left):
        # b.ljust(w, fill) / b.rjust(w, fill) on symbolic operands: b with max(0, w - len(b)) fill bytes behind
        # (before) it.  The padding is a fresh byte string of that length whose first and last byte are the
        # fill byte (ground instances; the bytes in between are left unconstrained: an over-approximation,
        # sound for proving).
        b = args[0]
        w = args[1]
        fill = args[2] if len(args) > 2 else b' '
        if isinstance(b, bytes) and not smt.is_z3(w) and isinstance(fill, bytes):
            return b.ljust(w, fill) if left else b.rjust(w, fill)
        if not (isinstance(fill, bytes) and len(fill) == 1):
            raise Unsupported('bytes.ljust/rjust with fill %r' % (fill,))
        from .values import int_term
        bt_, wt = bytes_term(b), int_term(w)
        n = z3.If(wt > z3.Length(bt_), wt - z3.Length(bt_), z3.IntVal(0))
        pad = it.p.fresh_bytes('pad')
        pt = bytes_term(pad)
        it.p.assume(z3.Length(pt) == n)
        unit = smt.bytes_lit(fill)
        it.p.assume(z3.Or(n == 0, z3.And(z3.PrefixOf(unit, pt), z3.SuffixOf(unit, pt))))
        return it.binop(ast.Add(), b, pad) if left else it.binop(ast.Add(), pad, b)

    @M('bytes', 'ljust')
    def bytes_ljust(it, args, kw):
        return _bytes_just(it, args, True)

    @M('bytes', 'rjust')
    def bytes_rjust(it, args, kw):
        return _bytes_just(it, args, False)

    @M('bytes', 'startswith')
    def bytes_startswith(it, args, kw):
        b, pre = args
        if isinstance(b, bytes) and isinstance(pre, bytes):
            return b.startswith(pre)
        return z3.PrefixOf(bytes_term(pre), bytes_term(b))

    # ---- str
    @M('str', 'encode')
    def str_encode(it, args, kw):
        s = args[0]
        if isinstance(s, str):
            return s.encode(*args[1:])
        return it.p.facts.enc(s)

    @M('str', 'format')
    def str_format(it, args, kw):
        s = args[0]
        rest = args[1:]
        if isinstance(s, str) and all(isinstance(a, (str, int)) and not smt.is_z3(a) for a in rest) \
                and all(isinstance(v, (str, int)) and not smt.is_z3(v) for v in kw.values()):
            try:
                return s.format(*rest, **kw)
            except Exception:
                pass
        return it.opaque_str('format')

    @M('str', 'split')
    def str_split(it, args, kw):
        s = args[0]
        if isinstance(s, str) and all(isinstance(a, (str, int)) for a in args[1:]):
            return ListVal(s.split(*args[1:]))
        raise Unsupported('str.split on symbolic str')

    @M('str', 'strip')
    def str_strip(it, args, kw):
        s = args[0]
        if isinstance(s, str):
            return s.strip(*args[1:])
        raise Unsupported('str.strip on symbolic str')

    @M('str', 'rstrip')
    def str_rstrip(it, args, kw):
        s = args[0]
        if isinstance(s, str) and all(isinstance(a, str) for a in args[1:]):
            return s.rstrip(*args[1:])
        if len(args) == 2 and isinstance(args[1], str) and len(args[1]) == 1 and smt.is_z3(s):
            # s == r ++ t, t consists of the one character only, r does not end with it
            c = z3.StringVal(args[1])
            r, t = it.p.fresh('rstripped', smt.Str), it.p.fresh('stripped_tail', smt.Str)
            it.p.assume(s == z3.Concat(r, t))
            it.p.assume(z3.InRe(t, z3.Star(z3.Re(c))))
            it.p.assume(z3.Not(z3.SuffixOf(c, r)))
            return r
        raise Unsupported('str.rstrip%r on symbolic str' % (tuple(args[1:]),))

    @M('str', 'ljust')
    def str_ljust(it, args, kw):
        s = args[0]
        if isinstance(s, str) and all(not smt.is_z3(a) for a in args[1:]):
            return s.ljust(*args[1:])
        if len(args) == 2 and args[1] == 16:
            return it.p.facts.ljust16(s)
        raise Unsupported('str.ljust%r on symbolic str' % (tuple(args[1:]),))

    @M('str', 'join')
    def str_join(it, args, kw):
        return it.opaque_str('join')

    # ---- list
    @M('list', 'append')
    def list_append(it, args, kw):
        args[0].items.append(args[1])

    @M('hlist', 'append')
    def hlist_append(it, args, kw):
        args[0].parts.append(args[1])

    @M('seq', 'append')
    def seq_append(it, args, kw):
        # a Python list of unknown length held as a sequence term: append updates the list object
        from .pack import to_term
        sv = args[0]
        sv.term = z3.simplify(z3.Concat(sv.term, z3.Unit(to_term(it, args[1], sv.elem))))

    @M('hlist', 'insert')
    def hlist_insert(it, args, kw):
        from .values import Segment
        l = args[0]
        i = smt.as_concrete_int(args[1])
        if i is None or i < 0:
            raise Unsupported('hlist.insert at a symbolic or negative index')
        if any(isinstance(x, Segment) for x in l.parts[:i]) or (i > len(l.parts) and l.segments()):
            raise Unsupported('hlist.insert beyond a symbolic segment')
        l.parts.insert(i, args[2])

    @M('list', 'extend')
    def list_extend(it, args, kw):
        it.list_extend(args[0], args[1])

    @M('list', 'insert')
    def list_insert(it, args, kw):
        i = smt.as_concrete_int(args[1])
        if i is None:
            raise Unsupported('list.insert at symbolic index')
        args[0].items.insert(i, args[2])

    @M('list', 'pop')
    def list_pop(it, args, kw):
        l = args[0]
        if not l.items:
            it.raise_exc('IndexError', 'pop from empty list')
        i = smt.as_concrete_int(args[1]) if len(args) > 1 else -1
        return l.items.pop(i)

    @M('list', 'index')
    def list_index(it, args, kw):
        l, x = args
        for i, y in enumerate(l.items):
            e = ops.values_equal(it, x, y)
            if it.truthy(e):
                return i
        it.raise_exc('ValueError', 'x not in list')

    # ---- dict
    @M('dict', 'get')
    def dict_get(it, args, kw):
        d, k = args[0], args[1]
        default = args[2] if len(args) > 2 else None
        return it.dict_get(d, k, default)

    @M('dict', 'setdefault')
    def dict_setdefault(it, args, kw):
        # d.setdefault(k, v): the stored value when k is present, else store v and return it
        d, k = args[0], args[1]
        default = args[2] if len(args) > 2 else None
        from .dicts import lookup
        found, v = lookup(it, d, k)      # branches over the entries that may match
        if found:
            return v
        it.dict_set(d, k, default)
        return default

    @M('dict', 'update')
    def dict_update(it, args, kw):
        d = args[0]
        if len(args) > 1:
            src = args[1]
            if isinstance(src, DictVal):
                if src.base is not None:
                    # an abstractly given dictionary: it becomes one layer of the update chain
                    d.entries.append(('layer', src, None))
                    d.cindex = None
                    d.size = d.keys_max = d.items_seq = None
                else:
                    d.entries.extend(src.entries)
            else:
                def add(pair):
                    k, v = it.unpack(pair, 2)
                    it.dict_set(d, k, v)
                it.iterate(src, add)
        for k, v in kw.items():
            it.dict_set(d, k, v)

    @M('dict', 'keys')
    def dict_keys(it, args, kw):
        d = args[0]
        if d.base is not None and not d.entries and d.keys_max is not None:
            return IterSource('dictkeys', d)      # key view of an abstractly given dictionary
        return ListVal(it.dict_keys(d))

    @M('dict', 'values')
    def dict_values(it, args, kw):
        d = args[0]
        if d.base is not None and not d.entries and getattr(d, 'items_seq', None) is None:
            return IterSource('dictvalues', d)    # value view of an abstractly given dictionary
        return ListVal([it.dict_get(d, k) for k in it.dict_keys(d)])

    @M('dict', 'items')
    def dict_items(it, args, kw):
        d = args[0]
        if getattr(d, 'items_seq', None) is not None:
            # a dictionary given abstractly (harness): its items in iteration order
            return d.items_seq
        return ListVal([(k, it.dict_get(d, k)) for k in it.dict_keys(d)])

    @M('dict', 'copy')
    def dict_copy(it, args, kw):
        return args[0].copy()

    @M('dict', 'pop')
    def dict_pop(it, args, kw):
        raise Unsupported('dict.pop')

    # ---- set
    @M('set', 'update')
    def set_update(it, args, kw):
        s = args[0]
        if s.member is not None:
            raise Unsupported('update of symbolic set')

        def add(x):
            if ops.contains(it, tuple(s.items), x) is not True:
                s.items.append(x)
        for src in args[1:]:
            it.iterate(src, add)

    @M('set', 'add')
    def set_add(it, args, kw):
        s, x = args
        if s.member is not None:
            raise Unsupported('add to symbolic set')
        if ops.contains(it, tuple(s.items), x) is not True:
            s.items.append(x)

    # ---- streams
    @M('stream', 'read')
    def st_read(it, args, kw):
        return bytesops.stream_read(it, args[0], args[1] if len(args) > 1 else None)

    @M('stream', 'seek')
    def st_seek(it, args, kw):
        return bytesops.stream_seek(it, args[0], args[1], args[2] if len(args) > 2 else 0)

    @M('stream', 'tell')
    def st_tell(it, args, kw):
        return bytesops.stream_tell(it, args[0])

    @M('stream', 'write')
    def st_write(it, args, kw):
        return bytesops.stream_write(it, args[0], args[1])

    @M('stream', 'writelines')
    def st_writelines(it, args, kw):
        st = args[0]
        if isinstance(args[1], SeqVal) and it.seq_len_unknown(args[1]):
            # writing the lines one after the other = writing their concatenation
            from .folds import fold_join_seq
            bytesops.stream_write(it, st, fold_join_seq(it, args[1]))
            return
        it.iterate(args[1], lambda x: bytesops.stream_write(it, st, x))

    @M('stream', 'close')
    def st_close(it, args, kw):
        args[0].closed = True
        it.p.trace.append(('close_file', args[0].name))

    @M('stream', 'getvalue')
    def st_getvalue(it, args, kw):
        return it.binop(ast.Add(), args[0].before, args[0].rem)

    # ---- struct.Struct
    @M('struct', 'pack')
    def s_pack(it, args, kw):
        return struct_pack(it, args[0].fmt, args[1:])

    @M('struct', 'unpack')
    def s_unpack(it, args, kw):
        return struct_unpack(it, args[0].fmt, args[1])

    mm[('struct', 'size')] = None   # handled as attribute below

    # generator/iterator objects
    @M('generator', 'close')
    def g_close(it, args, kw):
        args[0].consumed = True


# ======================================================================= struct model
def parse_fmt(fmt):
    f = fmt.replace(' ', '')
    order = '@'
    if f and f[0] in '<>=!@':
        order = f[0]
        f = f[1:]
    if order == '!':
        order = '>'
    items = []
    num = ''
    for ch in f:
        if ch.isdigit():
            num += ch
            continue
        n = int(num) if num else 1
        num = ''
        if ch == 's':
            items.append(('s', n))
        elif ch == 'x':
            items.append(('x', n))
        else:
            for _ in range(n):
                items.append((ch, 1))
    sizes = {'B': 1, 'b': 1, 'H': 2, 'h': 2, 'I': 4, 'i': 4, 'L': 4, 'l': 4}
    out = []
    for code, n in items:
        if code == 's':
            out.append(('s', n, False))
        elif code == 'x':
            out.append(('x', n, False))
        elif code in sizes:
            if order == '@' and code not in 'Bb':
                raise Unsupported('native struct format %r' % fmt)
            out.append(('int', sizes[code], code.islower()))
        else:
            raise Unsupported('struct format code %r' % code)
    little = order == '<'
    if order in '@=' and any(k == 'int' and sz > 1 for k, sz, _ in out):
        raise Unsupported('native byte order for multi-byte field in %r' % fmt)
    return out, little


def struct_size(fmt):
    items, _ = parse_fmt(fmt)
    return sum(n for _, n, _ in items)


def struct_pack(it, fmt, values):
    p = it.p
    items, little = parse_fmt(fmt)
    fields = [x for x in items if x[0] != 'x']
    if len(values) != len(fields):
        it.raise_exc('struct.error', 'pack expected %d items for packing (got %d)' % (len(fields), len(values)))
    if all(not smt.is_z3(v) and isinstance(v, (int, bytes)) and not isinstance(v, bool) for v in values):
        try:
            return _struct.pack(fmt, *values)
        except _struct.error as e:
            it.raise_exc('struct.error', str(e))
    parts = []
    vi = 0
    for kind, n, signed in items:
        if kind == 'x':
            parts.append(b'\0' * n)
            continue
        v = values[vi]
        vi += 1
        if kind == 's':
            if not is_byteslike(v):
                it.raise_exc('struct.error', "argument for 's' must be a bytes object")
            if isinstance(v, bytes):
                parts.append(v[:n].ljust(n, b'\0'))
            elif n == 16:
                parts.append(p.facts.pad16(v))
            else:
                raise Unsupported("struct '%ds' on symbolic bytes" % n)
            continue
        if isinstance(v, bool):
            v = int(v)
        if not is_intlike(v):
            it.raise_exc('struct.error', 'required argument is not an integer')
        lo, hi = (-(256 ** n) // 2, 256 ** n // 2 - 1) if signed else (0, 256 ** n - 1)
        t = int_term(v)
        if not p.must_light(z3.And(t >= lo, t <= hi)):
            if p.branch(z3.Or(t < lo, t > hi)):
                it.raise_exc('struct.error', 'argument out of range')
        if signed:
            t = z3.If(t >= 0, t, t + 256 ** n)
            t = z3.simplify(t)
        if little and n > 1:
            parts.append(p.facts.le(n, t))
        else:
            bt = p.facts.be(n, t)
            # the argument is in range on this path: |be_n(t)| = n and unbe_n(be_n(t)) = t
            p.ghost.setdefault('_be_ok', {})[bt.get_id()] = (n, t)
            parts.append(bt)
    res = b''
    for part in parts:
        res = it.binop(ast.Add(), res, part)
    return res


def _structural_unpack(it, items, little, data):
    """If `data` is syntactically the concatenation of in-range be_n(x) terms (and fixed-length
    byte fields) matching the format field by field, the unpacked values are the x's:
    unbe_n(be_n(x)) = x for x in range -- no solver call needed.  None if it does not align."""
    p = it.p
    ok = p.ghost.get('_be_ok', {})
    parts = bytesops._flatten(bytes_term(data), p.defs)
    out = []
    i = 0
    for kind, n, signed in items:
        if kind == 'int':
            if i >= len(parts) or little and n > 1:
                return None
            cert = ok.get(parts[i].get_id())
            if cert is None or cert[0] != n:
                return None
            v = cert[1]
            if signed:
                v = z3.If(v >= 256 ** n // 2, v - 256 ** n, v)
            cv = smt.as_concrete_int(v)
            out.append(cv if cv is not None else v)
            i += 1
        else:
            need = n
            chunk = []
            while need > 0:
                if i >= len(parts):
                    return None
                sl = bytesops.static_len(it, parts[i])
                if sl is None or sl > need:
                    return None
                chunk.append(parts[i])
                need -= sl
                i += 1
            if kind == 's':
                out.append(smt.concat(chunk))
    if i != len(parts):
        return None
    return out


def struct_unpack(it, fmt, data):
    p = it.p
    items, little = parse_fmt(fmt)
    size = sum(n for _, n, _ in items)
    if not is_byteslike(data):
        it.raise_exc('TypeError', 'a bytes-like object is required')
    if isinstance(data, bytes):
        try:
            return tuple(_struct.unpack(fmt, data))
        except _struct.error as e:
            it.raise_exc('struct.error', str(e))
    fast = _structural_unpack(it, items, little, data)
    if fast is not None:
        return tuple(fast)
    if p.branch(z3.Length(data) != size):
        it.raise_exc('struct.error', 'unpack requires a buffer of %d bytes' % size)
    out = []
    rest = data
    for idx, (kind, n, signed) in enumerate(items):
        if idx == len(items) - 1:
            field = rest
        else:
            field, rest = bytesops.split(it, rest, n)
        if kind == 'x':
            continue
        if kind == 's':
            out.append(field)
            continue
        ft = bytes_term(field)
        v = p.facts.unle(n, ft) if (little and n > 1) else p.facts.unbe(n, ft)
        if signed:
            v = z3.If(v >= 256 ** n // 2, v - 256 ** n, v)
        out.append(v)
    return tuple(out)


# ======================================================================= modules
def model_class(it, name, module, methods, bases=None):
    attrs = {}
    for k, fn in methods.items():
        b = Builtin('%s.%s' % (name, k), fn)
        b.is_method = True
        attrs[k] = b
    return ClassVal(name, bases or [it.builtins['object']], attrs, module)


def effect(it, *ev):
    it.p.trace.append(tuple(ev))


def install_modules(it):
    mods = it.model_modules
    bi = it.builtins

    def module(name, **attrs):
        m = ModuleVal(name, dict(attrs))
        mods[name] = m
        return m

    # ---- struct
    def st_Struct(it, args, kw):
        fmt = args[0]
        if not isinstance(fmt, str):
            raise Unsupported('struct.Struct with non-literal format')
        parse_fmt(fmt)
        return StructVal(fmt)

    module('struct', Struct=Builtin('struct.Struct', st_Struct),
           pack=Builtin('struct.pack', lambda it, a, k: struct_pack(it, a[0], a[1:])),
           unpack=Builtin('struct.unpack', lambda it, a, k: struct_unpack(it, a[0], a[1])),
           calcsize=Builtin('struct.calcsize', lambda it, a, k: struct_size(a[0])),
           error=bi['struct.error'])

    # ---- io / six
    def BytesIO(it, args, kw):
        data = args[0] if args else b''
        if not is_byteslike(data):
            it.raise_exc('TypeError', 'a bytes-like object is required')
        return bytesops.new_stream(it, data, 'BytesIO')
    bytesio = Builtin('BytesIO', BytesIO)
    module('io', BytesIO=bytesio)

    def indexbytes(it, args, kw):
        return it.getitem(args[0], args[1])

    def iteritems(it, args, kw):
        return it.call(it.getattr(args[0], 'items'), [], {})

    queue_mod = install_queue(it)
    socketserver = install_socketserver(it)
    moves = ModuleVal('six.moves', {'range': bi['range'], 'zip': bi['zip'], 'queue': queue_mod,
                                    'socketserver': socketserver, 'cStringIO': bytesio})
    mods['six.moves'] = moves
    module('six', PY3=True, PY2=False, BytesIO=bytesio, indexbytes=Builtin('six.indexbytes', indexbytes),
           iteritems=Builtin('six.iteritems', iteritems), moves=moves, string_types=(bi['str'],),
           binary_type=bi['bytes'], text_type=bi['str'], integer_types=(bi['int'],))

    # ---- typing / misc no-ops
    module('typing', Dict=None, Tuple=None, Callable=None, Iterator=None, IO=None, Union=None,
           FrozenSet=None, List=None, Optional=None, Any=None)
    module('platform', node=Builtin('platform.node', lambda it, a, k: 'localhost'))

    # ---- collections
    def namedtuple(it, args, kw):
        name, fields = args[0], args[1]
        if isinstance(fields, ListVal):
            fields = fields.items
        elif isinstance(fields, str):
            fields = fields.replace(',', ' ').split()
        return NamedTupleClass(name, fields)

    def dq_init(it, args, kw):
        args[0].fields['items'] = ListVal([])

    def dq_append(it, args, kw):
        args[0].fields['items'].items.append(args[1])

    def dq_popleft(it, args, kw):
        l = args[0].fields['items'].items
        if not l:
            it.raise_exc('IndexError', 'pop from an empty deque')
        return l.pop(0)

    def dq_len(it, args, kw):
        return len(args[0].fields['items'].items)
    deque = model_class(it, 'deque', 'collections', {'__init__': dq_init, 'append': dq_append,
                                                       'popleft': dq_popleft, '__len__': dq_len})
    module('collections', namedtuple=Builtin('namedtuple', namedtuple), deque=deque)

    # ---- itertools / functools / contextlib / copy
    def count(it, args, kw):
        start = args[0] if args else kw.get('start', 0)
        step = args[1] if len(args) > 1 else kw.get('step', 1)
        return IterSource('count', (start, step))

    def chain(it, args, kw):
        return IterSource('chain', tuple(args))
    module('itertools', count=Builtin('count', count), chain=Builtin('chain', chain))

    def partial(it, args, kw):
        fn = args[0]
        pre = list(args[1:])
        prekw = dict(kw)

        def call(it, a, k):
            kk = dict(prekw)
            kk.update(k)
            return it.call(fn, pre + list(a), kk)
        b = Builtin('partial', call)
        b.partial_of = (fn, pre, prekw)
        return b
    module('functools', partial=Builtin('functools.partial', partial))

    def contextmanager(it, args, kw):
        fv = args[0]
        if not isinstance(fv, FuncVal) or not fv.is_generator:
            raise Unsupported('contextmanager on non-generator')
        fv.is_contextmanager = True
        return fv
    module('contextlib', contextmanager=Builtin('contextmanager', contextmanager))

    def copy_copy(it, args, kw):
        v = args[0]
        if isinstance(v, DictVal):
            return v.copy()
        if isinstance(v, ListVal):
            return ListVal(v.items)
        raise Unsupported('copy.copy(%r)' % (v,))
    module('copy', copy=Builtin('copy.copy', copy_copy))

    # ---- time: monotone symbolic clock
    def time_time(it, args, kw):
        p = it.p
        prev = p.ghost.get('clock')
        now = p.fresh_int('now')
        p.assume(now > 0)
        if prev is not None:
            p.assume(now >= prev)
        p.ghost['clock'] = now
        return now

    def time_sleep(it, args, kw):
        effect(it, 'sleep')
    module('time', time=Builtin('time.time', time_time), sleep=Builtin('time.sleep', time_sleep))

    # ---- threading
    def ev_init(it, args, kw):
        args[0].fields['flag'] = False

    def ev_set(it, args, kw):
        args[0].fields['flag'] = True
        effect(it, 'event.set')

    def ev_wait(it, args, kw):
        effect(it, 'event.wait')
        return args[0].fields['flag']

    def ev_is_set(it, args, kw):
        return args[0].fields['flag']
    Event = model_class(it, 'Event', 'threading', {'__init__': ev_init, 'set': ev_set, 'wait': ev_wait,
                                                     'is_set': ev_is_set})

    def th_init(it, args, kw):
        args[0].fields['_target'] = kw.get('target')

    def th_start(it, args, kw):
        effect(it, 'thread.start')
    Thread = model_class(it, 'Thread', 'threading', {'__init__': th_init, 'start': th_start})

    def lk_enter(it, args, kw):
        effect(it, 'lock.acquire')
        return args[0]

    def lk_exit(it, args, kw):
        effect(it, 'lock.release')
        return False
    Lock = model_class(it, 'Lock', 'threading', {'__enter__': lk_enter, '__exit__': lk_exit,
                                                   '__init__': lambda it, a, k: None})

    def local_init(it, args, kw):
        pass
    Local = model_class(it, 'local', 'threading', {'__init__': local_init})
    module('threading', Event=Event, Thread=Thread, Lock=Lock, local=Local)

    # ---- socket / select
    install_socket(it)

    # ---- pydicom.uid (UID is the identity on str; audited)
    def UID(it, args, kw):
        v = args[0]
        if isinstance(v, Opaque):
            return v      # an unknown value is passed on, not turned into an exception the real code may never raise
        if not is_strlike(v):
            it.raise_exc('TypeError', 'A UID must be created from a string')
        return v
    uidmod = module('pydicom.uid', UID=TypeMarker('UID', UID, ('str',)),
                    ExplicitVRLittleEndian='1.2.840.10008.1.2.1',
                    ImplicitVRLittleEndian='1.2.840.10008.1.2',
                    ExplicitVRBigEndian='1.2.840.10008.1.2.2')
    pyd = ModuleVal('pydicom', {'uid': uidmod})
    pyd.opaque = True
    mods['pydicom'] = pyd
    from . import dsmodel
    dsmodel.install(it)


def install_queue(it):
    bi = it.builtins

    def q_init(it, args, kw):
        args[0].fields['items'] = ListVal([])

    def q_put(it, args, kw):
        args[0].fields['items'].items.append(args[1])
        effect(it, 'put', args[0].fields.get('name', 'queue'), args[1])

    def q_get(it, args, kw):
        hook = it.hooks.get('queue_get')
        if hook is not None:
            return hook(it, args, kw)
        l = args[0].fields['items'].items
        if not l:
            it.raise_exc('queue.Empty')
        return l.pop(0)

    def q_empty(it, args, kw):
        return not args[0].fields['items'].items

    def q_qsize(it, args, kw):
        return len(args[0].fields['items'].items)
    Queue = model_class(it, 'Queue', 'queue', {'__init__': q_init, 'put': q_put, 'get': q_get, 'empty': q_empty,
                                                'qsize': q_qsize})
    m = ModuleVal('queue', {'Queue': Queue, 'Empty': bi['queue.Empty']})
    it.model_modules['queue'] = m
    return m


def install_socketserver(it):
    def srh_init(it, args, kw):
        effect(it, 'StreamRequestHandler.__init__')
    SRH = model_class(it, 'StreamRequestHandler', 'socketserver', {'__init__': srh_init})

    def tts_init(it, args, kw):
        effect(it, 'ThreadingTCPServer.__init__')
    TTS = model_class(it, 'ThreadingTCPServer', 'socketserver', {'__init__': tts_init})
    m = ModuleVal('socketserver', {'StreamRequestHandler': SRH, 'ThreadingTCPServer': TTS})
    it.model_modules['socketserver'] = m
    return m


def install_socket(it):
    bi = it.builtins

    def s_init(it, args, kw):
        args[0].fields['closed'] = False
        args[0].fields['name'] = 'sock'
        effect(it, 'socket.new')

    def s_connect(it, args, kw):
        effect(it, 'connect', args[1])

    def s_sendall(it, args, kw):
        if not is_byteslike(args[1]):
            it.raise_exc('TypeError', 'a bytes-like object is required')
        effect(it, 'sendall', args[1])

    def s_close(it, args, kw):
        args[0].fields['closed'] = True
        effect(it, 'close')

    def s_recv(it, args, kw):
        hook = it.hooks.get('recv')
        if hook is None:
            raise Unsupported('socket.recv without a transport model')
        return hook(it, args, kw)
    Socket = model_class(it, 'socket', 'socket', {'__init__': s_init, 'connect': s_connect,
                                                  'sendall': s_sendall, 'close': s_close,
                                                  'recv': s_recv})
    it.model_modules['socket'] = ModuleVal('socket', {'socket': Socket, 'error': bi['socket.error'],
                                                      'AF_INET': 2, 'SOCK_STREAM': 1})

    def select(it, args, kw):
        hook = it.hooks.get('select')
        if hook is None:
            raise Unsupported('select.select without a transport model')
        return hook(it, args, kw)
    it.model_modules['select'] = ModuleVal('select', {'select': Builtin('select.select', select)})
