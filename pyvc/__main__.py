import sys
from .runner import main
sys.exit(main())
