"""Replay of refuted obligations against the real code under /venv/bin/python."""
import os
import json
import subprocess
import z3
from . import runner


def model_values(model, limit=200):
    out = {}
    if model is None:
        return out
    for d in model.decls()[:limit]:
        if d.arity() == 0:
            out[d.name()] = str(model[d])[:300]
    return out


def write_replay(ctx, name, obs):
    """Writes /verif/out/<pid>/<name>.json; returns (path, reproduced)."""
    outdir = os.path.join(os.environ.get('PYVC_OUT_DIR', os.path.join(runner.VERIF, 'out')), ctx.pid)
    os.makedirs(outdir, exist_ok=True)
    safe = ''.join(ch if ch.isalnum() or ch in '._-#[]' else '_' for ch in name)[:150]
    path = os.path.join(outdir, safe + '.json')
    ob = obs[0]
    model = runner.model_for(ob)
    rec = {
        'property': ctx.pid,
        'obligation': name,
        'instances': [o.name for o in obs],
        'kind': ob.kind,
        'goal': (getattr(ob, 'goal_str', None) or str(z3.simplify(ob.goal)))[:2000],
        'meta': ob.meta,
        'solver': getattr(ob, 'solver', None),
        'detail': ob.detail,
        'model': model_values(model),
        'repo': ctx.repo,
    }
    reproduced = False
    native = None
    # an obligation generated in a dependency phase (runner.DEPENDS) is replayed by that phase's replayers
    replayers = getattr(ctx, 'phase_replayers', {}).get(getattr(ob, 'phase', 0), ctx.replayers)
    for pat, fn in replayers.items():
        import fnmatch
        if fnmatch.fnmatchcase(name, pat):
            try:
                native = fn(ctx, ob, model)
            except Exception as e:   # replay problems never hide the violation
                native = {'error': repr(e)}
            break
    if native is not None:
        rec['native'] = native
        reproduced = bool(native.get('reproduced'))
    with open(path, 'w') as fh:
        json.dump(rec, fh, indent=1, default=str)
    return path, reproduced


_NATIVE_CACHE = {}
MAX_NATIVE_RUNS = int(os.environ.get('PYVC_MAX_REPLAYS', '24'))


def run_native(script, payload, timeout=120):
    """Run /verif/replay/<script> under the repository's interpreter with a JSON payload.  Results are
    cached per (script, searched target); a run of the checker starts at most MAX_NATIVE_RUNS native
    searches (a change that breaks hundreds of obligations is reported all the same -- the remaining
    replay files say that no search was started for them)."""
    key_payload = dict(payload)
    ob = key_payload.get('obligation')
    if isinstance(ob, str):
        # the bounded searches are per function / clause, not per path instance
        key_payload['obligation'] = ob.split('@')[0]
    key = (script, json.dumps(key_payload, sort_keys=True, default=str))
    if key in _NATIVE_CACHE:
        return _NATIVE_CACHE[key]
    if len(_NATIVE_CACHE) >= MAX_NATIVE_RUNS:
        return {'skipped': 'native search not started: more than %d refuted obligations in this run' % MAX_NATIVE_RUNS}
    r = _run_native(script, payload, timeout)
    _NATIVE_CACHE[key] = r
    return r


def _run_native(script, payload, timeout=120):
    repo = os.environ.get('VERIF_REPO', '/repo')
    cmd = ['/venv/bin/python', os.path.join(runner.VERIF, 'replay', script)]
    env = dict(os.environ, PYTHONPATH=repo + os.pathsep + runner.VERIF, VERIF_REPO=repo)
    try:
        out = subprocess.run(cmd, input=json.dumps(payload), capture_output=True, text=True,
                             timeout=timeout, cwd=repo, env=env)
    except subprocess.TimeoutExpired:
        return {'error': 'native replay timed out'}
    try:
        return json.loads(out.stdout.strip().split('\n')[-1])
    except Exception:
        return {'error': 'native replay produced no JSON', 'stdout': out.stdout[-500:], 'stderr': out.stderr[-1500:]}


def replay_file(path):
    with open(path) as fh:
        rec = json.load(fh)
    print(json.dumps({k: rec.get(k) for k in ('property', 'obligation', 'goal', 'native')}, indent=1))
    nat = rec.get('native') or {}
    return 1 if nat.get('reproduced') else 0
