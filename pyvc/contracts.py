"""Contract language (sidecar files under /verif/contracts) and the two uses of a contract:
verifying the real function against it, and applying it at call sites (modular reasoning).

A sidecar is an ordinary Python file that only *declares*: it calls the functions below.
Expressions are strings in Python syntax; they are evaluated by the same symbolic interpreter
in `spec mode` (and/or/not/if-else build formulas instead of branching; == on objects is
structural), in the callee's module namespace extended with the spec prelude.
"""
import ast
import itertools
import z3
from . import smt
from .values import (Unsupported, PathEnd, Raised, ReturnSignal, Obj, ExcVal, ListVal, DictVal,
                     Stream, SeqVal, Packed, FuncVal, ClassVal, GenVal, NamedTupleVal, SetVal)


class LoopSpec(object):
    def __init__(self, key):
        self.key = key
        self.havoc = {}          # name -> descriptor | 'rstream' | ('recompute', expr)
        self.invariants = []     # (label, expr)
        self.decreases = None
        self.ghost = []          # (name, desc, init_expr, step_expr)
        self.lemmas_head = []
        self.lemmas_tail = []
        self.acc = None          # (name, elem descriptor) accumulator of yielded values
        self.consts = []         # (name, expr): ghost constants fixed at loop entry
        self.by_prop = {}        # property id -> {'head': [...], 'tail': [...], 'invariants': [...]}
        self.havoc_stmts = []
        self.exit = []           # statements run on the exit path (guard false), e.g. oblige(...)

    def for_prop(self, pid, head=(), tail=(), invariants=(), consts=(), exit=()):
        d = self.by_prop.setdefault(pid, {'head': [], 'tail': [], 'invariants': [], 'consts': []})
        d['head'].extend(head)
        d['tail'].extend(tail)
        d['invariants'].extend(invariants)
        d.setdefault('exit', []).extend(exit)
        d.setdefault('consts', []).extend(consts)
        return self

    def parts(self, pid):
        d = self.by_prop.get(pid, {})
        return (self.lemmas_head + d.get('head', []), self.lemmas_tail + d.get('tail', []),
                self.invariants + d.get('invariants', []))


class Contract(object):
    def __init__(self, qualname):
        self.qualname = qualname
        self.args = []           # (name, [alternatives])
        self.result_type = None
        self.requires = []       # (label, expr)
        self.ensures = []        # (label, expr)
        self.raises = []         # (exception name, when expr or None)
        self.abstract = None     # abstract body (source) used at call sites / refinement target
        self.setup = []          # statements executed (spec mode off) before the call when verifying
        self.ghosts = []         # (name, descriptor)
        self.properties = set()
        self.pure = False
        self.trusted = False     # assumed, not verified (listed in evidence)
        self.note = ''
        self.modifies = []
        self.total = False       # any exception not declared is a failed obligation
        self.yields = None       # for generator functions: (elem descriptor)

    # ---- declaration API (fluent) ----
    def arg(self, name, *alts):
        self.args.append((name, list(alts)))
        return self

    def returns(self, desc):
        self.result_type = desc
        return self

    def require(self, expr, label=None):
        self.requires.append((label or 'pre%d' % len(self.requires), expr))
        return self

    def ensure(self, expr, label=None):
        self.ensures.append((label or 'post%d' % len(self.ensures), expr))
        return self

    def may_raise(self, exc, when=None):
        """the exception is a possible outcome (whenever `when` holds)"""
        self.raises.append((exc, when, False))
        return self

    def raises_iff(self, exc, when):
        """the exception is raised exactly when `when` holds"""
        self.raises.append((exc, when, True))
        return self

    def ghost(self, name, desc):
        self.ghosts.append((name, desc))
        return self

    def loop(self, where, ordinal=0):
        """where: nested function path relative to the contract's function ('' for itself)"""
        q = self.qualname if not where else self.qualname + '.' + where
        key = (q, ordinal)
        ls = LoopSpec(key)
        REGISTRY.loops[key] = ls
        return ls

    def prop(self, *ids):
        self.properties.update(ids)
        return self


class Registry(object):
    def __init__(self):
        self.contracts = {}
        self.loops = {}
        self.lemmas = {}
        self.assumptions = []   # free-text assumptions declared by sidecars

    def contract(self, qualname):
        if qualname not in self.contracts:
            self.contracts[qualname] = Contract(qualname)
        return self.contracts[qualname]


REGISTRY = Registry()


def contract(qualname):
    return REGISTRY.contract(qualname)


def assume_external(text):
    REGISTRY.assumptions.append(text)


# ------------------------------------------------------------------------- evaluation
_parsed = {}


def parse_expr(src):
    if src not in _parsed:
        _parsed[src] = ast.parse(src.strip(), mode='eval').body
    return _parsed[src]


def parse_stmts(src):
    key = ('stmts', src)
    if key not in _parsed:
        import textwrap
        _parsed[key] = ast.parse(textwrap.dedent(src)).body
    return _parsed[key]


def spec_eval(it, expr, frame):
    """Evaluate a contract expression; returns a value (formulas for boolean structure)."""
    node = parse_expr(expr) if isinstance(expr, str) else expr
    saved = it.spec_mode
    it.spec_mode = True
    try:
        return it.eval(node, frame)
    finally:
        it.spec_mode = saved


def as_formula(it, v):
    if isinstance(v, bool):
        return z3.BoolVal(v)
    if smt.is_bool_term(v):
        return v
    # fall back to truthiness (may branch)
    return z3.BoolVal(it.truthy(v))


def find_old_exprs(node, out):
    for n in ast.walk(node):
        if isinstance(n, ast.Call) and isinstance(n.func, ast.Name) and n.func.id == 'old' and len(n.args) == 1:
            out.append(n.args[0])


def snapshot(v, memo=None):
    """structural copy of mutable interpreter values (for old())"""
    if memo is None:
        memo = {}
    if id(v) in memo:
        return memo[id(v)]
    if isinstance(v, Obj):
        if isinstance(v, ExcVal):
            o = ExcVal(v.cls)
        else:
            o = Obj(v.cls)
        memo[id(v)] = o
        for k, x in v.fields.items():
            o.fields[k] = snapshot(x, memo)
        for extra in ('getattr_hook', 'setattr_hook'):
            if hasattr(v, extra):
                setattr(o, extra, getattr(v, extra))
        return o
    if isinstance(v, ListVal):
        o = ListVal()
        memo[id(v)] = o
        o.items = [snapshot(x, memo) for x in v.items]
        return o
    if isinstance(v, DictVal):
        o = DictVal()
        memo[id(v)] = o
        o.entries = [(k, snapshot(key, memo), snapshot(val, memo)) for k, key, val in v.entries]
        o.base = v.base
        return o
    if isinstance(v, SetVal):
        o = SetVal([snapshot(x, memo) for x in v.items], v.member, v.frozen)
        memo[id(v)] = o
        return o
    if isinstance(v, Stream):
        o = Stream(v.before, v.rem, v.name)
        o.closed = v.closed
        memo[id(v)] = o
        return o
    if isinstance(v, tuple):
        return tuple(snapshot(x, memo) for x in v)
    return v


class SpecFrameBuilder(object):
    """Frame in which contract expressions are evaluated: parameters, result, ghosts, old()."""

    def __init__(self, it, fv, bound):
        from .interp import Frame
        self.it = it
        self.frame = Frame(fv, fv.module, None, fv.qualname + '#spec')
        self.frame.locals.update(bound)
        self.olds = {}
        self.frame.olds = self.olds

    def precompute_olds(self, exprs):
        for e in exprs:
            node = parse_expr(e) if isinstance(e, str) else e
            olds = []
            find_old_exprs(node, olds)
            for o in olds:
                key = ast.dump(o)
                if key not in self.olds:
                    self.olds[key] = snapshot(spec_eval(self.it, o, self.frame))
        self.frame.olds = self.olds


# ------------------------------------------------------------------------- applying at call sites
class NoContractMatch(Exception):
    """the ghost arguments of a callee contract could not be matched: the caller inlines the body"""


def apply_contract(it, fv, args, kwargs):
    """Modular call: check requires, then assume ensures about a fresh / abstract result."""
    from .calls import bind_args
    c = it.hooks.get('call_contracts', {}).get(fv.qualname) or it.contracts.get(fv.qualname)
    if c is None:
        raise Unsupported('no contract for %s' % fv.qualname)
    if callable(c):
        c = c(it, fv, args, kwargs)      # contract chosen by the receiver (e.g. per class)
        if c is None:
            raise NoContractMatch()
    bound = bind_args(it, fv, args, kwargs)
    sb = SpecFrameBuilder(it, fv, bound)
    fr = sb.frame
    caller = it.p.label
    binder = getattr(c, 'ghost_binder', None)
    if binder is not None:
        # ghost arguments of the callee's contract are found by matching the caller's state
        ghosts = binder(it, bound)
        if ghosts is None:
            raise NoContractMatch()
        fr.locals.update(ghosts)
    for label, expr in c.requires:
        v = spec_eval(it, expr, fr)
        it.p.oblige('%s#pre:%s@%s' % (c.qualname, label, caller), as_formula(it, v), kind='pre')
    if getattr(c, 'result_expr', None) is not None:
        # possible exceptional outcomes first (declared with may_raise / raises_iff)
        if c.raises:
            opts = [('raise', exc, True if when is None else as_formula(it, spec_eval(it, when, fr)))
                    for exc, when, exact in c.raises]
            opts.append(('normal', None, True))
            kind, exc, _ = opts[_choose_outcome(it, opts, c)]
            if kind == 'raise':
                cls = it.builtins.get(exc)
                if cls is None:
                    from .verify import resolve_exc
                    cls = resolve_exc(it, exc)
                if cls is None:
                    raise Unsupported('unknown exception class %s in contract %s' % (exc, c.qualname))
                it.raise_exc(cls, 'by contract of %s' % c.qualname)
        result = spec_eval(it, c.result_expr, fr)
        fr.locals['result'] = result
        for src in getattr(c, 'post_effects', ()):
            saved_mode = it.spec_mode
            it.spec_mode = True
            try:
                it.exec_block(parse_stmts(src), fr)
            finally:
                it.spec_mode = saved_mode
        return result
    if c.abstract is not None:
        # abstract body runs in the callee's namespace with the bound parameters
        from .interp import Frame
        afr = Frame(fv, fv.module, None, fv.qualname + '#abstract')
        afr.locals.update(bound)
        saved_mode = it.spec_mode
        it.spec_mode = True
        try:
            it.exec_block(parse_stmts(c.abstract), afr)
        except ReturnSignal as r:
            return r.value
        finally:
            it.spec_mode = saved_mode
        return None
    sb.precompute_olds([e for _, e in c.ensures] + [w for _, w, _x in c.raises if w])
    # exceptional outcomes
    choices = []
    certain = []
    for exc, when, exact in c.raises:
        w = True if when is None else as_formula(it, spec_eval(it, when, fr))
        choices.append(('raise', exc, w))
        if exact:
            certain.append(w)
    if choices:
        normal_ok = True
        if certain:
            normal_ok = z3.Not(z3.Or(*[z3.BoolVal(w) if isinstance(w, bool) else w for w in certain]))
        choices.append(('normal', None, normal_ok))
        idx = _choose_outcome(it, choices, c)
        kind, exc, _ = choices[idx]
        if kind == 'raise':
            it.raise_exc(exc, 'by contract of %s' % c.qualname)
    if c.pure:
        # pure method: the result is an uninterpreted function of the packed receiver
        from .pack import to_term, from_term
        recv = list(bound.values())[0]
        if isinstance(recv, Packed):
            desc = recv.tdesc
        else:
            rec = it.types.record_of_class(recv.cls)
            if rec is None:
                raise Unsupported('pure contract %s applied to an object without a record' % c.qualname)
            desc = rec.key
        st = to_term(it, recv, desc)
        f = z3.Function('%s@%s' % (c.qualname, desc.split('.')[-1]), st.sort(),
                        it.types.sort_of(c.result_type))
        rt = f(st)
        result = from_term(it, rt, c.result_type)
        it.p.ghost.setdefault('pure_calls', []).append((c.qualname, recv, desc, st, rt))
    elif c.result_type is None or c.result_type == 'none':
        result = None
    else:
        from .pack import fresh_value
        result = fresh_value(it, 'ret_' + fv.name, c.result_type)
    fr.locals['result'] = result
    for label, expr in c.ensures:
        v = spec_eval(it, expr, fr)
        it.p.assume(as_formula(it, v))
    return result


def _choose_outcome(it, choices, c):
    """nondeterministic outcome: every raise clause whose condition is feasible is a path;
    the normal outcome is a path when no *certain* raise condition holds."""
    conds = []
    for kind, exc, w in choices:
        conds.append(w)
    # make alternatives non-exclusive choices into a decision: encode as fresh selector
    sel = it.p.fresh_int('outcome')
    alts = []
    for i, (kind, exc, w) in enumerate(choices):
        g = sel == i
        if w is not True:
            g = z3.And(g, z3.BoolVal(w) if isinstance(w, bool) else w)
        alts.append(g)
    it.p.assume(z3.And(sel >= 0, sel < len(choices)))
    return it.p.choose(alts, 'outcome of %s' % c.qualname)
