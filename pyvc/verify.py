"""Verifying a real function against its contract: one exploration per argument case."""
import itertools
import os
import hashlib
import ast
import time
import z3
from . import smt
from .values import (Unsupported, PathEnd, Raised, ReturnSignal, Obj, ExcVal, FuncVal, ClassVal,
                     BoundMethod, PropertyVal, GenVal, ListVal, SeqVal)
from .path import Explorer, Obligation
from .contracts import (spec_eval, as_formula, SpecFrameBuilder, parse_stmts, snapshot)
from .pack import fresh_value
from .calls import bind_args, make_frame


class Alt(object):
    """An argument alternative: a named way to build the value on a path."""

    def __init__(self, name, build):
        self.name = name
        self.build = build   # build(it, argname) -> value


def alt_from(desc_or_alt):
    if isinstance(desc_or_alt, Alt):
        return desc_or_alt
    d = desc_or_alt
    return Alt(d, lambda it, name, d=d: fresh_value(it, name, d))


def const(name, value):
    return Alt(name, lambda it, argname: value)


def lookup_function(it, qualname):
    """'module.func' | 'module.Class.method' -> (FuncVal, owner ClassVal or None)"""
    parts = qualname.split('.')
    mod = it.modules.get('%s.%s' % (it.package, parts[0]))
    if mod is None and parts[0] == '__init__':
        mod = it.modules.get(it.package)
    if mod is None:
        raise Unsupported('contract names unknown module %s' % parts[0])
    cur = mod.attrs.get(parts[1])
    owner = None
    for name in parts[2:]:
        if isinstance(cur, ClassVal):
            owner = cur
            a, _ = cur.lookup(name)
            cur = a
        else:
            raise Unsupported('cannot resolve %s' % qualname)
    if isinstance(cur, PropertyVal):
        cur = cur.fget
    if isinstance(cur, BoundMethod):
        cur = cur.func
    if not isinstance(cur, FuncVal):
        raise Unsupported('contract target %s is not a function in the current tree' % qualname)
    return cur, owner


def function_info(it, fv):
    modname = fv.module.name
    src = it.sources.get(modname, '')
    seg = ast.get_source_segment(src, fv.node) or ''
    return {
        'function': fv.qualname,
        'file': fv.module.path,
        'lines': [fv.node.lineno, getattr(fv.node, 'end_lineno', fv.node.lineno)],
        'sha256': hashlib.sha256(seg.encode()).hexdigest(),
    }


class FunctionResult(object):
    def __init__(self, qualname):
        self.qualname = qualname
        self.obligations = []
        self.paths = 0
        self.cases = 0
        self.info = None
        self.seconds = 0.0
        self.normal_paths = 0
        self.notes = []


def verify_function(it, contract, snapshot_globals=None, cases=None, labels=None, tag=None):
    """Run the real function on every path of every argument case; collect obligations.
    `labels`: restrict to these ensures labels (a property's view of the contract)."""
    t0 = time.time()
    fv, owner = lookup_function(it, contract.qualname)
    res = FunctionResult(contract.qualname)
    res.info = function_info(it, fv)
    names = [n for n, _ in contract.args]
    alts = [[alt_from(a) for a in al] for _, al in contract.args]
    case_list = list(itertools.product(*alts)) if cases is None else cases
    from .parallel import Exploration
    explorations = []
    for case in case_list:
        case_name = ','.join(a.name for a in case)
        label = contract.qualname + ('[%s]' % case_name if case_name else '')
        if tag:
            label += '{%s}' % tag

        def run(p, case=case, label=label):
            run_case(it, p, fv, contract, names, case, label, snapshot_globals, labels)
        explorations.append(Exploration(label, run, res, target=contract.qualname))
    res.seconds = time.time() - t0
    return res, explorations


def run_paths(it, ex, fn, label):
    """Explorer.run with interpreter paths (base facts installed)."""
    work = [[]]
    n = 0
    paths = []
    while work:
        prefix = work.pop()
        n += 1
        if n > ex.max_paths:
            raise Unsupported('path explosion in %s (> %d paths)' % (label, ex.max_paths))
        p = it.new_path(prefix, label)
        p.index = n - 1
        p.shared_cache = ex.__dict__.setdefault('must_cache', {})
        it.p = p
        it.depth = 0
        try:
            fn(p)
            p.ended = 'done'
        except PathEnd as e:
            p.ended = 'cut: %s' % (e,)
        finally:
            it.p = None
        if os.environ.get('PYVC_PROGRESS'):
            print('  path %d of %s: %s; decisions=%s full=%d light=%d solver=%.1fs obligations=%d' % (
                p.index, label, p.ended[:70], p.taken, p.n_full, p.n_light, p.solver_time, len(p.obligations)),
                flush=True)
        for ob in p.obligations:
            ob.name = '%s@p%d' % (ob.name, p.index)
        work.extend(reversed(p.alternatives))
        paths.append(p)
    return paths


def run_case(it, p, fv, contract, names, case, label, snapshot_globals, labels):
    if snapshot_globals is not None:
        snapshot_globals.restore()
    args = {}
    for n, alt in zip(names, case):
        args[n] = alt.build(it, n)
    # bind: positional by parameter order of the real function
    bound = bind_args(it, fv, [], dict(args))
    sb = SpecFrameBuilder(it, fv, dict(bound))
    fr = sb.frame
    for gname, gdesc in contract.ghosts:
        fr.locals[gname] = fresh_value(it, gname, gdesc)
    late = getattr(contract, 'late_requires', ())
    for lab, expr in contract.requires:
        if lab not in late:
            p.assume(as_formula(it, spec_eval(it, expr, fr)))
    if not p.feasible():
        raise PathEnd('requires unsatisfiable on this case')
    for src in contract.setup:
        saved_mode = it.spec_mode
        it.spec_mode = True
        try:
            it.exec_block(parse_stmts(src), fr)
        except Raised as r:
            if getattr(contract, 'setup_defines_domain', False):
                # e.g. `stream = stream_of(v.encode() + rest)`: values the real encoder rejects
                # are outside the quantifier domain ("PDUs that can be built and encoded")
                raise PathEnd('setup raised %s: outside the domain' % r.exc.cls.name)
            raise
        finally:
            it.spec_mode = saved_mode
        # setup may rebind parameters
        for k in bound:
            bound[k] = fr.locals.get(k, bound[k])
    for lab, expr in contract.requires:
        if lab in late:
            p.assume(as_formula(it, spec_eval(it, expr, fr)))
    ens = [(l, e) for (l, e) in contract.ensures if labels is None or l in labels]
    sb.precompute_olds([e for _, e in ens] + [w for _, w, _x in contract.raises if w])
    call_frame = make_frame(it, fv, dict(bound))
    for src in getattr(contract, 'call_setup', []):
        saved_mode = it.spec_mode
        it.spec_mode = True
        try:
            it.exec_block(parse_stmts(src), call_frame)
        finally:
            it.spec_mode = saved_mode
    fr.call_frame = call_frame
    p.outcome = None
    try:
        if fv.is_generator:
            acc = []
            gen = GenVal(fv, call_frame)
            it.run_generator(gen, acc.append)
            result = ListVal(acc)
        else:
            it.depth += 1
            try:
                try:
                    it.exec_block(fv.node.body, call_frame)
                    result = None
                except ReturnSignal as r:
                    result = r.value
            finally:
                it.depth -= 1
        p.outcome = 'normal'
    except Raised as r:
        p.outcome = 'raised:' + r.exc.cls.name
        check_raise(it, p, contract, fr, r.exc, label)
        return
    fr.locals['result'] = result
    # exact raise clauses: a normal return where an exception was promised is a failure
    for exc, when, exact in contract.raises:
        if exact and when is not None:
            w = as_formula(it, spec_eval(it, when, fr))
            p.oblige('%s#raises-iff:%s' % (label, exc), z3.Not(w), kind='raises')
    for lab, expr in ens:
        v = spec_eval(it, expr, fr)
        p.oblige('%s#%s' % (label, lab), as_formula(it, v), kind='ensures')


def check_raise(it, p, contract, fr, exc, label):
    allowed = []
    for name, when, exact in contract.raises:
        cls = it.builtins.get(name) or resolve_exc(it, name)
        if cls is not None and exc.cls.is_subclass(cls):
            w = True if when is None else as_formula(it, spec_eval(it, when, fr))
            allowed.append(w)
    if not allowed:
        p.oblige('%s#noexc:%s' % (label, exc.cls.name), z3.BoolVal(False), kind='noexc',
                 meta={'exception': exc.cls.name, 'args': repr(exc.fields.get('args'))[:200]},
                 assume_after=False)
        return
    goal = z3.Or(*[z3.BoolVal(w) if isinstance(w, bool) else w for w in allowed])
    p.oblige('%s#raises:%s' % (label, exc.cls.name), goal, kind='raises')


def resolve_exc(it, name):
    if '.' in name:
        modname, cname = name.rsplit('.', 1)
        mod = it.modules.get('%s.%s' % (it.package, modname))
        if mod is not None and cname in mod.attrs:
            return mod.attrs[cname]
    return None


class GlobalsSnapshot(object):
    """Snapshot of the mutable module-level state, restored at the start of every path."""

    def __init__(self, it):
        self.it = it
        self.saved = {}
        memo = {}
        for mname, mod in it.modules.items():
            for k, v in mod.attrs.items():
                from .values import DictVal, SetVal
                if isinstance(v, (DictVal, ListVal, SetVal, Obj)):
                    self.saved[(mname, k)] = snapshot(v, memo)
        self.class_attrs = {}

    def restore(self):
        memo = {}
        for (mname, k), v in self.saved.items():
            self.it.modules[mname].attrs[k] = snapshot(v, memo)
