"""Parallel exploration and discharge.

An *exploration* is a closure fn(path) executing one function case under a decision prefix.
The decision tree of every exploration is distributed over forked worker processes: a task is
(exploration index, subtree-root prefixes, path budget); a worker runs paths depth-first, solves
the obligations of each path on the spot (z3, then cvc5) and returns verdict records plus the
prefixes it did not get to.  Only obligations that are not proved travel back as SMT-LIB text.
"""
import os
import sys
import time
import multiprocessing
import traceback
import z3

from .values import PathEnd, Unsupported
from . import discharge

_STATE = {}          # inherited by forked workers: interp, explorations
_MUST_CACHE = {}     # per worker process: (exploration, query index, decisions) -> bool


class Exploration(object):
    def __init__(self, label, fn, result=None, target=None):
        self.label = label
        self.fn = fn
        self.result = result      # FunctionResult accumulating counts
        self.target = target      # qualname executed (never replaced by its contract)


class Record(object):
    """An obligation after in-worker solving (picklable)."""

    def __init__(self, name, kind, meta, verdict, detail, solver, goal_str, smt2, nhyps):
        self.name = name
        self.kind = kind
        self.meta = meta
        self.verdict = verdict
        self.detail = detail
        self.solver = solver
        self.goal_str = goal_str
        self.smt2 = smt2
        self.hyps = [None] * nhyps

    @property
    def goal(self):
        return z3.BoolVal(True) if self.verdict == 'proved' else z3.Bool('goal_in_smt2_text')

    def formula(self):
        s = z3.Solver()
        s.from_string(self.smt2)
        return list(s.assertions())


def path_tag(taken):
    return '.'.join(str(d) for d in taken) if taken else '-'


def run_one_path(it, expl, eidx, prefix):
    p = it.new_path(prefix, expl.label)
    p.shared_cache = _MUST_CACHE.setdefault(eidx, {})
    it.p = p
    it.depth = 0
    it.spec_mode = False
    saved_target = it.mode.target
    if expl.target is not None:
        it.mode.target = expl.target
    err = None
    try:
        expl.fn(p)
        p.ended = 'done'
    except PathEnd as e:
        p.ended = 'cut: %s' % (e,)
    except Unsupported as e:
        p.ended = 'unsupported'
        err = 'Unsupported: %s' % (e,)
    except Exception as e:   # interpreter crash: reported as checker error by the master
        p.ended = 'crash'
        extra = ''
        if hasattr(e, 'exc') and hasattr(e.exc, 'fields'):
            extra = ' %s%r' % (e.exc.cls.name, e.exc.fields.get('args'))
        err = 'crash: %r%s\n%s' % (e, extra, traceback.format_exc()[-6000:])
    finally:
        it.p = None
        it.mode.target = saved_target
    return p, err


_SOLVED = {}         # per worker process: (exploration, obligation name at its emission point) -> done


def solve_path_obligations(p, cross, eidx=None):
    """Obligations are identified by the decisions taken when they were emitted: every path that
    shares that prefix re-emits the identical obligation (deterministic re-execution), which is
    solved once per worker and reported once by the master."""
    recs = []
    for ob in p.obligations:
        at = getattr(ob, 'at', tuple(p.taken))
        name = '%s@p%s' % (ob.name, path_tag(at))
        key = (eidx, name)
        if key in _SOLVED:
            continue
        _SOLVED[key] = True
        g = z3.simplify(ob.goal)
        goal_str = str(g)[:600]
        if z3.is_true(g):
            recs.append(Record(name, ob.kind, ob.meta, 'proved', 'goal simplifies to true', {'trivial': True},
                               goal_str, None, len(ob.hyps)))
            continue
        # cheap first: the sequence-free abstraction of the hypotheses (fewer hypotheses: sound)
        t0 = time.time()
        from .path import _abstract
        ls = z3.Solver()
        ls.set('rlimit', 2000000)
        for h in ob.hyps:
            ls.add(_abstract(h)[0])
        ls.add(z3.Not(_abstract(ob.goal)[0]))
        if ls.check() == z3.unsat:
            recs.append(Record(name, ob.kind, ob.meta, 'proved', 'by the sequence-free abstraction',
                               {'z3': 'unsat', 'z3_s': time.time() - t0, 'abstraction': True},
                               goal_str, None, len(ob.hyps)))
            continue
        smt2 = discharge.to_smt2(ob.formula())
        v, info, detail = discharge.solve_text(smt2, cross)
        recs.append(Record(name, ob.kind, ob.meta, v, detail, info, goal_str,
                           None if v == 'proved' else smt2, len(ob.hyps)))
    return recs


def worker(task):
    eidx, prefixes, budget, cross, known, mcache = task
    it = _STATE['it']
    expl = _STATE['explorations'][eidx]
    # what other workers already established for this exploration (identical, deterministic queries)
    for name in known:
        _SOLVED[(eidx, name)] = True
    mc = _MUST_CACHE.setdefault(eidx, {})
    mc.update(mcache)
    mc_before = set(mc)
    work = list(prefixes)
    out = []
    npaths = 0
    normal = 0
    errors = []
    t0 = time.time()
    solver_s = 0.0
    while work and npaths < budget:
        prefix = work.pop()
        npaths += 1
        p, err = run_one_path(it, expl, eidx, prefix)
        if err:
            errors.append('%s @%s: %s' % (expl.label, path_tag(p.taken), err))
        if getattr(p, 'outcome', None) == 'normal':
            normal += 1
        solver_s += p.solver_time
        out.extend(solve_path_obligations(p, cross, eidx))
        work.extend(reversed(p.alternatives))
        if os.environ.get('PYVC_PROGRESS'):
            print('  [%d] %s @%s: %s full=%d light=%d %.1fs obs=%d' % (
                os.getpid(), expl.label[-60:], path_tag(p.taken)[-40:], p.ended[:60], p.n_full, p.n_light,
                p.solver_time, len(p.obligations)), flush=True)
    new_mc = {k: v for k, v in mc.items() if k not in mc_before}
    return eidx, out, work, dict(paths=npaths, normal=normal, errors=errors, wall=time.time() - t0,
                                 explore_solver_s=solver_s, must_cache=new_mc)


def run_all(it, explorations, jobs=None, cross=False, max_paths=60000):
    """Runs every exploration to completion; returns (records, stats, errors)."""
    jobs = jobs or int(os.environ.get('PYVC_JOBS', min(16, os.cpu_count() or 4)))
    _STATE['it'] = it
    _STATE['explorations'] = explorations
    records = []
    errors = []
    stats = dict(paths=0, explore_wall=0.0, explore_solver_s=0.0)
    per = [dict(paths=0, normal=0) for _ in explorations]
    queue = [(i, [[]]) for i in range(len(explorations))]
    seen = set()
    known = {}
    mcaches = {}
    t0 = time.time()

    def account(res):
        eidx, out, left, st = res
        for rec in out:
            k = (eidx, rec.name)
            if k in seen:
                continue
            seen.add(k)
            known.setdefault(eidx, set()).add(rec.name)
            records.append(rec)
        mcaches.setdefault(eidx, {}).update(st.get('must_cache', {}))
        per[eidx]['paths'] += st['paths']
        per[eidx]['normal'] += st['normal']
        stats['paths'] += st['paths']
        stats['explore_solver_s'] += st['explore_solver_s']
        errors.extend(st['errors'])
        for pre in left:
            queue.append((eidx, [pre]))
        if stats['paths'] > max_paths:
            raise Unsupported('path explosion: more than %d paths' % max_paths)

    if jobs <= 1:
        while queue:
            eidx, pres = queue.pop()
            account(worker((eidx, pres, 10 ** 9, cross, (), {})))
    else:
        ctx = multiprocessing.get_context('fork')
        pool = ctx.Pool(jobs)
        try:
            pending = []
            while queue or pending:
                # small budgets while there is little queued work (spread the tree quickly),
                # larger ones once every worker is busy (amortise the per-task prefix replay)
                while queue and len(pending) < jobs * 2:
                    eidx, pres = queue.pop()
                    budget = 3 if len(queue) + len(pending) < jobs else 40
                    pending.append(pool.apply_async(worker, ((eidx, pres, budget, cross,
                                                              frozenset(known.get(eidx, ())),
                                                              dict(mcaches.get(eidx, {}))),)))
                done = [r for r in pending if r.ready()]
                if not done:
                    time.sleep(0.01)
                    continue
                for r in done:
                    pending.remove(r)
                    account(r.get())
        finally:
            pool.terminate()
            pool.join()
    stats['explore_wall'] = time.time() - t0
    for i, e in enumerate(explorations):
        if e.result is not None:
            e.result.paths += per[i]['paths']
            e.result.normal_paths += per[i]['normal']
            e.result.cases += 1
    return records, stats, errors, per
