"""Check runner: builds the interpreter from /repo's working tree, loads sidecars, runs one
property driver, discharges, replays refutations, writes evidence, prints verdict lines.

exit 0 held (known findings printed) | 1 VIOLATION | 2 undecided | 3 checker error
"""
import os
import sys
import json
import glob
import time
import fnmatch
import importlib
import traceback

import z3

VERIF = os.path.dirname(os.path.dirname(os.path.abspath(__file__)))
REPO = os.environ.get('VERIF_REPO', '/repo')

from . import smt
from .values import Unsupported
from .interp import Interp
from .types import TypeEnv
from . import contracts as C
from . import prelude, discharge, verify


class CheckerError(Exception):
    pass


class Ctx(object):
    def __init__(self, pid, tier, seed):
        self.pid = pid
        self.tier = tier
        self.seed = seed
        self.repo = REPO
        self.it = None
        self.registry = C.REGISTRY
        self.results = []          # FunctionResult
        self.obligations = []
        self.assumptions = []
        self.bounded = []          # bounded stand-ins: dicts {what, bound, evaluations, ok}
        self.samples = []
        self.trusted_base = []
        self.notes = []
        self.extra = {}
        self.replayers = {}        # obligation name pattern -> callable(ctx, ob, model) -> dict
        self.audits = []           # (name, ok, detail)
        self.native_crosschecks = []   # (replay script, payload, description): run in the thorough tier
        self.explorations = []
        self.explore_stats = {}
        self.t0 = time.time()

    # -- building ---------------------------------------------------------
    def build(self, by_contract=(), hooks=None):
        it = Interp(self.repo, extra_roots=spec_roots())
        prelude.install(it)
        it.contracts = self.registry.contracts
        it.loop_specs = self.registry.loops
        # add_status is always seen through its (C18-verified) range-update contract: keeps the
        # status dictionaries compact
        it.mode.by_contract = set(by_contract)
        if hooks:
            it.hooks.update(hooks)
        it.hooks['pid'] = self.pid
        it.types = TYPES
        it.load_module('pynetdicom2')
        bind_records(it)
        TYPES.build()
        self.it = it
        self.globals = verify.GlobalsSnapshot(it)
        return it

    def verify(self, qualname, labels=None, cases=None, tag=None):
        if isinstance(qualname, C.Contract):
            c = qualname
            qualname = c.qualname
        else:
            c = self.registry.contracts.get(qualname)
        if c is None:
            raise CheckerError('no contract registered for %s' % qualname)
        r, expls = verify.verify_function(self.it, c, self.globals, cases=cases, labels=labels, tag=tag)
        r.never_returns = getattr(c, 'never_returns', False)
        self.results.append(r)
        self.explorations.extend(expls)
        return r

    def add_exploration(self, label, fn, result, target=None):
        from .parallel import Exploration
        if result not in self.results:
            self.results.append(result)
        self.explorations.append(Exploration(label, fn, result, target))

    def run_explorations(self):
        """explore every registered function case (in parallel) and solve the obligations"""
        from . import parallel
        if not self.explorations:
            return
        records, stats, errors, per = parallel.run_all(self.it, self.explorations,
                                                       cross=(self.tier == 'thorough'))
        self.explorations = []
        for rec in records:
            rec.phase = getattr(self, 'phase', 0)
            rec.phase_pid = self.pid
        self.obligations.extend(records)
        by_result = {}
        for rec in records:
            pass
        # a property may explore in several phases (its own interpreters, then its dependencies'): counts add up
        acc = getattr(self, '_acc_stats', {})
        for k, v in stats.items():
            if isinstance(v, (int, float)) and not isinstance(v, bool):
                acc[k] = acc.get(k, 0) + v
            else:
                acc[k] = v
        self._acc_stats = acc
        self.explore_stats = dict(acc)
        if errors:
            # a refuted obligation found on another path stands on its own: it is reported (exit 1);
            # without one, paths outside the supported subset mean "cannot verify" (exit 3)
            self.path_errors = list(errors)
            known = load_known()
            if not any(r.verdict == 'refuted' and match_known(known, self.pid, r) is None for r in records):
                raise CheckerError('%d path(s) left the supported subset or crashed; first: %s'
                                   % (len(errors), errors[0]))
            print('NOTE property=%s %d path(s) left the supported subset (first: %s); reporting the refuted '
                  'obligations found on the other paths' % (self.pid, len(errors), errors[0][:300]))
            return
        # vacuity guards
        labels = {}
        for rec in self.obligations:      # all phases so far (an earlier phase may have returned before this guard)
            labels.setdefault(rec.name.split('#')[0], 0)
            labels[rec.name.split('#')[0]] += 1
        for r in self.results:
            if getattr(r, 'checked', False):
                continue
            r.checked = True
            n = sum(v for k, v in labels.items() if k.startswith(r.qualname))
            r.n_obligations = n
            if n == 0:
                raise CheckerError('zero obligations generated for %s (vacuous contract?)' % r.qualname)
            if r.normal_paths == 0 and not getattr(r, 'never_returns', False):
                raise CheckerError('no reachable normal path for %s: requires unsatisfiable or model hole'
                                   % r.qualname)


TYPES = TypeEnv()


def record(key, **fields):
    TYPES.record(key, **fields)


def family(name, members):
    TYPES.family(name, members)


def spec_roots():
    roots = {}
    for path in glob.glob(os.path.join(VERIF, 'spec', '*.py')):
        name = os.path.splitext(os.path.basename(path))[0]
        roots['spec.' + name] = path
    return roots


def bind_records(it):
    import ast
    for key, rec in TYPES.records.items():
        modname, cname = key.split('.')
        if modname == 'harness':
            # value types of the verification harness (e.g. data sets handed out by the
            # application oracle): plain records, no repository class behind them
            from .values import ClassVal
            if rec.cls is None:
                rec.cls = ClassVal(cname, [it.builtins['object']], {}, 'harness')
            continue
        mod = it.modules.get('pynetdicom2.' + modname)
        if mod is None or cname not in mod.attrs:
            raise CheckerError('record %s: class not found in the current tree' % key)
        rec.cls = mod.attrs[cname]
        init, owner = rec.cls.lookup('__init__')
        assigned = set()
        if hasattr(init, 'node'):
            for n in ast.walk(init.node):
                if isinstance(n, ast.Attribute) and isinstance(n.ctx, ast.Store) and \
                        isinstance(n.value, ast.Name) and n.value.id == 'self':
                    assigned.add(n.attr)
        declared = set(f for f, _ in rec.fields)
        if assigned != declared:
            raise CheckerError('record %s: sidecar fields %s differ from fields assigned in __init__ %s'
                               % (key, sorted(declared), sorted(assigned)))


def load_sidecars():
    sys.path.insert(0, VERIF)
    for path in sorted(glob.glob(os.path.join(VERIF, 'contracts', '*_c.py'))):
        name = os.path.splitext(os.path.basename(path))[0]
        importlib.import_module('contracts.' + name)


def stable_name(ob_name):
    return ob_name.split('@p')[0]


def load_known():
    path = os.path.join(VERIF, 'KNOWN_FINDINGS.json')
    if not os.path.exists(path):
        return {'findings': [], 'fixed': []}
    with open(path) as fh:
        return json.load(fh)


def match_known(known, pid, ob):
    name = stable_name(ob.name)
    for f in known.get('findings', []):
        if f.get('property') != pid:
            continue
        if fnmatch.fnmatchcase(name, f.get('obligation', '')):
            return f
    return None


def model_for(ob, timeout_ms=20000):
    s = z3.Solver()
    s.set('timeout', timeout_ms)
    for f in ob.formula():
        s.add(f)
    if s.check() == z3.sat:
        return s.model()
    return None


def scan_assumption_keywords():
    hits = []
    for path in sorted(glob.glob(os.path.join(VERIF, 'contracts', '*.py'))):
        with open(path) as fh:
            for i, line in enumerate(fh, 1):
                ls = line.strip()
                if ls.startswith('#'):
                    continue
                for kw in ('assume_external(', '.trusted', 'assume('):
                    if kw in ls:
                        hits.append('%s:%d: %s' % (os.path.basename(path), i, ls[:160]))
    return hits


# A property whose statement rests on functions that another property puts under contract re-generates that
# property's obligations (all of them, or the named part) in a further phase of the same run, on an interpreter
# of its own: a change to such a function then fails a named obligation of THIS property's check as well.
# (dependency, keyword arguments of its run()).  Kept to what is cheap; the codec proofs (C01/C02, two minutes
# each) are only re-generated for the classes a property's statement names.
DEPENDS = {
    'C03': [('C04', {})],                              # actions must leave the receive buffer alone (frame clause)
    'C06': [('C02', {'only': ['PresentationDataValueItem', 'PDataTfPDU']})],   # the fragments' wire form
    'C07': [('C06', {})],                              # "a message fragmented as in C06": the sender's side of the contract
    'C14': [('C04', {}),                               # RJ / ABORT / RELEASE PDUs reach the user as the table says
            ('C02', {'only': ['AAssociateRjPDU', 'AAbortPDU', 'AReleaseRqPDU', 'AReleaseRpPDU']})],   # and travel intact
    'C15': [('C06', {}), ('C07', {})],                 # transport of the request / response: both directions
    'C16': [('C06', {}), ('C07', {})],
    'C19': [('C15', {})],                              # one sub-operation = one C-STORE request (storage_scu)
}


def run_dependencies(ctx):
    own = ctx.pid
    own_extra = dict(ctx.extra)
    ctx.phase_replayers = {0: dict(ctx.replayers)}
    merged_functions = list(own_extra.get('functions', []))
    for i, (dep, kwargs) in enumerate(DEPENDS.get(own, []), 1):
        ctx.phase = i
        ctx.pid = dep                     # loop specifications and pid-specific clauses of the dependency apply
        ctx.replayers = {}
        before = len(ctx.obligations)
        try:
            dmod = importlib.import_module('pyvc.props.%s' % dep.lower())
            dmod.run(ctx, **kwargs)
            ctx.run_explorations()
        finally:
            ctx.pid = own
        ctx.phase_replayers[i] = dict(ctx.replayers)
        merged_functions += [f for f in ctx.extra.get('functions', []) if f not in merged_functions]
        ctx.notes.append('dependency phase %d: obligations of %s re-generated (%d)' % (i, dep, len(ctx.obligations) - before))
    if DEPENDS.get(own):
        deps_info = [{'property': d, 'part': kw or 'all'} for d, kw in DEPENDS[own]]
        ctx.extra = dict(ctx.extra)
        ctx.extra.update(own_extra)
        ctx.extra['functions'] = merged_functions
        ctx.extra['dependency_phases'] = deps_info
        ctx.replayers = ctx.phase_replayers[0]
        ctx.phase = 0


def main(argv=None):
    argv = list(sys.argv[1:] if argv is None else argv)
    if not argv:
        print('usage: check <Cxx> [--tier quick|thorough] [--replay FILE]')
        return 3
    pid = argv[0]
    tier = os.environ.get('VERIF_TIER', 'quick')
    if '--tier' in argv:
        tier = argv[argv.index('--tier') + 1]
    if tier not in ('quick', 'thorough'):
        tier = 'quick'
    try:
        seed = int(os.environ.get('VERIF_SEED', '0'))
    except ValueError:
        seed = 0
    if '--replay' in argv:
        from . import replay
        return replay.replay_file(argv[argv.index('--replay') + 1])
    t0 = time.time()
    ctx = Ctx(pid, tier, seed)
    evidence_path = os.path.join(os.environ.get('PYVC_EVIDENCE_DIR', os.path.join(VERIF, 'evidence')),
                                 '%s.json' % pid)
    try:
        load_sidecars()
        mod = importlib.import_module('pyvc.props.%s' % pid.lower())
        mod.run(ctx)
        ctx.run_explorations()
        run_dependencies(ctx)
        if not ctx.obligations:
            raise CheckerError('zero obligations for %s' % pid)
        # obligations produced by the parallel explorer are already solved in the workers;
        # anything a driver added directly is discharged here
        todo = [o for o in ctx.obligations if getattr(o, 'verdict', None) is None]
        stats = discharge.discharge(todo, cross_check_all=(tier == 'thorough')) if todo else {}
        stats = dict(stats)
        for o in ctx.obligations:
            info = getattr(o, 'solver', None) or {}
            if o in todo:
                continue
            if info.get('trivial'):
                stats['trivial'] = stats.get('trivial', 0) + 1
            elif o.verdict == 'proved':
                k = 'z3_proved' if info.get('z3') == 'unsat' else 'cvc5_proved'
                stats[k] = stats.get(k, 0) + 1
            elif o.verdict == 'refuted':
                stats['refuted'] = stats.get('refuted', 0) + 1
            else:
                stats['undecided'] = stats.get('undecided', 0) + 1
            stats['z3_s'] = stats.get('z3_s', 0.0) + (info.get('z3_s') or 0.0)
            stats['cvc5_s'] = stats.get('cvc5_s', 0.0) + (info.get('cvc5_s') or 0.0)
        stats.update({'explore_' + k: v for k, v in ctx.explore_stats.items() if k != 'explore_wall'})
        stats['explore_wall_s'] = ctx.explore_stats.get('explore_wall', 0.0)
        ctx.stats = stats
        if hasattr(mod, 'after_discharge'):
            mod.after_discharge(ctx)
        if tier == 'thorough':
            # bounded CPython cross-checks registered by the property (labelled bounded, never counted as
            # proof): the native search of the replay harness run unconditionally.  A failing input found
            # natively while every obligation was proved means the engine or a model is unsound.
            from . import replay as _replay
            any_refuted = any(o.verdict == 'refuted' for o in ctx.obligations)
            for script, payload, what in getattr(ctx, 'native_crosschecks', []):
                r = _replay._run_native(script, payload, timeout=900)
                ok = 'error' not in r and not r.get('reproduced')
                ctx.bounded.append({'what': 'CPython cross-check: ' + what, 'bound': r.get('bound', ''),
                                    'evaluations': r.get('evaluations', 0), 'ok': ok,
                                    'failures': (r.get('failures') or [r.get('error')])[:3] if not ok else []})
                if not ok and not any_refuted:
                    ctx.audits.append(('native cross-check %s' % script, False,
                                       'fails natively although every obligation was proved: %r'
                                       % ((r.get('failures') or [r])[:2],)))
    except (Unsupported, CheckerError) as e:
        print('CHECKER-ERROR property=%s %s: %s' % (pid, e.__class__.__name__, e))
        traceback.print_exc()
        write_evidence(ctx, evidence_path, error=str(e))
        return 3
    except Exception as e:
        print('CHECKER-ERROR property=%s crash: %r' % (pid, e))
        traceback.print_exc()
        write_evidence(ctx, evidence_path, error=repr(e))
        return 3

    known = load_known()
    refuted = [o for o in ctx.obligations if o.verdict == 'refuted']
    undecided = [o for o in ctx.obligations if o.verdict == 'undecided']
    failed_audits = [a for a in ctx.audits if not a[1]]
    violations = []
    known_hits = {}
    for ob in refuted:
        f = match_known(known, pid, ob)
        if f is not None:
            known_hits.setdefault(f.get('obligation'), (f, []))[1].append(ob)
        else:
            violations.append(ob)
    for pat, (f, obs) in sorted(known_hits.items()):
        print('KNOWN-FINDING: property=%s %s [%s; %d obligation instance(s)]' %
              (pid, f.get('what', ''), f.get('obligation'), len(obs)))
    rc = 0
    if violations:
        from . import replay
        groups = {}
        for ob in violations:
            groups.setdefault(stable_name(ob.name), []).append(ob)
        for name, obs in sorted(groups.items()):
            path, reproduced = replay.write_replay(ctx, name, obs)
            tail = '' if reproduced else ' no-failing-input-found'
            print('VIOLATION property=%s replay=%s obligation=%s%s' % (pid, path, name, tail))
        rc = 1
    elif getattr(ctx, 'path_errors', None):
        print('CHECKER-ERROR property=%s %d path(s) left the supported subset or crashed; first: %s'
              % (pid, len(ctx.path_errors), ctx.path_errors[0]))
        rc = 3
    elif failed_audits:
        for a in failed_audits:
            print('AUDIT-FAILED property=%s %s: %s' % (pid, a[0], a[2]))
        rc = 3
    elif undecided:
        seen = set()
        for ob in undecided:
            n = stable_name(ob.name)
            if n in seen:
                continue
            seen.add(n)
            print('UNDECIDED property=%s obligation=%s (%s)' % (pid, n, ob.detail))
        rc = 2
    ctx.violations = len(set(stable_name(o.name) for o in violations))
    write_evidence(ctx, evidence_path)
    n = len(ctx.obligations)
    proved = len([o for o in ctx.obligations if o.verdict == 'proved'])
    print('%s: %d obligations, %d proved, %d refuted (%d known), %d undecided; %d functions; %.1fs'
          % (pid, n, proved, len(refuted), len(refuted) - len(violations), len(undecided),
             len(ctx.results), time.time() - t0))
    return rc


def write_evidence(ctx, path, error=None):
    obs = ctx.obligations
    proved = [o for o in obs if o.verdict == 'proved']
    stats = getattr(ctx, 'stats', {}) or {}
    samples = []
    for o in obs[:3] + obs[len(obs) // 2: len(obs) // 2 + 2]:
        samples.append({'obligation': o.name, 'kind': o.kind, 'verdict': o.verdict,
                        'goal': (getattr(o, 'goal_str', None) or str(z3.simplify(o.goal)))[:400],
                        'hypotheses': len(o.hyps)})
    samples.extend(ctx.samples[:5])
    functions = [dict(r.info, paths=r.paths, cases=r.cases,
                      obligations=getattr(r, 'n_obligations', len(r.obligations)),
                      seconds=round(r.seconds, 2)) for r in ctx.results if r.info]
    known = load_known()
    ev = {
        'property_id': ctx.pid,
        'tier': ctx.tier,
        'seed': ctx.seed,
        'level': 'proof',
        'coverage': {
            # the proof-level claim covers the obligations that are not recorded known findings;
            # those are counted separately (they are refuted on every run and reported as KNOWN-FINDING)
            'obligations': len(obs) - len([o for o in obs if o.verdict == 'refuted' and match_known(known, ctx.pid, o)]),
            'discharged': len(proved),
            'obligations_generated': len(obs),
            'known_finding_obligations': len([o for o in obs if o.verdict == 'refuted' and match_known(known, ctx.pid, o)]),
            'checker_cmd': './check %s --tier %s' % (ctx.pid, ctx.tier),
            'trusted_base': ctx.trusted_base + [
                'pyvc symbolic interpreter and VC generator (/verif/pyvc), induction principle for loop invariants',
                'z3 %s (Python API) and cvc5 1.0.3 (CLI) as back ends' % z3.get_version_string(),
                'models of builtins / struct / BytesIO / dict in pyvc/builtins.py (audited natively, bounded)',
            ],
            'samples': samples or [{'note': 'no obligations generated'}],
            'functions_under_contract': functions,
            'refuted': sorted(set(stable_name(o.name) for o in obs if o.verdict == 'refuted')),
            'undecided': sorted(set(stable_name(o.name) for o in obs if o.verdict == 'undecided')),
            'known_findings_matched': sorted(set(
                stable_name(o.name) for o in obs if o.verdict == 'refuted' and match_known(known, ctx.pid, o))),
            'back_ends': {k: (round(v, 3) if isinstance(v, float) else v) for k, v in stats.items()},
            'bounded_stand_ins': ctx.bounded,
            'audits': [{'name': a[0], 'ok': a[1], 'detail': a[2]} for a in ctx.audits],
            'assumption_scan': scan_assumption_keywords(),
            'source_tree': ctx.repo,
            'explanation': 'every obligation is (path condition /\\ lemma instances) => goal, generated by '
                           'symbolic execution of the real function bodies read from the working tree on this run',
        },
        'assumptions': ctx.assumptions + list(ctx.registry.assumptions),
        'wall_s': round(time.time() - ctx.t0, 2),
        'violations': getattr(ctx, 'violations', 0),
    }
    ev['coverage'].update(ctx.extra)
    if error:
        ev['coverage']['checker_error'] = error
    os.makedirs(os.path.dirname(path), exist_ok=True)
    with open(path, 'w') as fh:
        json.dump(ev, fh, indent=1, default=str)
