"""Symbolic interpreter over the Python AST of the real repository files.

One `Interp` holds the loaded modules (their top level is executed once, concretely).  A
verification run executes one function per path under a `Path` (see path.py); symbolic
branches are decided by the path's decision prefix.
"""
import ast
import os
import z3

from . import smt
from .values import *   # noqa: F401,F403
from .values import (Unsupported, PathEnd, Raised, ReturnSignal, BreakSignal, ContinueSignal,
                     GeneratorStop, ModuleVal, ClassVal, FuncVal, BoundMethod, PropertyVal, Builtin,
                     Obj, ExcVal, ListVal, NamedTupleClass, NamedTupleVal, StructVal, Opaque,
                     DictVal, SetVal, Stream, SeqVal, Packed, GenVal, IterSource)
from .path import Path


class Frame(object):
    def __init__(self, func, module, closure=None, qualname='<module>'):
        self.locals = {}
        self.func = func
        self.module = module
        self.closure = closure
        self.qualname = qualname
        self.loop_ordinal = 0
        self.yield_handler = None
        self.is_module = False
        self.globals_decl = set()

    def lookup(self, name):
        f = self
        while f is not None:
            if name in f.locals:
                return f.locals[name], True
            f = f.closure
        return None, False


def _contains_yield(node):
    for n in ast.walk(node):
        if isinstance(n, (ast.Yield, ast.YieldFrom)):
            # make sure it is not inside a nested function
            return True
    return False


def _own_yield(fnode):
    """True if fnode's own body (not nested defs) contains yield."""
    stack = list(fnode.body)
    while stack:
        n = stack.pop()
        if isinstance(n, (ast.FunctionDef, ast.Lambda, ast.ClassDef)):
            continue
        if isinstance(n, (ast.Yield, ast.YieldFrom)):
            return True
        stack.extend(ast.iter_child_nodes(n))
    return False


class Mode(object):
    """Policy: which callees are inlined, which are replaced by their contract."""

    def __init__(self, inline_all=True):
        self.inline_all = inline_all
        self.by_contract = set()    # qualnames applied by contract
        self.target = None          # qualname currently being verified (always executed)

    def use_contract(self, func):
        q = func.qualname
        if q == self.target:
            return False
        return q in self.by_contract


class Interp(object):
    def __init__(self, repo_root, package='pynetdicom2', extra_roots=None):
        self.repo_root = repo_root
        self.package = package
        self.extra_roots = extra_roots or {}
        self.modules = {}
        self.model_modules = {}
        self.builtins = {}
        self.contracts = {}        # qualname -> Contract
        self.types = None          # TypeEnv
        self.mode = Mode()
        self.p = None              # current Path
        self.load_path = Path([], 'load')
        self.base_facts = []
        self.sources = {}          # module name -> source text
        self.method_models = {}    # (kind, name) -> Builtin for methods of python-level values
        self.depth = 0
        self.loop_specs = {}       # (qualname, ordinal) -> LoopSpec
        self.hooks = {}            # misc driver hooks
        self.spec_mode = False
        self.spec_prelude = {}
        from . import builtins as _b
        _b.install(self)

    # ------------------------------------------------------------------ loading
    def module_file(self, modname):
        if modname in self.extra_roots:
            return self.extra_roots[modname]
        parts = modname.split('.')
        base = os.path.join(self.repo_root, *parts)
        if os.path.isdir(base):
            return os.path.join(base, '__init__.py')
        return base + '.py'

    def load_module(self, modname):
        if modname in self.modules:
            return self.modules[modname]
        if modname in self.model_modules:
            return self.model_modules[modname]
        path = self.module_file(modname)
        if not os.path.exists(path):
            return self.opaque_module(modname)
        if '.' in modname:
            # Python imports the parent package first
            parent = modname.rsplit('.', 1)[0]
            if parent not in self.modules and os.path.exists(self.module_file(parent)):
                self.load_module(parent)
                if modname in self.modules:
                    return self.modules[modname]
        with open(path, 'r') as fh:
            src = fh.read()
        self.sources[modname] = src
        tree = ast.parse(src, path)
        mod = ModuleVal(modname, {}, path)
        mod.attrs['__name__'] = modname
        self.modules[modname] = mod
        frame = Frame(None, mod, None, modname.split('.')[-1])
        frame.locals = mod.attrs
        frame.is_module = True
        saved = self.p
        self.p = self.load_path
        try:
            self.exec_block(tree.body, frame)
        finally:
            self.p = saved
        return mod

    def opaque_module(self, modname):
        m = ModuleVal(modname, {}, None)
        m.opaque = True
        self.model_modules[modname] = m
        return m

    # ------------------------------------------------------------------ helpers
    def unsupported(self, node, msg):
        line = getattr(node, 'lineno', '?')
        raise Unsupported('%s (line %s)' % (msg, line))

    def raise_exc(self, clsname, *args):
        cls = self.builtins[clsname] if isinstance(clsname, str) else clsname
        raise Raised(ExcVal(cls, args))

    def new_path(self, prefix, label=''):
        p = Path(prefix, label)
        for f in self.base_facts:
            p.facts.add(f)
        for f in self.load_path.facts.items:
            p.facts.add(f)
        return p

    # ------------------------------------------------------------------ statements
    def exec_block(self, stmts, frame):
        for s in stmts:
            self.exec_stmt(s, frame)

    def exec_stmt(self, node, frame):
        m = getattr(self, 'exec_' + node.__class__.__name__, None)
        if m is None:
            self.unsupported(node, 'statement %s' % node.__class__.__name__)
        return m(node, frame)

    def exec_Expr(self, node, frame):
        if isinstance(node.value, ast.Constant) and isinstance(node.value.value, str):
            return  # docstring
        self.eval(node.value, frame)

    def exec_Pass(self, node, frame):
        pass

    def exec_Assert(self, node, frame):
        v = self.eval(node.test, frame)
        if not self.truthy(v):
            self.raise_exc('AssertionError')

    def exec_Global(self, node, frame):
        frame.globals_decl.update(node.names)

    def exec_Import(self, node, frame):
        for alias in node.names:
            mod = self.import_module(alias.name, frame, 0)
            if alias.asname:
                frame.locals[alias.asname] = mod
            else:
                top = alias.name.split('.')[0]
                frame.locals[top] = self.import_module(top, frame, 0)

    def import_module(self, name, frame, level):
        if level:
            cur = frame.module.name
            is_pkg = frame.module.path and frame.module.path.endswith('__init__.py')
            parts = cur.split('.')
            if not is_pkg:
                parts = parts[:-1]
            if level > 1:
                parts = parts[:-(level - 1)]
            full = '.'.join(parts + ([name] if name else []))
        else:
            full = name
        if full in self.model_modules:
            return self.model_modules[full]
        if full == self.package or full.startswith(self.package + '.') or full in self.extra_roots:
            return self.load_module(full)
        return self.opaque_module(full)

    def exec_ImportFrom(self, node, frame):
        if node.module == '__future__':
            return
        mod = self.import_module(node.module or '', frame, node.level)
        for alias in node.names:
            if alias.name == '*':
                for k, v in mod.attrs.items():
                    if not k.startswith('_'):
                        frame.locals[k] = v
                continue
            if alias.name in mod.attrs:
                v = mod.attrs[alias.name]
            else:
                # maybe a submodule
                sub = (mod.name + '.' + alias.name)
                if os.path.exists(self.module_file(sub)) or sub in self.model_modules:
                    v = self.import_module(sub, frame, 0)
                elif getattr(mod, 'opaque', False):
                    v = Opaque(sub)
                else:
                    raise Unsupported('cannot import %s from %s' % (alias.name, mod.name))
            frame.locals[alias.asname or alias.name] = v

    def exec_FunctionDef(self, node, frame):
        fv = self.make_function(node, frame)
        val = fv
        for dec in reversed(node.decorator_list):
            val = self.apply_decorator(dec, val, frame)
        frame.locals[node.name] = val

    def make_function(self, node, frame, owner=None):
        name = getattr(node, 'name', '<lambda>')
        closure = None if frame.is_module or getattr(frame, 'is_class', False) else frame
        fv = FuncVal(name, node, frame.module, closure, 'plain', owner)
        if closure is not None:
            fv.nested_in = frame.qualname
        args = node.args
        fv.defaults = [self.eval(d, frame) for d in args.defaults]
        fv.kw_defaults = [None if d is None else self.eval(d, frame) for d in args.kw_defaults]
        if isinstance(node, ast.FunctionDef):
            fv.is_generator = _own_yield(node)
        return fv

    def apply_decorator(self, dec, val, frame):
        if isinstance(dec, ast.Name) and dec.id in ('property', 'classmethod', 'staticmethod'):
            if dec.id == 'property':
                return PropertyVal(val)
            val.kind = dec.id
            return val
        if isinstance(dec, ast.Attribute) and dec.attr == 'setter':
            prop = self.eval(dec.value, frame)
            if not isinstance(prop, PropertyVal):
                self.unsupported(dec, 'setter on non-property')
            return PropertyVal(prop.fget, val)
        d = self.eval(dec, frame)
        return self.call(d, [val], {})

    def exec_ClassDef(self, node, frame):
        bases = []
        for b in node.bases:
            bv = self.eval(b, frame)
            if isinstance(bv, ClassVal):
                bases.append(bv)
            elif isinstance(bv, Opaque) or bv is None:
                bases.append(self.builtins['object'])
            else:
                self.unsupported(node, 'base class %r' % (bv,))
        if not bases:
            bases = [self.builtins['object']]
        cframe = Frame(None, frame.module, frame if not frame.is_module else None, node.name)
        cframe.is_class = True
        cframe.is_module = False
        # class bodies see module globals, not enclosing function locals of methods
        cls = ClassVal(node.name, bases, cframe.locals, frame.module.name.split('.')[-1], node)
        cframe.qualname = (frame.qualname + '.' + node.name) if not frame.is_module else \
            frame.module.name.split('.')[-1] + '.' + node.name
        for s in node.body:
            if isinstance(s, ast.FunctionDef):
                fv = self.make_function(s, cframe, owner=cls)
                fv.closure = None
                val = fv
                for dec in reversed(s.decorator_list):
                    val = self.apply_decorator(dec, val, cframe)
                cframe.locals[s.name] = val
            else:
                self.exec_stmt(s, cframe)
        for dec in reversed(node.decorator_list):
            cls = self.call(self.eval(dec, frame), [cls], {})
        frame.locals[node.name] = cls

    def exec_Return(self, node, frame):
        raise ReturnSignal(None if node.value is None else self.eval(node.value, frame))

    def exec_Break(self, node, frame):
        raise BreakSignal()

    def exec_Continue(self, node, frame):
        raise ContinueSignal()

    def exec_If(self, node, frame):
        if self.truthy(self.eval(node.test, frame)):
            self.exec_block(node.body, frame)
        else:
            self.exec_block(node.orelse, frame)

    def exec_Assign(self, node, frame):
        v = self.eval(node.value, frame)
        for t in node.targets:
            self.assign(t, v, frame)

    def exec_AnnAssign(self, node, frame):
        if node.value is not None:
            self.assign(node.target, self.eval(node.value, frame), frame)

    def exec_AugAssign(self, node, frame):
        load = ast.copy_location(_to_load(node.target), node)
        cur = self.eval(load, frame)
        rhs = self.eval(node.value, frame)
        if isinstance(node.op, ast.Add) and isinstance(cur, ListVal):
            # list += iterable mutates in place
            self.list_extend(cur, rhs)
            return
        self.assign(node.target, self.binop(node.op, cur, rhs, node), frame)

    def exec_Delete(self, node, frame):
        self.unsupported(node, 'del')

    def assign(self, target, v, frame):
        if isinstance(target, ast.Name):
            if target.id in frame.globals_decl:
                frame.module.attrs[target.id] = v
            else:
                frame.locals[target.id] = v
        elif isinstance(target, ast.Attribute):
            obj = self.eval(target.value, frame)
            self.setattr(obj, target.attr, v)
        elif isinstance(target, ast.Subscript):
            obj = self.eval(target.value, frame)
            key = self.eval_slice(target.slice, frame)
            self.setitem(obj, key, v)
        elif isinstance(target, (ast.Tuple, ast.List)):
            items = self.unpack(v, len(target.elts), target)
            for t, x in zip(target.elts, items):
                self.assign(t, x, frame)
        else:
            self.unsupported(target, 'assignment target %s' % target.__class__.__name__)

    def unpack(self, v, n, node=None):
        if isinstance(v, tuple):
            items = list(v)
        elif isinstance(v, ListVal):
            items = list(v.items)
        elif isinstance(v, NamedTupleVal):
            items = list(v.values)
        else:
            items = []
            self.iterate(v, items.append)
        if len(items) != n:
            self.raise_exc('ValueError', 'unpack: expected %d values, got %d' % (n, len(items)))
        return items

    def exec_Raise(self, node, frame):
        if node.exc is None:
            cur = getattr(frame, 'current_exc', None)
            f = frame
            while cur is None and f.closure is not None:
                f = f.closure
                cur = getattr(f, 'current_exc', None)
            if cur is None:
                self.raise_exc('RuntimeError', 'No active exception to reraise')
            raise Raised(cur)
        e = self.eval(node.exc, frame)
        if isinstance(e, ClassVal):
            e = self.instantiate(e, [], {})
        if not isinstance(e, Obj):
            self.unsupported(node, 'raise of %r' % (e,))
        raise Raised(e)

    def exc_matches(self, exc, handler_type, frame):
        if handler_type is None:
            return True
        t = self.eval(handler_type, frame)
        types = t if isinstance(t, tuple) else (t,)
        for ty in types:
            if isinstance(ty, ClassVal) and exc.cls.is_subclass(ty):
                return True
            if isinstance(ty, Opaque):
                raise Unsupported('except clause with opaque type %s' % ty.name)
        return False

    def exec_Try(self, node, frame):
        def run_finally():
            if node.finalbody:
                self.exec_block(node.finalbody, frame)
        try:
            try:
                self.exec_block(node.body, frame)
            except Raised as r:
                for h in node.handlers:
                    if self.exc_matches(r.exc, h.type, frame):
                        if h.name:
                            frame.locals[h.name] = r.exc
                        saved = getattr(frame, 'current_exc', None)
                        frame.current_exc = r.exc
                        try:
                            self.exec_block(h.body, frame)
                        finally:
                            frame.current_exc = saved
                        break
                else:
                    raise
            else:
                self.exec_block(node.orelse, frame)
        except (Raised, ReturnSignal, BreakSignal, ContinueSignal, GeneratorStop):
            run_finally()
            raise
        else:
            run_finally()

    def exec_With(self, node, frame):
        if len(node.items) != 1:
            self.unsupported(node, 'with: several items')
        item = node.items[0]
        cm = self.eval(item.context_expr, frame)
        self.with_protocol(cm, item.optional_vars, node.body, frame, node)

    def with_protocol(self, cm, target, body, frame, node):
        if isinstance(cm, GenVal) and cm.func.is_contextmanager:
            state = {'entered': False}

            def handler(v):
                if state['entered']:
                    self.raise_exc('RuntimeError', "generator didn't stop")
                state['entered'] = True
                if target is not None:
                    self.assign(target, v, frame)
                self.exec_block(body, frame)
                return None
            self.run_generator(cm, handler)
            if not state['entered']:
                self.raise_exc('RuntimeError', "generator didn't yield")
            return
        enter = self.getattr(cm, '__enter__', default=None)
        if enter is None:
            self.unsupported(node, 'with on %r' % (cm,))
        v = self.call(enter, [], {})
        if target is not None:
            self.assign(target, v, frame)
        exit_ = self.getattr(cm, '__exit__')
        try:
            self.exec_block(body, frame)
        except Raised as r:
            sup = self.call(exit_, [r.exc.cls, r.exc, None], {})
            if not self.truthy(sup):
                raise
            return
        except (ReturnSignal, BreakSignal, ContinueSignal):
            self.call(exit_, [None, None, None], {})
            raise
        self.call(exit_, [None, None, None], {})

    # ------------------------------------------------------------------ loops
    def loop_key(self, frame):
        k = (frame.qualname, frame.loop_ordinal)
        return k

    def exec_While(self, node, frame):
        ordinal = self._loop_ordinal(node, frame)
        spec = self.loop_specs.get((frame.qualname, ordinal))
        if spec is not None and self.loop_spec_active(spec):
            return self.exec_loop_with_spec(node, frame, spec, kind='while')
        n = 0
        symbolic_rounds = 0
        while True:
            decisions0 = len(getattr(self.p, 'taken', ()))
            cond = self.eval(node.test, frame)
            concrete = smt.as_concrete_bool(cond) if not isinstance(cond, (bool, int, type(None))) else None
            if not self.truthy(cond):
                self.exec_block(node.orelse, frame)
                return
            n += 1
            if len(getattr(self.p, 'taken', ())) > decisions0:
                # the guard was decided by a symbolic branch: a loop without a specification is unrolled
                # a few times only (every round doubles the paths); beyond that it needs an invariant
                symbolic_rounds += 1
                if symbolic_rounds > 2 and self.p is not self.load_path:
                    raise Unsupported('loop %s:%d with a symbolic guard needs an invariant (unrolled %d times)' %
                                      (frame.qualname, ordinal, n - 1))
            if n > self.unroll_limit(frame):
                raise Unsupported('loop %s:%d needs an invariant (unrolled %d times)' %
                                  (frame.qualname, ordinal, n - 1))
            try:
                self.exec_block(node.body, frame)
            except BreakSignal:
                return
            except ContinueSignal:
                continue

    def unroll_limit(self, frame):
        return self.hooks.get('unroll_limit', 70000 if self.p is self.load_path else 64)

    def loop_spec_active(self, spec):
        return True

    def _loop_ordinal(self, node, frame):
        """ordinal of a loop statement within its function (source order)."""
        fn = frame.func.node if frame.func is not None else None
        if fn is None:
            return -1
        cache = getattr(frame.func, '_loops', None)
        if cache is None:
            cache = []
            stack = list(reversed(fn.body)) if isinstance(fn, ast.FunctionDef) else []
            # source order traversal without entering nested functions/classes

            def visit(n):
                if isinstance(n, (ast.FunctionDef, ast.Lambda, ast.ClassDef)):
                    return
                if isinstance(n, (ast.For, ast.While)):
                    cache.append(n)
                for c in ast.iter_child_nodes(n):
                    visit(c)
            if isinstance(fn, ast.FunctionDef):
                for s in fn.body:
                    visit(s)
            frame.func._loops = cache
        for i, n in enumerate(cache):
            if n is node:
                return i
        return -1

    def exec_For(self, node, frame):
        ordinal = self._loop_ordinal(node, frame)
        spec = self.loop_specs.get((frame.qualname, ordinal))
        it = self.norm_iterable(self.eval(node.iter, frame))
        if self._accelerate_dict_fill(node, it, frame):
            return
        if spec is not None and self.loop_spec_active(spec) and not self._concrete_iterable(it):
            return self.exec_loop_with_spec(node, frame, spec, kind='for', iterable=it)
        broke = [False]

        def body(x):
            self.assign(node.target, x, frame)
            try:
                self.exec_block(node.body, frame)
            except ContinueSignal:
                return
        try:
            self.iterate(it, body, frame=frame, where=(frame.qualname, ordinal))
        except BreakSignal:
            return
        self.exec_block(node.orelse, frame)

    def _accelerate_dict_fill(self, node, itv, frame):
        """Loop summarisation (engine rule):   for i in range(lo, hi): D[(e1, .., ek, i)] = v
        with e1..ek and v not mentioning i  ==  one range binding of D for lo <= i < hi.
        Exact for the dictionary model (later bindings shadow earlier ones, a range binding
        binds every key of the range).  Returns True when the loop was summarised."""
        if not (isinstance(itv, IterSource) and itv.kind == 'range'):
            return False
        lo, hi, st = itv.data
        if smt.as_concrete_int(st) != 1:
            return False
        clo, chi = smt.as_concrete_int(lo), smt.as_concrete_int(hi)
        if clo is not None and chi is not None and chi - clo < 8:
            return False       # short concrete ranges are simply unrolled
        if node.orelse or len(node.body) != 1 or not isinstance(node.target, ast.Name):
            return False
        s = node.body[0]
        if not (isinstance(s, ast.Assign) and len(s.targets) == 1 and isinstance(s.targets[0], ast.Subscript)
                and isinstance(s.targets[0].value, ast.Name)):
            return False
        var = node.target.id

        def mentions(n):
            return any(isinstance(x, ast.Name) and x.id == var for x in ast.walk(n))
        key = s.targets[0].slice
        if isinstance(key, ast.Name) and key.id == var:
            prefix_nodes = []
        elif isinstance(key, ast.Tuple) and key.elts and isinstance(key.elts[-1], ast.Name) \
                and key.elts[-1].id == var and not any(mentions(e) for e in key.elts[:-1]):
            prefix_nodes = key.elts[:-1]
        else:
            return False
        if mentions(s.value):
            return False
        d = self.eval(s.targets[0].value, frame)
        if not isinstance(d, DictVal):
            return False
        from .values import int_term
        if clo is None or chi is None:
            if self.p.branch(int_term(lo) >= int_term(hi)):
                return True            # empty range: the body is never evaluated
        elif clo >= chi:
            return True
        prefix = [self.eval(e, frame) for e in prefix_nodes]
        v = self.eval(s.value, frame)
        from . import dicts
        last = (chi - 1) if chi is not None else z3.simplify(int_term(hi) - 1)
        dicts.dict_range_update(self, d, prefix, lo, last, v)
        self.assign(node.target, last, frame)
        return True

    def _concrete_iterable(self, it):
        """iterables whose length is known: the loop is unrolled, a loop spec is not needed"""
        if isinstance(it, (tuple, ListVal, bytes, str, NamedTupleVal, DictVal)):
            return True
        if isinstance(it, IterSource):
            if it.kind == 'range':
                return all(smt.as_concrete_int(x) is not None for x in it.data)
            if it.kind in ('genexpr0', 'seqmap'):
                return self._concrete_iterable(it.data[1])
            if it.kind in ('iter',):
                return self._concrete_iterable(it.data)
            if it.kind in ('zip', 'chain'):
                return all(self._concrete_iterable(a) or (isinstance(a, IterSource) and a.kind == 'count')
                           for a in it.data)
        if isinstance(it, SeqVal):
            return smt.as_concrete_int(z3.Length(it.term)) is not None
        return False

    def exec_loop_with_spec(self, node, frame, spec, kind, iterable=None):
        from .loops import run_loop_with_spec
        return run_loop_with_spec(self, node, frame, spec, kind, iterable)

    def norm_iterable(self, v):
        """an HList is iterated as a concrete list (no segments) or as its single segment"""
        if isinstance(v, HList):
            if not v.segments():
                return ListVal(v.parts)
            if len(v.parts) == 1:
                return v.parts[0].seq
            raise Unsupported('iteration over a list mixing known elements and symbolic segments')
        return v

    def iterate(self, it, body, frame=None, where=None):
        """Internal iteration: call body(x) for each element; BreakSignal propagates."""
        it = self.norm_iterable(it)
        if isinstance(it, (tuple, list)):
            for x in list(it):
                body(x)
        elif isinstance(it, ListVal):
            i = 0
            while i < len(it.items):
                body(it.items[i])
                i += 1
        elif isinstance(it, NamedTupleVal):
            for x in it.values:
                body(x)
        elif isinstance(it, bytes):
            for x in it:
                body(x)
        elif isinstance(it, str):
            for x in it:
                body(x)
        elif isinstance(it, DictVal):
            for k in self.dict_keys(it):
                body(k)
        elif isinstance(it, SetVal):
            if it.member is not None:
                raise Unsupported('iteration over symbolic set')
            for x in list(it.items):
                body(x)
        elif isinstance(it, GenVal):
            self.run_generator(it, lambda v: body(v))
        elif isinstance(it, IterSource):
            self.iterate_source(it, body)
        elif isinstance(it, SeqVal):
            n = smt.as_concrete_int(z3.Length(it.term))
            if n is None and self.p.must(z3.Length(it.term) == 0):
                n = 0
            if n is None:
                raise Unsupported('iteration over symbolic sequence needs a loop spec at %r' % (where,))
            for i in range(n):
                body(self.seq_index(it, i))
        else:
            raise Unsupported('iteration over %r' % (it,))

    def iterate_source(self, src, body):
        kind = src.kind
        if kind == 'range':
            lo, hi, step = src.data
            clo, chi, cst = (smt.as_concrete_int(x) for x in (lo, hi, step))
            if None in (clo, chi, cst):
                raise Unsupported('symbolic range needs a loop spec')
            if cst == 0:
                self.raise_exc('ValueError', 'range() arg 3 must not be zero')
            for i in range(clo, chi, cst):
                body(i)
        elif kind == 'genexpr0':
            node, first, sub = src.data
            self._comp(node, first, sub, lambda fr: body(self.eval(node.elt, fr)))
        elif kind == 'zip':
            lists = []
            for a in src.data:
                if isinstance(a, IterSource) and a.kind == 'count':
                    lists.append(a)
                else:
                    items = []
                    self.iterate(a, items.append)
                    lists.append(items)
            finite = [l for l in lists if isinstance(l, list)]
            if not finite:
                raise Unsupported('zip of infinite iterables')
            n = min(len(l) for l in finite)
            for i in range(n):
                row = []
                for l in lists:
                    if isinstance(l, list):
                        row.append(l[i])
                    else:
                        start, step = l.data
                        row.append(self.binop(ast.Add(), start, self.binop(ast.Mult(), step, i)))
                body(tuple(row))
        elif kind == 'chain':
            for a in src.data:
                self.iterate(a, body)
        elif kind == 'iter':
            self.iterate(src.data, body)
        elif kind == 'map':
            fn, arg = src.data
            self.iterate(arg, lambda x: body(self.call(fn, [x], {})))
        elif kind == 'enumerate':
            cnt = [src.data[1]]

            def b(x):
                i = cnt[0]
                cnt[0] = i + 1
                body((i, x))
            self.iterate(src.data[0], b)
        elif kind == 'count':
            raise Unsupported('iteration over itertools.count')
        else:
            raise Unsupported('iterate source %s' % kind)

    def run_comprehension(self, gens, idx, frame, emit):
        if idx == len(gens):
            emit(frame)
            return
        g = gens[idx]
        it = self.eval(g.iter, frame) if idx > 0 or not hasattr(g, '_pre') else g._pre

        def body(x):
            self.assign(g.target, x, frame)
            for cond in g.ifs:
                if not self.truthy(self.eval(cond, frame)):
                    return
            self.run_comprehension(gens, idx + 1, frame, emit)
        self.iterate(it, body, frame=frame)

    # ------------------------------------------------------------------ generators
    def run_generator(self, gen, handler):
        """Run the generator body to completion, calling handler(v) at each yield.
        handler may raise GeneratorStop/BreakSignal/ReturnSignal/Raised: they propagate
        through the generator body (running its finally clauses) like generator.close()/throw()."""
        if gen.consumed:
            return
        gen.consumed = True
        frame = gen.frame
        frame.yield_handler = handler
        try:
            self.exec_block(gen.func.node.body, frame)
        except ReturnSignal:
            pass

    def do_yield(self, value, frame):
        f = frame
        while f is not None and f.yield_handler is None:
            f = None
        if frame.yield_handler is None:
            raise Unsupported('yield outside a consumed generator in %s' % frame.qualname)
        # ghost trace of every yield, by generator (specifications of pipelines of generators refer
        # to what an inner generator handed to the one consuming it)
        self.p.trace.append(('gen-yield', frame.qualname, value))
        return frame.yield_handler(value)

    # ------------------------------------------------------------------ expressions
    def eval(self, node, frame):
        m = getattr(self, 'eval_' + node.__class__.__name__, None)
        if m is None:
            self.unsupported(node, 'expression %s' % node.__class__.__name__)
        return m(node, frame)

    def eval_Constant(self, node, frame):
        return node.value

    def eval_Name(self, node, frame):
        name = node.id
        if name not in frame.globals_decl:
            v, ok = frame.lookup(name)
            if ok:
                return v
        if self.spec_mode and name in self.spec_prelude:
            return self.spec_prelude[name]
        if name in frame.module.attrs:
            return frame.module.attrs[name]
        if name in self.builtins:
            return self.builtins[name]
        self.raise_exc('NameError', name)

    def eval_Attribute(self, node, frame):
        obj = self.eval(node.value, frame)
        return self.getattr(obj, node.attr)

    def eval_Tuple(self, node, frame):
        out = []
        for e in node.elts:
            if isinstance(e, ast.Starred):
                self.iterate(self.eval(e.value, frame), out.append)
            else:
                out.append(self.eval(e, frame))
        return tuple(out)

    def eval_List(self, node, frame):
        out = []
        for e in node.elts:
            if isinstance(e, ast.Starred):
                self.iterate(self.eval(e.value, frame), out.append)
            else:
                out.append(self.eval(e, frame))
        return ListVal(out)

    def eval_Set(self, node, frame):
        return SetVal([self.eval(e, frame) for e in node.elts])

    def eval_Dict(self, node, frame):
        d = DictVal()
        for k, v in zip(node.keys, node.values):
            if k is None:
                self.unsupported(node, 'dict unpacking')
            d.entries.append(('key', self.eval(k, frame), self.eval(v, frame)))
        return d

    def eval_Lambda(self, node, frame):
        fv = self.make_function(node, frame)
        if frame.is_module or getattr(frame, 'is_class', False):
            fv.closure = None
        else:
            fv.closure = frame
        return fv

    def eval_IfExp(self, node, frame):
        if self.spec_mode:
            c = self.eval(node.test, frame)
            if smt.is_bool_term(c) and smt.as_concrete_bool(c) is None:
                a = self.eval(node.body, frame)
                b = self.eval(node.orelse, frame)
                ta, tb = _ite_term(a), _ite_term(b)
                if ta is not None and tb is not None and ta.sort() == tb.sort():
                    return z3.If(c, ta, tb)
                raise Unsupported('spec if-else over non-term values')
            if self.truthy(c):
                return self.eval(node.body, frame)
            return self.eval(node.orelse, frame)
        if self.truthy(self.eval(node.test, frame)):
            return self.eval(node.body, frame)
        return self.eval(node.orelse, frame)

    def eval_BoolOp(self, node, frame):
        if self.spec_mode:
            from . import ops
            vals = []
            for e in node.values:
                v = self.eval(e, frame)
                if not (isinstance(v, bool) or smt.is_bool_term(v)):
                    v = self.truthy(v)
                vals.append(v)
                if isinstance(node.op, ast.And) and v is False:
                    return False
                if isinstance(node.op, ast.Or) and v is True:
                    return True
            return ops.conj(vals) if isinstance(node.op, ast.And) else ops.disj(vals)
        if isinstance(node.op, ast.And):
            v = True
            for e in node.values:
                v = self.eval(e, frame)
                if not self.truthy(v):
                    return v
            return v
        v = False
        for e in node.values:
            v = self.eval(e, frame)
            if self.truthy(v):
                return v
        return v

    def eval_UnaryOp(self, node, frame):
        v = self.eval(node.operand, frame)
        if isinstance(node.op, ast.Not):
            if self.spec_mode and smt.is_bool_term(v):
                return z3.Not(v)
            return not self.truthy(v)
        if isinstance(node.op, ast.USub):
            if isinstance(v, (int, bool)):
                return -v
            if smt.is_int_term(v):
                return -v
        if isinstance(node.op, ast.UAdd) and is_intlike(v):
            return v
        if isinstance(node.op, ast.Invert):
            # ~x == -x - 1 for every Python int
            if isinstance(v, (int, bool)):
                return ~int(v)
            if smt.is_int_term(v):
                return -v - 1
        self.unsupported(node, 'unary op')

    def eval_BinOp(self, node, frame):
        a = self.eval(node.left, frame)
        b = self.eval(node.right, frame)
        return self.binop(node.op, a, b, node)

    def eval_Compare(self, node, frame):
        left = self.eval(node.left, frame)
        result = True
        parts = []
        for op, rn in zip(node.ops, node.comparators):
            right = self.eval(rn, frame)
            r = self.compare(op, left, right, node)
            if len(node.ops) == 1:
                return r
            if self.spec_mode:
                parts.append(r)
            elif not self.truthy(r):
                return False
            left = right
        if self.spec_mode:
            from . import ops
            return ops.conj(parts)
        return result

    def eval_Call(self, node, frame):
        if self.spec_mode and isinstance(node.func, ast.Name) and node.func.id == 'old' and len(node.args) == 1:
            key = ast.dump(node.args[0])
            f = frame
            while f is not None:
                olds = getattr(f, 'olds', None)
                if olds is not None and key in olds:
                    return olds[key]
                f = f.closure
            raise Unsupported('old(%s) was not captured at entry' % ast.unparse(node.args[0]))
        fn = self.eval(node.func, frame)
        args = []
        for a in node.args:
            if isinstance(a, ast.Starred):
                self.iterate(self.eval(a.value, frame), args.append)
            else:
                args.append(self.eval(a, frame))
        kwargs = {}
        for k in node.keywords:
            if k.arg is None:
                d = self.eval(k.value, frame)
                if not isinstance(d, DictVal):
                    self.unsupported(node, '** of non-dict')
                for key in self.dict_keys(d):
                    kwargs[key] = self.dict_get(d, key)
            else:
                kwargs[k.arg] = self.eval(k.value, frame)
        if self.spec_mode and isinstance(node.func, ast.Name) and node.func.id == 'old':
            key = ast.dump(node.args[0])
            f = frame
            while f is not None:
                olds = getattr(f, 'olds', None)
                if olds is not None and key in olds:
                    return olds[key]
                f = f.closure
            raise Unsupported('old(%s) was not captured at entry' % ast.unparse(node.args[0]))
        # super() needs the frame
        if isinstance(fn, Builtin) and fn.name == 'super':
            return fn.fn(self, args, kwargs, frame)
        self.call_node = node
        return self.call(fn, args, kwargs)

    def eval_Subscript(self, node, frame):
        obj = self.eval(node.value, frame)
        key = self.eval_slice(node.slice, frame)
        return self.getitem(obj, key)

    def eval_slice(self, s, frame):
        if isinstance(s, ast.Slice):
            lo = None if s.lower is None else self.eval(s.lower, frame)
            hi = None if s.upper is None else self.eval(s.upper, frame)
            st = None if s.step is None else self.eval(s.step, frame)
            return slice(lo, hi, st)
        return self.eval(s, frame)

    def eval_ListComp(self, node, frame):
        sub = self.comp_frame(frame)
        first = self.norm_iterable(self.eval(node.generators[0].iter, frame))
        g0 = node.generators[0]
        if len(node.generators) == 1 and not g0.ifs and isinstance(g0.target, ast.Name) and \
                isinstance(node.elt, ast.Name) and node.elt.id == g0.target.id and isinstance(first, GenVal):
            # [x for x in gen] is list(gen)
            return self.call(self.builtins['list'], [first], {})
        if isinstance(first, SeqVal) and self.seq_len_unknown(first):
            return self.map_over_seq(node, first, sub)
        out = []
        self._comp(node, first, sub, lambda fr: out.append(self.eval(node.elt, fr)))
        return ListVal(out)

    def seq_len_unknown(self, sv):
        return smt.as_concrete_int(z3.Length(sv.term)) is None

    def _comp(self, node, first, sub, emit):
        g0 = node.generators[0]

        def body(x):
            self.assign(g0.target, x, sub)
            for cond in g0.ifs:
                if not self.truthy(self.eval(cond, sub)):
                    return
            self.run_comprehension(node.generators, 1, sub, emit)
        self.iterate(first, body, frame=sub)

    def comp_frame(self, frame):
        sub = Frame(frame.func, frame.module, frame, frame.qualname)
        sub.yield_handler = None
        return sub

    def eval_GeneratorExp(self, node, frame):
        sub = self.comp_frame(frame)
        first = self.norm_iterable(self.eval(node.generators[0].iter, frame))
        if isinstance(first, SeqVal) and self.seq_len_unknown(first):
            return IterSource('seqmap', (node, first, sub))
        g = node.generators[0]
        return IterSource('genexpr0', (node, first, sub))

    def eval_DictComp(self, node, frame):
        sub = self.comp_frame(frame)
        first = self.eval(node.generators[0].iter, frame)
        tbl = self._dictcomp_over_counted_seq(node, first, sub)
        if tbl is None:
            tbl = self._dictcomp_keyed_by_elements(node, first, frame)
        if tbl is None:
            tbl = self._dictcomp_over_abstract_values(node, first, sub)
        if tbl is not None:
            return tbl
        d = DictVal()
        fake = ast.ListComp(elt=node.key, generators=node.generators)

        def emit(fr):
            k = self.eval(node.key, fr)
            v = self.eval(node.value, fr)
            self.dict_set(d, k, v)
        self._comp(fake, first, sub, emit)
        return d

    def _dictcomp_keyed_by_elements(self, node, first, frame):
        """Engine rule:  {x: V for x in xs}  over a symbolic sequence xs of strings, V a name / attribute /
        constant that does not mention x: the dictionary whose keys are exactly the elements of xs, every
        one bound to V.  Returned as an abstractly given dictionary (membership = Contains(xs, <k>))."""
        g = node.generators[0]
        if len(node.generators) != 1 or g.ifs or not (isinstance(first, SeqVal) and self.seq_len_unknown(first)
                                                       and first.elem == 'str'):
            return None
        if not (isinstance(g.target, ast.Name) and isinstance(node.key, ast.Name) and node.key.id == g.target.id):
            return None
        if not isinstance(node.value, (ast.Name, ast.Attribute, ast.Constant)) or \
                any(isinstance(n, ast.Name) and n.id == g.target.id for n in ast.walk(node.value)):
            return None
        value = self.eval(node.value, frame)
        xs = first
        d = DictVal()
        d.size = None

        def base(it2, key):
            if isinstance(key, str):
                k = it2.p.facts.strlit(key)
            elif smt.is_z3(key) and smt.is_str_term(key):
                k = key
            elif isinstance(key, Obj) and smt.is_z3(key.fields.get('name')) and smt.is_str_term(key.fields['name']):
                k = key.fields['name']
            else:
                raise Unsupported('lookup in a dictionary keyed by the strings of a sequence with key %r' % (key,))
            if it2.p.branch(z3.Contains(xs.term, z3.Unit(k))):
                return True, value
            return False, None
        d.base = base
        return d

    def _dictcomp_over_abstract_values(self, node, first, sub):
        """Engine rule (over-approximation, sound for proving):  {K(x): V(x) for x in d.values()}  over an
        abstractly given dictionary d (integer keys).  A lookup either misses, or hits an x that is the value of
        *some* key of d with K(x) equal to the key looked up (which of several such x wins, and that a miss
        means no such x exists, is not modelled)."""
        g = node.generators[0]
        if len(node.generators) != 1 or g.ifs or not (isinstance(first, IterSource) and first.kind == 'dictvalues'):
            return None
        src = first.data
        interp = self
        d = DictVal()
        d.size = None

        def base(it2, key):
            from . import dicts, ops
            if not it2.p.branch(it2.p.fresh('comprehension_has_key', smt.Bool)):
                return False, None
            k0 = it2.p.fresh_int('some_key')
            found, x = dicts.lookup(it2, src, k0)
            if not found:
                raise PathEnd('the value comes from a key of the source dictionary')
            fr = interp.comp_frame(sub)
            interp.assign(g.target, x, fr)
            kx = interp.eval(node.key, fr)
            eq = ops.values_equal(it2, kx, key)
            if eq is False:
                raise PathEnd('key differs')
            if eq is not True:
                it2.p.assume(eq)
            return True, interp.eval(node.value, fr)
        d.base = base
        return d

    def _dictcomp_over_counted_seq(self, node, first, sub):
        """Engine rule:  {c: V(x, c) for x, c in zip(xs, count(a, s))}  over a symbolic sequence xs and a
        concrete step s > 0 is the dictionary with exactly the keys a, a+s, .., a+s*(|xs|-1), the
        key a+s*j bound to V(xs[j], a+s*j) (keys are pairwise distinct, so no binding shadows
        another).  Returned as an abstractly given dictionary (background function)."""
        g = node.generators[0]
        if len(node.generators) != 1 or g.ifs or not (isinstance(first, IterSource) and first.kind == 'zip'
                                                       and len(first.data) == 2):
            return None
        xs, cnt = first.data
        if not (isinstance(xs, SeqVal) and self.seq_len_unknown(xs) and isinstance(cnt, IterSource)
                and cnt.kind == 'count'):
            return None
        if not (isinstance(g.target, ast.Tuple) and len(g.target.elts) == 2 and
                all(isinstance(e, ast.Name) for e in g.target.elts) and isinstance(node.key, ast.Name)
                and node.key.id == g.target.elts[1].id):
            return None
        a, s = cnt.data
        s = smt.as_concrete_int(s)
        if s is None or s <= 0:
            return None
        from .values import int_term
        m = z3.Length(xs.term)
        at = int_term(a)
        d = DictVal()
        d.size = m
        d.keys_max = z3.simplify(at + s * (m - 1))
        interp = self

        def base(it2, key):
            k = int_term(key)
            cond = z3.And(k >= at, k < at + s * m, (k - at) % s == 0)
            if not it2.p.branch(cond):
                return False, None
            j = z3.simplify((k - at) / s)
            it2.p.assume(z3.And(j >= 0, j < m, at + s * j == k))
            x = it2.seq_index(xs, j)
            fr = interp.comp_frame(sub)
            interp.assign(g.target, (x, key), fr)
            return True, interp.eval(node.value, fr)
        d.base = base
        return d

    def eval_SetComp(self, node, frame):
        sub = self.comp_frame(frame)
        first = self.eval(node.generators[0].iter, frame)
        out = []
        self._comp(node, first, sub, lambda fr: out.append(self.eval(node.elt, fr)))
        return SetVal(out)

    def eval_Yield(self, node, frame):
        v = None if node.value is None else self.eval(node.value, frame)
        return self.do_yield(v, frame)

    def eval_JoinedStr(self, node, frame):
        return self.opaque_str('fstring')

    def eval_Starred(self, node, frame):
        self.unsupported(node, 'starred expression')

    def opaque_str(self, why):
        return self.p.fresh('str_' + why, smt.Str)

    def map_over_seq(self, node, seqv, sub):
        from .folds import map_over_seq
        return map_over_seq(self, node, seqv, sub)

    # ------------------------------------------------------------------ truthiness / operators
    def truthy(self, v):
        if v is None:
            return False
        if isinstance(v, bool):
            return v
        if isinstance(v, int):
            return v != 0
        if isinstance(v, (bytes, str, tuple)):
            return len(v) > 0
        if smt.is_bool_term(v):
            return self.p.branch(v)
        if smt.is_int_term(v):
            return self.p.branch(v != 0)
        if smt.is_bytes_term(v):
            return self.p.branch(z3.Length(v) > 0)
        if smt.is_str_term(v):
            return self.p.branch(self.p.facts.slen(v) > 0)
        if isinstance(v, ListVal):
            return len(v.items) > 0
        if isinstance(v, DictVal):
            return self.dict_truthy(v)
        if isinstance(v, SetVal):
            if v.member is not None:
                raise Unsupported('truthiness of symbolic set')
            return len(v.items) > 0
        if isinstance(v, SeqVal):
            return self.p.branch(z3.Length(v.term) > 0)
        if isinstance(v, HList):
            if any(not isinstance(x, Segment) for x in v.parts):
                return True
            return self.truthy(self.call(self.builtins['len'], [v], {}))
        if isinstance(v, NamedTupleVal):
            return len(v.values) > 0
        if isinstance(v, Obj):
            b, _ = v.cls.lookup('__bool__')
            if b is not None:
                return self.truthy(self.call(BoundMethod(v, b) if isinstance(b, FuncVal) else b, [] if isinstance(b, FuncVal) else [v], {}))
            l, _ = v.cls.lookup('__len__')
            if l is not None:
                n = self.call(BoundMethod(v, l) if isinstance(l, FuncVal) else l, [] if isinstance(l, FuncVal) else [v], {})
                return self.truthy(n)
            return True
        if isinstance(v, Stream):
            return True
        if isinstance(v, (FuncVal, ClassVal, BoundMethod, Builtin, ModuleVal, StructVal, GenVal,
                          IterSource, NamedTupleClass, Packed, PropertyVal)):
            return True
        if isinstance(v, Opaque):
            raise Unsupported('truthiness of opaque %s' % v.name)
        raise Unsupported('truthiness of %r' % (v,))

    def binop(self, op, a, b, node=None):
        from . import ops
        return ops.binop(self, op, a, b, node)

    def compare(self, op, a, b, node=None):
        from . import ops
        return ops.compare(self, op, a, b, node)

    def values_equal(self, a, b):
        from . import ops
        return ops.values_equal(self, a, b)

    # ------------------------------------------------------------------ attribute access
    def getattr(self, obj, name, default=Ellipsis):
        from . import attrs
        return attrs.getattr_(self, obj, name, default)

    def setattr(self, obj, name, v):
        from . import attrs
        return attrs.setattr_(self, obj, name, v)

    def getitem(self, obj, key):
        from . import attrs
        return attrs.getitem(self, obj, key)

    def setitem(self, obj, key, v):
        from . import attrs
        return attrs.setitem(self, obj, key, v)

    # dict helpers (implemented in dicts.py)
    def dict_get(self, d, key, default=Ellipsis):
        from . import dicts
        return dicts.dict_get(self, d, key, default)

    def dict_set(self, d, key, v):
        from . import dicts
        return dicts.dict_set(self, d, key, v)

    def dict_keys(self, d):
        from . import dicts
        return dicts.dict_keys(self, d)

    def dict_contains(self, d, key):
        from . import dicts
        return dicts.dict_contains(self, d, key)

    def dict_truthy(self, d):
        from . import dicts
        return dicts.dict_truthy(self, d)

    def seq_index(self, sv, i):
        from . import folds
        return folds.seq_index(self, sv, i)

    def list_extend(self, lst, it):
        self.iterate(it, lst.items.append)

    # ------------------------------------------------------------------ calls
    def call(self, fn, args, kwargs):
        from . import calls
        return calls.call(self, fn, args, kwargs)

    def instantiate(self, cls, args, kwargs):
        from . import calls
        return calls.instantiate(self, cls, args, kwargs)


def _ite_term(v):
    from .values import int_term, bytes_term
    if isinstance(v, bool):
        return z3.BoolVal(v)
    if isinstance(v, int):
        return z3.IntVal(v)
    if isinstance(v, bytes):
        return smt.bytes_lit(v)
    if smt.is_z3(v):
        return v
    return None


def _to_load(target):
    import copy
    t = copy.copy(target)
    t.ctx = ast.Load()
    return t
