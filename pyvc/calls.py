"""Call dispatch: interpreted functions (inline or by contract), classes, builtins."""
import ast
import z3
from . import smt
from .values import (Unsupported, Raised, ReturnSignal, ModuleVal, ClassVal, FuncVal, BoundMethod,
                     PropertyVal, Builtin, Obj, ExcVal, ListVal, NamedTupleClass, NamedTupleVal,
                     Opaque, DictVal, GenVal, Packed)

MAX_DEPTH = 60


def bind_args(it, fv, args, kwargs):
    a = fv.node.args
    names = [x.arg for x in getattr(a, 'posonlyargs', [])] + [x.arg for x in a.args]
    bound = {}
    args = list(args)
    if len(args) > len(names) and a.vararg is None:
        it.raise_exc('TypeError', '%s() takes %d positional arguments but %d were given' %
                     (fv.name, len(names), len(args)))
    for n, v in zip(names, args):
        bound[n] = v
    if a.vararg is not None:
        bound[a.vararg.arg] = tuple(args[len(names):])
    kw_names = [x.arg for x in a.kwonlyargs]
    extra = {}
    for k, v in kwargs.items():
        if k in names or k in kw_names:
            if k in bound:
                it.raise_exc('TypeError', '%s() got multiple values for argument %s' % (fv.name, k))
            bound[k] = v
        elif a.kwarg is not None:
            extra[k] = v
        else:
            it.raise_exc('TypeError', '%s() got an unexpected keyword argument %s' % (fv.name, k))
    defaults = fv.defaults or []
    first_default = len(names) - len(defaults)
    for i, n in enumerate(names):
        if n not in bound:
            if i >= first_default:
                bound[n] = defaults[i - first_default]
            else:
                it.raise_exc('TypeError', '%s() missing required argument %s' % (fv.name, n))
    for n, d in zip(kw_names, fv.kw_defaults or []):
        if n not in bound:
            if d is None and not _has_kw_default(a, n):
                it.raise_exc('TypeError', '%s() missing keyword-only argument %s' % (fv.name, n))
            bound[n] = d
    if a.kwarg is not None:
        d = DictVal()
        for k, v in extra.items():
            d.entries.append(('key', k, v))
        bound[a.kwarg.arg] = d
    return bound


def _has_kw_default(a, n):
    for x, d in zip(a.kwonlyargs, a.kw_defaults):
        if x.arg == n:
            return d is not None
    return False


def make_frame(it, fv, bound):
    from .interp import Frame
    q = fv.qualname
    if fv.closure is not None and getattr(fv, 'nested_in', None):
        q = fv.nested_in + '.' + fv.name
    fr = Frame(fv, fv.module, fv.closure, q)
    fr.locals.update(bound)
    return fr


def call(it, fn, args, kwargs):
    if isinstance(fn, BoundMethod):
        return call(it, fn.func, [fn.receiver] + list(args), kwargs)
    if isinstance(fn, Builtin):
        return fn.fn(it, list(args), kwargs)
    if isinstance(fn, FuncVal):
        return call_function(it, fn, args, kwargs)
    if isinstance(fn, ClassVal):
        return instantiate(it, fn, args, kwargs)
    if isinstance(fn, NamedTupleClass):
        vals = list(args)
        for f in fn.fields[len(vals):]:
            if f not in kwargs:
                it.raise_exc('TypeError', 'missing field %s' % f)
            vals.append(kwargs[f])
        return NamedTupleVal(fn, vals)
    if isinstance(fn, Obj):
        c, owner = fn.cls.lookup('__call__')
        if owner is not None:
            return call(it, BoundMethod(fn, c) if isinstance(c, FuncVal) else c, args, kwargs)
    if isinstance(fn, Opaque):
        ext = it.hooks.get('external_call')
        if ext is not None:
            r = ext(it, fn, args, kwargs)
            if r is not Ellipsis:
                return r
        raise Unsupported('call of external %s without a model or assumed contract' % fn.name)
    if fn is None:
        it.raise_exc('TypeError', "'NoneType' object is not callable")
    raise Unsupported('call of %r' % (fn,))


def call_function(it, fv, args, kwargs):
    if isinstance(fv.node, ast.Lambda):
        bound = bind_args(it, fv, args, kwargs)
        fr = make_frame(it, fv, bound)
        saved_mode = it.spec_mode
        it.spec_mode = False
        try:
            return it.eval(fv.node.body, fr)
        finally:
            it.spec_mode = saved_mode
    if it.mode.use_contract(fv):
        from .contracts import apply_contract, NoContractMatch
        try:
            return apply_contract(it, fv, args, kwargs)
        except NoContractMatch:
            pass        # fall through: execute the body
    bound = bind_args(it, fv, args, kwargs)
    fr = make_frame(it, fv, bound)
    if fv.is_generator:
        g = GenVal(fv, fr)
        return g
    it.depth += 1
    if it.depth > MAX_DEPTH:
        raise Unsupported('call depth exceeded at %s' % fv.qualname)
    saved_mode = it.spec_mode
    # repository function bodies always run with Python's own semantics; functions of the
    # spec.* modules are specification text (and/or/not build formulas)
    it.spec_mode = fv.module.name.startswith('spec.')
    try:
        try:
            it.exec_block(fv.node.body, fr)
        except ReturnSignal as r:
            return r.value
        return None
    finally:
        it.depth -= 1
        it.spec_mode = saved_mode


def instantiate(it, cls, args, kwargs):
    new, owner = cls.lookup('__new__')
    if isinstance(new, Builtin):
        return new.fn(it, [cls] + list(args), kwargs)
    is_exc = cls.is_subclass(it.builtins['BaseException'])
    obj = ExcVal(cls, ()) if is_exc else Obj(cls)
    init, owner = cls.lookup('__init__')
    if isinstance(init, FuncVal):
        if is_exc:
            obj.fields['args'] = tuple(args)
        call(it, BoundMethod(obj, init), args, kwargs)
    elif isinstance(init, Builtin):
        init.fn(it, [obj] + list(args), kwargs)
    else:
        if is_exc:
            obj.fields['args'] = tuple(args)
        elif args or kwargs:
            it.raise_exc('TypeError', '%s() takes no arguments' % cls.name)
    return obj
