"""Discharging obligations: z3 (Python API) first, cvc5 (CLI, SMT-LIB export) on `unknown`
and as a cross-check of every `sat` answer.  Obligations travel to the 16 worker processes as
SMT-LIB text.

verdicts: proved | refuted | undecided     (unknown / timeout / error is never `refuted`)
"""
import os
import re
import subprocess
import tempfile
import time
import multiprocessing
import z3

Z3_TIMEOUT_MS = int(os.environ.get('PYVC_Z3_TIMEOUT_MS', '20000'))
Z3_RLIMIT = int(os.environ.get('PYVC_Z3_RLIMIT', '40000000'))     # roughly 20-30 s of z3 work
CVC5_TIMEOUT_MS = int(os.environ.get('PYVC_CVC5_TIMEOUT_MS', '30000'))
CVC5 = '/usr/bin/cvc5'


def to_smt2(formulas):
    s = z3.Solver()
    for f in formulas:
        s.add(f)
    return s.to_smt2()


def run_cvc5(smt2, timeout_ms=None, produce_models=False):
    """returns 'unsat' | 'sat' | 'unknown' (+ raw output)"""
    timeout_ms = timeout_ms or CVC5_TIMEOUT_MS
    text = smt2
    # z3 5.x prints the SMT-LIB 2.7 names; cvc5 1.0.3 knows the older ones
    text = text.replace('ubv_to_int', 'bv2nat').replace('bv2int', 'bv2nat').replace('int_to_bv', 'int2bv')
    text = re.sub(r'\(set-info [^\n]*\)\n', '', text)
    text = '(set-logic ALL)\n' + text
    cmd = [CVC5, '--lang=smt2', '--strings-exp', '--tlimit=%d' % timeout_ms]
    try:
        out = subprocess.run(cmd, input=text, capture_output=True, text=True,
                             timeout=timeout_ms / 1000.0 + 10)
        o = (out.stdout or '') + (out.stderr or '')
    except subprocess.TimeoutExpired:
        return 'unknown', 'cvc5 wall timeout'
    first = o.strip().split('\n')[0].strip() if o.strip() else ''
    if first in ('unsat', 'sat', 'unknown'):
        return first, o[:2000]
    return 'unknown', o[:2000]


def solve_text(smt2, cross_check_all=False):
    """Decide one obligation given as SMT-LIB text of (hyps /\\ not goal)."""
    t0 = time.time()
    info = {'z3': None, 'cvc5': None, 'z3_s': 0.0, 'cvc5_s': 0.0}
    try:
        s = z3.Solver()
        # deterministic resource budget instead of a wall-clock timeout: z3 implements `timeout`
        # with a timer thread per check (8 MB stack mmap/munmap each: ruinous with 16 processes),
        # and rlimit makes verdicts independent of machine load
        s.set('rlimit', Z3_RLIMIT)
        s.from_string(smt2)
        r = s.check()
        info['z3'] = str(r)
        info['z3_s'] = time.time() - t0
    except z3.Z3Exception as e:
        r = z3.unknown
        info['z3'] = 'error: %s' % e
    if r == z3.unsat:
        if cross_check_all:
            t1 = time.time()
            c, raw = run_cvc5(smt2)
            info['cvc5'] = c
            info['cvc5_s'] = time.time() - t1
            if c == 'sat':
                return 'undecided', info, 'back ends disagree (z3 unsat, cvc5 sat)'
        return 'proved', info, ''
    if r == z3.sat:
        # validate the model against every assertion, then ask the second back end
        ok = True
        try:
            m = s.model()
            for a in s.assertions():
                if not z3.is_true(m.eval(a, model_completion=True)):
                    ok = False
                    break
        except z3.Z3Exception:
            ok = False
        t1 = time.time()
        c, raw = run_cvc5(smt2)
        info['cvc5'] = c
        info['cvc5_s'] = time.time() - t1
        if c == 'unsat':
            return 'proved', info, 'z3 sat not confirmed; cvc5 proved'
        if not ok:
            if c == 'sat':
                return 'refuted', info, 'cvc5 sat (z3 model did not validate)'
            return 'undecided', info, 'z3 sat with unvalidated model; cvc5 %s' % c
        return 'refuted', info, 'z3 model validated; cvc5 %s' % c
    # unknown
    t1 = time.time()
    c, raw = run_cvc5(smt2)
    info['cvc5'] = c
    info['cvc5_s'] = time.time() - t1
    if c == 'unsat':
        return 'proved', info, 'by cvc5 (z3 unknown)'
    if c == 'sat':
        # a definite answer of one back end (a counter-model exists) that the other does not
        # contradict: the obligation is not provable as generated.  Reported as refuted; the
        # native replay then looks for a failing input (none found => `no-failing-input-found`).
        return 'refuted', info, 'cvc5 sat; z3 unknown (gave up within its resource limit)'
    return 'undecided', info, 'z3 %s, cvc5 %s' % (info['z3'], c)


def _work(args):
    idx, smt2, cross = args
    try:
        v, info, detail = solve_text(smt2, cross)
    except Exception as e:   # never let a worker crash turn into a verdict
        v, info, detail = 'undecided', {'error': repr(e)}, 'worker error'
    return idx, v, info, detail


def trivial(ob):
    g = z3.simplify(ob.goal)
    if z3.is_true(g):
        return 'proved'
    return None


def discharge(obligations, jobs=None, cross_check_all=False, progress=None):
    """Fills ob.verdict / ob.detail / ob.solver.  Returns stats."""
    jobs = jobs or min(16, os.cpu_count() or 4)
    t0 = time.time()
    tasks = []
    stats = {'z3_proved': 0, 'cvc5_proved': 0, 'trivial': 0, 'refuted': 0, 'undecided': 0,
             'z3_s': 0.0, 'cvc5_s': 0.0}
    for i, ob in enumerate(obligations):
        tv = trivial(ob)
        if tv:
            ob.verdict = tv
            ob.detail = 'goal simplifies to true'
            ob.solver = {'trivial': True}
            stats['trivial'] += 1
            continue
        tasks.append((i, to_smt2(ob.formula()), cross_check_all))
    if tasks:
        if jobs > 1 and len(tasks) > 1:
            with multiprocessing.Pool(jobs) as pool:
                results = pool.imap_unordered(_work, tasks, chunksize=1)
                results = list(results)
        else:
            results = [_work(t) for t in tasks]
        for idx, v, info, detail in results:
            ob = obligations[idx]
            ob.verdict = v
            ob.detail = detail
            ob.solver = info
            stats['z3_s'] += info.get('z3_s', 0.0) or 0.0
            stats['cvc5_s'] += info.get('cvc5_s', 0.0) or 0.0
            if v == 'proved':
                if info.get('z3') == 'unsat':
                    stats['z3_proved'] += 1
                else:
                    stats['cvc5_proved'] += 1
            elif v == 'refuted':
                stats['refuted'] += 1
            else:
                stats['undecided'] += 1
    stats['wall_s'] = time.time() - t0
    return stats
