"""Type descriptors and z3 datatypes for repository classes.

Descriptors (strings): 'int' 'bool' 'bytes' 'str' 'none', a class key 'pdu.AbstractSyntaxSubItem',
a family name 'VarItem', 'Seq[T]', 'Tuple[T1,T2]'.

A *record* is a class whose instances can be packed into a z3 datatype value: declared in a
sidecar with its fields (taken from the assignments in __init__, checked by the loader).
A *family* is a closed union of records (dynamic dispatch universe for item lists).
"""
import z3
from . import smt
from .values import Obj, Packed, SeqVal, ListVal, Unsupported


class Record(object):
    def __init__(self, key, fields):
        self.key = key                  # 'pdu.ApplicationContextItem'
        self.fields = list(fields)      # [(name, descriptor)]
        self.family = None
        self.cls = None                 # ClassVal, bound by the loader
        self.sort = None
        self.ctor = None
        self.recog = None
        self.accs = None

    @property
    def short(self):
        return self.key.split('.')[-1]


class Family(object):
    def __init__(self, name, members):
        self.name = name
        self.members = list(members)    # record keys
        self.sort = None


class TypeEnv(object):
    def __init__(self):
        self.records = {}
        self.families = {}
        self._built = False

    def record(self, key, **fields):
        self.records[key] = Record(key, list(fields.items()))

    def family(self, name, members):
        self.families[name] = Family(name, members)

    # ------------------------------------------------------------------
    def build(self):
        """Create the z3 datatypes (in dependency order)."""
        if self._built:
            return
        for fam in self.families.values():
            for m in fam.members:
                self.records[m].family = fam
        done = set()

        def deps(desc):
            desc = desc.strip()
            if desc.startswith('Seq[') or desc.startswith('Opt['):
                return deps(desc[4:-1])
            if desc in self.records:
                r = self.records[desc]
                return [r.family.name if r.family else desc]
            if desc in self.families:
                return [desc]
            return []

        def build_unit(name):
            if name in done:
                return
            done.add(name)
            if name in self.families:
                recs = [self.records[m] for m in self.families[name].members]
            else:
                recs = [self.records[name]]
            for r in recs:
                for _, d in r.fields:
                    for dep in deps(d):
                        if dep != name:
                            build_unit(dep)
            dt = z3.Datatype(name.replace('.', '_'))
            for r in recs:
                dt.declare('mk_' + r.short, *[(r.short + '_' + f, self.sort_of(d)) for f, d in r.fields])
            sort = dt.create()
            if name in self.families:
                self.families[name].sort = sort
            for i, r in enumerate(recs):
                r.sort = sort
                r.ctor = sort.constructor(i)
                r.recog = sort.recognizer(i)
                r.accs = [sort.accessor(i, j) for j in range(len(r.fields))]

        for fam in list(self.families):
            build_unit(fam)
        for key, r in list(self.records.items()):
            if r.family is None:
                build_unit(key)
        self._built = True

    def sort_of(self, desc):
        desc = desc.strip()
        if desc == 'int':
            return smt.Int
        if desc == 'bool':
            return smt.Bool
        if desc == 'bytes':
            return smt.Bytes
        if desc == 'str':
            return smt.Str
        if desc.startswith('Seq['):
            return z3.SeqSort(self.sort_of(desc[4:-1]))
        if desc.startswith('Tup['):
            return self.tuple_info(desc)[0]
        if desc in self.families:
            return self.families[desc].sort
        if desc in self.records:
            r = self.records[desc]
            if r.sort is None:
                raise Unsupported('datatype for %s not built yet (dependency order)' % desc)
            return r.sort
        raise Unsupported('unknown type descriptor %r' % desc)

    def tuple_info(self, desc):
        """'Tup[a,b,..]' -> (sort, ctor, accessors, component descriptors); flat components only"""
        cache = self.__dict__.setdefault('_tuples', {})
        if desc not in cache:
            comps = [c.strip() for c in desc[4:-1].split(',')]
            dt = z3.Datatype('Tup_' + '_'.join(c.replace('.', '_').replace('[', '_').replace(']', '_') for c in comps))
            dt.declare('mk', *[('c%d' % i, self.sort_of(c)) for i, c in enumerate(comps)])
            sort = dt.create()
            cache[desc] = (sort, sort.constructor(0), [sort.accessor(0, i) for i in range(len(comps))], comps)
        return cache[desc]

    def record_of_class(self, cls):
        for r in self.records.values():
            if r.cls is cls:
                return r
        return None

    def members_of(self, desc):
        """records a descriptor can denote"""
        if desc in self.families:
            return [self.records[m] for m in self.families[desc].members]
        if desc in self.records:
            return [self.records[desc]]
        return []
