"""bytes operations: skolemised splits (never seq.extract towers), indexing, streams."""
import z3
from . import smt
from .values import Unsupported, Stream, is_intlike, int_term, bytes_term


def blen(it, b):
    if isinstance(b, bytes):
        return len(b)
    n = smt.as_concrete_int(z3.Length(b))
    if n is not None:
        return n
    return z3.Length(b)


def split(it, b, n):
    """(h, r) with b == h ++ r and |h| == min(max(n,0), |b|).  n: int or Int term."""
    p = it.p
    if isinstance(b, bytes) and isinstance(n, int):
        n = max(n, 0)
        return b[:n], b[n:]
    bt = bytes_term(b)
    nt = int_term(n)
    cache = p.ghost.setdefault('_splits', {})
    key = (bt.get_id(), nt.get_id())
    if key in cache:
        return cache[key]
    # easy cases decided syntactically
    cn = smt.as_concrete_int(nt)
    if cn is not None and cn <= 0:
        res = (b'', b)
        cache[key] = res
        return res
    h = p.fresh_bytes('h')
    r = p.fresh_bytes('r')
    ln = z3.Length(bt)
    p.assume(bt == z3.Concat(h, r))
    p.assume(z3.Length(h) == z3.If(nt <= 0, 0, z3.If(nt <= ln, nt, ln)))
    res = (h, r)
    cache[key] = res
    return res


def bytes_slice(it, b, lo, hi):
    p = it.p
    for x in (lo, hi):
        if x is not None and not is_intlike(x):
            raise Unsupported('slice bound %r' % (x,))
    if lo is not None and smt.is_z3(lo) and not p.must(int_term(lo) >= 0):
        raise Unsupported('possibly negative slice start')
    if hi is not None and smt.is_z3(hi) and not p.must(int_term(hi) >= 0):
        raise Unsupported('possibly negative slice stop')
    if isinstance(lo, int) and lo < 0 or isinstance(hi, int) and hi < 0:
        raise Unsupported('negative slice bounds on symbolic bytes')
    rest = b
    if lo is not None and not (isinstance(lo, int) and lo == 0):
        _, rest = split(it, b, lo)
    if hi is None:
        return rest
    if lo is None or (isinstance(lo, int) and lo == 0):
        width = hi
    else:
        width = it.binop(__import__('ast').Sub(), hi, lo)
    h, _ = split(it, rest, width)
    return h


def bytes_index(it, b, i):
    """b[i] as int; IndexError if out of range (non-negative i only)."""
    p = it.p
    bt = bytes_term(b)
    ti = int_term(i)
    if isinstance(i, int) and i < 0:
        raise Unsupported('negative index into symbolic bytes')
    if p.branch(z3.Or(ti < 0, ti >= z3.Length(bt))):
        it.raise_exc('IndexError', 'index out of range')
    return p.facts.byte_at(bt, ti)


def new_stream(it, data, name='stream'):
    return Stream(b'', data, name)


def stream_read(it, st, n=None):
    if st.closed:
        it.raise_exc('ValueError', 'I/O operation on closed file')
    if n is None or (isinstance(n, int) and n < 0):
        h, r = st.rem, b''
    elif smt.is_z3(n) and not it.p.must(int_term(n) >= 0):
        if it.p.branch(int_term(n) < 0):
            h, r = st.rem, b''
        else:
            h, r = split(it, st.rem, n)
    else:
        h, r = split(it, st.rem, n)
    st.before = it.binop(__import__('ast').Add(), st.before, h)
    st.rem = r
    return h


def stream_seek(it, st, off, whence=0):
    import ast
    p = it.p
    if st.closed:
        it.raise_exc('ValueError', 'I/O operation on closed file')
    total = it.binop(ast.Add(), st.before, st.rem)
    if whence == 0:
        pos = off
    elif whence == 1:
        pos = it.binop(ast.Add(), blen(it, st.before), off)
    elif whence == 2:
        pos = it.binop(ast.Add(), blen(it, total), off)
    else:
        raise Unsupported('seek whence %r' % (whence,))
    if smt.is_z3(pos):
        if not p.must(pos >= 0):
            raise Unsupported('seek to possibly negative position')
    elif pos < 0:
        it.raise_exc('ValueError', 'negative seek position')
    # special case: step back over the tail of `before`
    if whence == 1 and isinstance(off, int) and off < 0:
        k = -off
        bl = blen(it, st.before)
        if isinstance(bl, int) and isinstance(st.before, bytes):
            st.rem = it.binop(ast.Add(), st.before[bl - k:], st.rem)
            st.before = st.before[:bl - k]
            return pos
        h, t = split(it, st.before, it.binop(ast.Sub(), bl, k))
        st.before = h
        st.rem = it.binop(ast.Add(), t, st.rem)
        return pos
    h, r = split(it, total, pos)
    if smt.is_z3(pos) or smt.is_z3(blen(it, total)):
        # seeking beyond the end is legal for files; model only positions inside the data
        if not p.must(int_term(pos) <= int_term(blen(it, total))):
            raise Unsupported('seek possibly beyond end of data')
    st.before = h
    st.rem = r
    return pos


def stream_tell(it, st):
    return blen(it, st.before)


def stream_write(it, st, data):
    """write at the current position; modelled for append-at-end and overwrite-free use only."""
    import ast
    if st.closed:
        it.raise_exc('ValueError', 'I/O operation on closed file')
    rl = blen(it, st.rem)
    if not (isinstance(rl, int) and rl == 0) and not it.p.must(int_term(rl) == 0):
        raise Unsupported('write in the middle of a stream')
    st.before = it.binop(ast.Add(), st.before, data)
    st.rem = b''
    return blen(it, data)
