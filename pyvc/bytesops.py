"""bytes operations: skolemised splits (never seq.extract towers), indexing, streams."""
import z3
from . import smt
from .values import Unsupported, Stream, is_intlike, int_term, bytes_term


def blen(it, b):
    if isinstance(b, bytes):
        return len(b)
    n = smt.as_concrete_int(z3.Length(b))
    if n is not None:
        return n
    return z3.Length(b)


def split(it, b, n):
    """(h, r) with b == h ++ r and |h| == min(max(n,0), |b|).  n: int or Int term."""
    p = it.p
    if isinstance(b, bytes) and isinstance(n, int):
        n = max(n, 0)
        return b[:n], b[n:]
    bt = bytes_term(b)
    nt = int_term(n)
    cache = p.ghost.setdefault('_splits', {})
    key = (bt.get_id(), nt.get_id())
    if key in cache:
        return cache[key]
    # easy cases decided syntactically
    cn = smt.as_concrete_int(nt)
    if cn is not None and cn <= 0:
        res = (b'', b)
        cache[key] = res
        return res
    # structural pass: keep the concatenation structure of the term wherever the cut position
    # provably coincides with a boundary between its parts (entailment checks by the solver)
    parts = _flatten(bt, p.defs)
    if not parts:
        res = (b'', b'')
        cache[key] = res
        return res
    # purely syntactic cut: concrete n and a prefix of parts with statically known lengths
    if cn is not None:
        acc = 0
        j = 0
        while j < len(parts) and acc < cn:
            sl = static_len(it, parts[j])
            if sl is None:
                break
            acc += sl
            j += 1
        if acc == cn:
            res = (smt.concat(parts[:j]) if j else b'', smt.concat(parts[j:]) if j < len(parts) else b'')
            cache[key] = res
            return res
    if len(parts) > 1 and p.must(nt >= 0):
        taken = []
        consumed = z3.IntVal(0)
        i = 0
        while i < len(parts):
            part = parts[i]
            lp = z3.Length(part)
            if p.must(consumed + lp <= nt):
                taken.append(part)
                consumed = z3.simplify(consumed + lp)
                i += 1
                continue
            break
        if i == len(parts):
            res = (smt.concat(taken), b'')
            cache[key] = res
            return res
        if p.must(consumed == nt):
            res = (smt.concat(taken) if taken else b'', smt.concat(parts[i:]))
            cache[key] = res
            return res
        # cut inside parts[i] (or not provably at a boundary): skolemise that part only
        part = parts[i]
        want = z3.simplify(nt - consumed)
        h1 = p.fresh_bytes('h')
        r1 = p.fresh_bytes('r')
        lp = z3.Length(part)
        if p.must(want <= lp):
            p.assume(part == z3.Concat(h1, r1), note=False)
            p.assume(z3.Length(h1) == want)
            res = (smt.concat(taken + [h1]), smt.concat([r1] + parts[i + 1:]))
            cache[key] = res
            return res
    h = p.fresh_bytes('h')
    r = p.fresh_bytes('r')
    ln = z3.Length(bt)
    p.assume(bt == z3.Concat(h, r), note=False)
    p.assume(z3.Length(h) == z3.If(nt <= 0, 0, z3.If(nt <= ln, nt, ln)))
    # arithmetic consequences, stated explicitly for the sequence-free solver
    p.facts.add(z3.And(ln >= 0, z3.Length(r) >= 0, ln == z3.Length(h) + z3.Length(r)))
    res = (h, r)
    cache[key] = res
    return res


def static_len(it, part):
    """length of a part known without the solver: in-range be_n terms (certified when packed),
    units, 16-byte padded fields"""
    cert = it.p.ghost.get('_be_ok', {}).get(part.get_id())
    if cert is not None:
        return cert[0]
    if z3.is_app(part):
        k = part.decl().kind()
        if k == z3.Z3_OP_SEQ_UNIT:
            return 1
        if k == z3.Z3_OP_SEQ_EMPTY:
            return 0
        if k == z3.Z3_OP_UNINTERPRETED and part.decl().name() == 'pad16':
            return 16
    return None


def _flatten(t, defs=None, depth=0):
    """parts of a concatenation; atoms with a recorded defining equation (path facts of the form
    atom == structured term) are replaced by their definition"""
    t = z3.simplify(t)
    if z3.is_app(t) and t.decl().kind() == z3.Z3_OP_SEQ_CONCAT:
        out = []
        for i in range(t.num_args()):
            out.extend(_flatten(t.arg(i), defs, depth))
        return out
    if z3.is_app(t) and t.decl().kind() == z3.Z3_OP_SEQ_EMPTY:
        return []
    if defs and depth < 12:
        d = defs.get(t.get_id())
        if d is not None:
            return _flatten(d, defs, depth + 1)
    return [t]


def bytes_slice(it, b, lo, hi):
    p = it.p
    for x in (lo, hi):
        if x is not None and not is_intlike(x):
            raise Unsupported('slice bound %r' % (x,))
    if lo is not None and smt.is_z3(lo) and not p.must(int_term(lo) >= 0):
        raise Unsupported('possibly negative slice start')
    if hi is not None and smt.is_z3(hi) and not p.must(int_term(hi) >= 0):
        raise Unsupported('possibly negative slice stop')
    if isinstance(lo, int) and lo < 0 or isinstance(hi, int) and hi < 0:
        raise Unsupported('negative slice bounds on symbolic bytes')
    rest = b
    if lo is not None and not (isinstance(lo, int) and lo == 0):
        _, rest = split(it, b, lo)
    if hi is None:
        return rest
    if lo is None or (isinstance(lo, int) and lo == 0):
        width = hi
    else:
        width = it.binop(__import__('ast').Sub(), hi, lo)
    h, _ = split(it, rest, width)
    return h


def bytes_index(it, b, i):
    """b[i] as int; IndexError if out of range (non-negative i only)."""
    p = it.p
    bt = bytes_term(b)
    ti = int_term(i)
    if isinstance(i, int) and i < 0:
        raise Unsupported('negative index into symbolic bytes')
    if isinstance(i, int) and i == 0:
        # first byte of a structurally known term
        parts = _flatten(bt, p.defs)
        if parts:
            cert = p.ghost.get('_be_ok', {}).get(parts[0].get_id())
            if cert is not None and cert[0] == 1:
                cv = smt.as_concrete_int(cert[1])
                return cv if cv is not None else cert[1]
            f = parts[0]
            if z3.is_app(f) and f.decl().kind() == z3.Z3_OP_SEQ_UNIT and z3.is_bv_value(f.arg(0)):
                return f.arg(0).as_long()
    if p.branch(z3.Or(ti < 0, ti >= z3.Length(bt))):
        it.raise_exc('IndexError', 'index out of range')
    return p.facts.byte_at(bt, ti)


def new_stream(it, data, name='stream'):
    return Stream(b'', data, name)


def stream_read(it, st, n=None):
    if st.closed:
        it.raise_exc('ValueError', 'I/O operation on closed file')
    if n is None or (isinstance(n, int) and n < 0):
        h, r = st.rem, b''
    elif smt.is_z3(n) and not it.p.must(int_term(n) >= 0):
        if it.p.branch(int_term(n) < 0):
            h, r = st.rem, b''
        else:
            h, r = split(it, st.rem, n)
    else:
        h, r = split(it, st.rem, n)
    st.last_read = (st.before, st.rem, h)
    st.before = it.binop(__import__('ast').Add(), st.before, h)
    st.rem = r
    return h


def stream_seek(it, st, off, whence=0):
    import ast
    p = it.p
    if st.closed:
        it.raise_exc('ValueError', 'I/O operation on closed file')
    total = it.binop(ast.Add(), st.before, st.rem)
    if whence == 0:
        pos = off
    elif whence == 1:
        pos = it.binop(ast.Add(), blen(it, st.before), off)
    elif whence == 2:
        pos = it.binop(ast.Add(), blen(it, total), off)
    else:
        raise Unsupported('seek whence %r' % (whence,))
    # stepping back exactly over the last read restores the previous state (keeps term structure)
    last = getattr(st, 'last_read', None)
    st.last_read = None
    if whence == 1 and isinstance(off, int) and off < 0 and last is not None:
        lb, lr, lh = last
        hl = blen(it, lh)
        parts = _flatten(bytes_term(lh), p.defs)
        sl = [static_len(it, q) for q in parts]
        static_total = sum(sl) if all(x is not None for x in sl) else None
        if (isinstance(hl, int) and hl == -off) or static_total == -off or \
                (not isinstance(hl, int) and p.must(int_term(hl) == -off)):
            st.before, st.rem = lb, lr
            st.last_read = None
            return pos
    if smt.is_z3(pos):
        if not p.must(pos >= 0):
            if p.branch(pos < 0):
                it.raise_exc('ValueError', 'negative seek position')
    elif pos < 0:
        it.raise_exc('ValueError', 'negative seek position')
    # special case: step back over the tail of `before`
    if whence == 1 and isinstance(off, int) and off < 0:
        k = -off
        bl = blen(it, st.before)
        if isinstance(bl, int) and isinstance(st.before, bytes):
            st.rem = it.binop(ast.Add(), st.before[bl - k:], st.rem)
            st.before = st.before[:bl - k]
            return pos
        h, t = split(it, st.before, it.binop(ast.Sub(), bl, k))
        st.before = h
        st.rem = it.binop(ast.Add(), t, st.rem)
        return pos
    h, r = split(it, total, pos)
    if smt.is_z3(pos) or smt.is_z3(blen(it, total)):
        # seeking beyond the end is legal for files; model only positions inside the data
        if not p.must(int_term(pos) <= int_term(blen(it, total))):
            raise Unsupported('seek possibly beyond end of data')
    st.before = h
    st.rem = r
    return pos


def stream_tell(it, st):
    return blen(it, st.before)


def stream_write(it, st, data):
    """write at the current position; modelled for append-at-end and overwrite-free use only."""
    import ast
    if st.closed:
        it.raise_exc('ValueError', 'I/O operation on closed file')
    rl = blen(it, st.rem)
    if not (isinstance(rl, int) and rl == 0) and not it.p.must(int_term(rl) == 0):
        raise Unsupported('write in the middle of a stream')
    st.before = it.binop(ast.Add(), st.before, data)
    st.rem = b''
    st.last_read = None
    return blen(it, data)
