"""SMT layer of pyvc: sorts, the byte/str theories with ground lemma instantiation,
datatypes for repository classes, solver helpers.

Encoding choices (see DESIGN.md 2.3):
  int    -> Int (mathematical, as Python's)
  bytes  -> Seq(BitVec 8)
  str    -> uninterpreted sort Str with enc/dec/slen and ascii predicates
  be_n / unbe_n are uninterpreted; two lemma schemas are instantiated on the ground
  terms the generator creates (no quantifier reaches the solver).
"""
import z3

Int = z3.IntSort()
Bool = z3.BoolSort()
Byte = z3.BitVecSort(8)
Bytes = z3.SeqSort(Byte)
Str = z3.DeclareSort('Str')

BE = {n: z3.Function('be%d' % n, Int, Bytes) for n in (1, 2, 4)}
UNBE = {n: z3.Function('unbe%d' % n, Bytes, Int) for n in (1, 2, 4)}
LE = {n: z3.Function('le%d' % n, Int, Bytes) for n in (2, 4)}
UNLE = {n: z3.Function('unle%d' % n, Bytes, Int) for n in (2, 4)}

ENC = z3.Function('enc', Str, Bytes)          # str.encode() (utf-8)
DEC = z3.Function('dec', Bytes, Str)          # bytes.decode() (utf-8), defined when utf8_ok
SLEN = z3.Function('slen', Str, Int)          # len(str)
ASCII_S = z3.Function('ascii_s', Str, Bool)   # str is pure ASCII
ASCII_B = z3.Function('ascii_b', Bytes, Bool)  # every byte < 0x80
UTF8_OK = z3.Function('utf8_ok', Bytes, Bool)  # bytes.decode() does not raise
STRIP0 = z3.Function('strip0', Bytes, Bytes)  # bytes.strip(b'\0')
PAD16 = z3.Function('pad16', Bytes, Bytes)    # struct '16s' packing (NUL pad / truncate to 16)
SPAD16 = z3.Function('spad16', Bytes, Bytes)  # bytes.ljust(16, b' '): space-padded to at least 16
STRIPP = z3.Function('strip_pad', Bytes, Bytes)   # bytes.strip(b'\0 ')
LJ16 = z3.Function('ljust16', Str, Str)       # str.ljust(16)
NONUL_ENDS = z3.Function('nonul_ends', Bytes, Bool)  # no NUL at either end (or empty)


def is_z3(v):
    return isinstance(v, z3.ExprRef)


def is_int_term(v):
    return isinstance(v, z3.ArithRef) and v.sort() == Int


def is_bool_term(v):
    return isinstance(v, z3.BoolRef)


def is_bytes_term(v):
    return isinstance(v, z3.SeqRef) and v.sort() == Bytes


def is_str_term(v):
    return isinstance(v, z3.ExprRef) and v.sort() == Str


def bytes_lit(b):
    """Concrete bytes -> z3 term."""
    if len(b) == 0:
        return z3.Empty(Bytes)
    units = [z3.Unit(z3.BitVecVal(c, 8)) for c in b]
    if len(units) == 1:
        return units[0]
    return z3.Concat(*units)


def concat(terms):
    terms = [t for t in terms]
    if not terms:
        return z3.Empty(Bytes)
    if len(terms) == 1:
        return terms[0]
    return z3.Concat(*terms)


_strlits = {}


def str_lit(s):
    """Concrete str -> Str constant; facts for it come from str_lit_facts."""
    if s not in _strlits:
        _strlits[s] = z3.Const('strlit_%d_%s' % (len(_strlits), ''.join(
            c if c.isalnum() else '_' for c in s[:20])), Str)
    return _strlits[s]


def str_lit_facts(s):
    t = str_lit(s)
    b = s.encode('utf-8')
    facts = [ENC(t) == bytes_lit(b), SLEN(t) == len(s), UTF8_OK(bytes_lit(b)),
             DEC(bytes_lit(b)) == t]
    asc = all(ord(c) < 128 for c in s)
    facts.append(ASCII_S(t) if asc else z3.Not(ASCII_S(t)))
    facts.append(ASCII_B(bytes_lit(b)) if asc else z3.Not(ASCII_B(bytes_lit(b))))
    return facts


def known_strlit(term):
    for s, t in _strlits.items():
        if t.eq(term):
            return s
    return None


class Facts(object):
    """Ground lemma instances for the terms a path has created (deduplicated)."""

    def __init__(self):
        self.items = []
        self._seen = set()

    def add(self, f):
        k = f.get_id() if is_z3(f) else None
        if k is not None and k in self._seen:
            return
        if k is not None:
            self._seen.add(k)
        self.items.append(f)

    # --- integer codecs -------------------------------------------------
    def be(self, n, x):
        """Term be_n(x) with lemma: in range => length n, unbe inverse, first byte for n=1."""
        x = z3.IntVal(x) if isinstance(x, int) else x
        t = BE[n](x)
        rng = z3.And(0 <= x, x < 256 ** n)
        post = [z3.Length(t) == n, UNBE[n](t) == x]
        if n == 1:
            post.append(z3.BV2Int(t[0]) == x)
        self.add(z3.Implies(rng, z3.And(*post)))
        return t

    def unbe(self, n, s):
        t = UNBE[n](s)
        post = [BE[n](t) == s, 0 <= t, t < 256 ** n]
        if n == 1:
            post.append(z3.BV2Int(s[0]) == t)
        self.add(z3.Implies(z3.Length(s) == n, z3.And(*post)))
        return t

    def le(self, n, x):
        x = z3.IntVal(x) if isinstance(x, int) else x
        t = LE[n](x)
        self.add(z3.Implies(z3.And(0 <= x, x < 256 ** n),
                            z3.And(z3.Length(t) == n, UNLE[n](t) == x)))
        return t

    def unle(self, n, s):
        t = UNLE[n](s)
        self.add(z3.Implies(z3.Length(s) == n,
                            z3.And(LE[n](t) == s, 0 <= t, t < 256 ** n)))
        return t

    def byte_at(self, s, i):
        """int value of s[i] (caller guarantees 0 <= i < |s|)."""
        t = z3.BV2Int(s[i])
        self.add(z3.And(0 <= t, t < 256))
        return t

    # --- text -------------------------------------------------------------
    def enc(self, s):
        t = ENC(s)
        self.add(z3.And(UTF8_OK(t), DEC(t) == s, z3.Length(t) >= SLEN(s), SLEN(s) >= 0))
        self.add(z3.Implies(ASCII_S(s), z3.And(z3.Length(t) == SLEN(s), ASCII_B(t))))
        self.add(z3.Implies(ASCII_B(t), ASCII_S(s)))
        return t

    def dec(self, b):
        t = DEC(b)
        self.add(z3.Implies(UTF8_OK(b), z3.And(ENC(t) == b, SLEN(t) <= z3.Length(b), SLEN(t) >= 0)))
        self.add(z3.Implies(ASCII_B(b), z3.And(UTF8_OK(b), ASCII_S(t), SLEN(t) == z3.Length(b))))
        self.add(z3.Implies(z3.And(UTF8_OK(b), ASCII_S(t)), ASCII_B(b)))
        return t

    def slen(self, s):
        t = SLEN(s)
        self.add(t >= 0)
        return t

    def strlit(self, s):
        t = str_lit(s)
        for f in str_lit_facts(s):
            self.add(f)
        return t

    def pad16(self, b):
        """struct '16s' field: NUL-pad (or truncate) to 16 bytes."""
        t = PAD16(b)
        self.add(z3.Length(t) == 16)
        self.add(z3.Implies(z3.Length(b) == 16, t == b))
        # NUL padding is also removed by strip(b'\0 ')
        self.add(z3.Implies(z3.And(z3.Length(b) <= 16, NONUL_ENDS(b)), STRIPP(t) == b))
        # padding is undone by strip when the content has no NUL at its ends and fits
        self.add(z3.Implies(z3.And(z3.Length(b) <= 16, NONUL_ENDS(b)), STRIP0(t) == b))
        return t

    def spad16(self, b):
        """b.ljust(16, b' '): NONUL_ENDS means 'no NUL and no space at either end (or empty)'"""
        t = SPAD16(b)
        lb = z3.Length(b)
        self.add(z3.Length(t) == z3.If(lb <= 16, 16, lb))
        self.add(z3.Implies(lb >= 16, t == b))
        self.add(z3.Implies(ASCII_B(b), ASCII_B(t)))
        # padding is undone by strip(b'\0 ') when the content has no pad character at its ends
        self.add(z3.Implies(z3.And(lb <= 16, NONUL_ENDS(b)), STRIPP(t) == b))
        return t

    def ljust16(self, s):
        t = LJ16(s)
        es = self.enc(s)
        et = self.enc(t)
        self.add(z3.Implies(ASCII_S(s), z3.And(ASCII_S(t), et == self.spad16(es))))
        self.add(SLEN(t) == z3.If(SLEN(s) <= 16, 16, SLEN(s)))
        return t

    def strip_pad(self, b):
        t = STRIPP(b)
        self.add(z3.And(z3.Length(t) <= z3.Length(b), NONUL_ENDS(t)))
        self.add(z3.Implies(NONUL_ENDS(b), t == b))
        self.add(z3.Implies(ASCII_B(b), ASCII_B(t)))
        return t

    def strip0(self, b):
        t = STRIP0(b)
        self.add(z3.And(z3.Length(t) <= z3.Length(b), NONUL_ENDS(t)))
        self.add(z3.Implies(NONUL_ENDS(b), t == b))
        self.add(z3.Implies(ASCII_B(b), ASCII_B(t)))
        return t


def mk_solver(timeout_ms=None):
    s = z3.Solver()
    if timeout_ms:
        s.set('timeout', timeout_ms)
    return s


def simplify(t):
    if is_z3(t):
        return z3.simplify(t)
    return t


def as_concrete_int(t):
    if isinstance(t, bool):
        return int(t)
    if isinstance(t, int):
        return t
    if is_z3(t):
        t = z3.simplify(t)
        if z3.is_int_value(t):
            return t.as_long()
    return None


def as_concrete_bool(t):
    if isinstance(t, bool):
        return t
    if is_z3(t):
        t = z3.simplify(t)
        if z3.is_true(t):
            return True
        if z3.is_false(t):
            return False
    return None
