"""Attribute and subscript access."""
import z3
from . import smt
from .values import (Unsupported, Raised, ModuleVal, ClassVal, FuncVal, BoundMethod, PropertyVal,
                     Builtin, Obj, ExcVal, ListVal, NamedTupleClass, NamedTupleVal, StructVal,
                     Opaque, DictVal, SetVal, Stream, SeqVal, Packed, GenVal, IterSource, HList,
                     is_intlike, is_byteslike, is_strlike, int_term, bytes_term)


def value_kind(v):
    if isinstance(v, bool) or smt.is_bool_term(v):
        return 'bool'
    if is_intlike(v):
        return 'int'
    if is_byteslike(v):
        return 'bytes'
    if is_strlike(v):
        return 'str'
    if isinstance(v, tuple):
        return 'tuple'
    if isinstance(v, ListVal):
        return 'list'
    if isinstance(v, HList):
        return 'hlist'
    if isinstance(v, DictVal):
        return 'dict'
    if isinstance(v, SetVal):
        return 'set'
    if isinstance(v, Stream):
        return 'stream'
    if isinstance(v, StructVal):
        return 'struct'
    if isinstance(v, SeqVal):
        return 'seq'
    if isinstance(v, GenVal):
        return 'generator'
    if isinstance(v, IterSource):
        return 'iter'
    return None


def bind(it, receiver, attr, owner_is_class=False):
    if isinstance(attr, FuncVal):
        if attr.kind == 'staticmethod':
            return attr
        if attr.kind == 'classmethod':
            cls = receiver if isinstance(receiver, ClassVal) else receiver.cls
            return BoundMethod(cls, attr)
        if owner_is_class:
            return attr
        return BoundMethod(receiver, attr)
    if isinstance(attr, Builtin) and getattr(attr, 'is_method', False) and not owner_is_class:
        return BoundMethod(receiver, attr)
    return attr


def getattr_(it, obj, name, default=Ellipsis):
    def missing():
        if default is not Ellipsis:
            return default
        it.raise_exc('AttributeError', name)

    if isinstance(obj, Packed):
        from .pack import unpack
        obj = unpack(it, obj)
    if isinstance(obj, Obj):
        hook = getattr(obj, 'getattr_hook', None)
        if hook is not None:
            r = hook(it, obj, name)
            if r is not Ellipsis:
                return r
        if name in obj.fields:
            return obj.fields[name]
        if name == '__class__':
            return obj.cls
        a, owner = obj.cls.lookup(name)
        if owner is None:
            return missing()
        if isinstance(a, PropertyVal):
            return it.call(a.fget, [obj], {})
        return bind(it, obj, a)
    if isinstance(obj, ClassVal):
        a, owner = obj.lookup(name)
        if owner is None:
            if name == '__name__':
                return obj.name
            return missing()
        return bind(it, obj, a, owner_is_class=True)
    if isinstance(obj, ModuleVal):
        if name in obj.attrs:
            return obj.attrs[name]
        if getattr(obj, 'opaque', False):
            return Opaque(obj.name + '.' + name)
        # submodule of a repo package
        sub = obj.name + '.' + name
        import os
        if os.path.exists(it.module_file(sub)):
            return it.load_module(sub)
        return missing()
    if isinstance(obj, NamedTupleVal):
        if name in obj.cls.fields:
            return obj.get(name)
        if name == '_replace' or name == '_asdict':
            raise Unsupported('namedtuple.%s' % name)
        return missing()
    if isinstance(obj, NamedTupleClass):
        if name == '_fields':
            return tuple(obj.fields)
        return missing()
    if isinstance(obj, FuncVal):
        if name in obj.attrs:
            return obj.attrs[name]
        if name == '__name__':
            return obj.name
        return missing()
    if isinstance(obj, BoundMethod):
        return getattr_(it, obj.func, name, default)
    if isinstance(obj, Opaque):
        return Opaque(obj.name + '.' + name)
    kind = value_kind(obj)
    if kind == 'struct' and name == 'size':
        from .builtins import struct_size
        return struct_size(obj.fmt)
    if kind is not None:
        m = it.method_models.get((kind, name))
        if m is not None:
            return BoundMethod(obj, m)
        if default is not Ellipsis:
            return default
        raise Unsupported('method %s.%s has no model' % (kind, name))
    if obj is None:
        return missing()
    raise Unsupported('attribute %s of %r' % (name, obj))


def setattr_(it, obj, name, v):
    if isinstance(obj, Packed):
        raise Unsupported('store to attribute of packed value (write-back not supported here)')
    if isinstance(obj, Obj):
        g = it.hooks.get('on_setattr')
        if g is not None:
            g(it, obj, name, v)      # ghost monitors (e.g. ownership of messages handed to send())
        hook = getattr(obj, 'setattr_hook', None)
        if hook is not None and hook(it, obj, name, v):
            return
        a, owner = obj.cls.lookup(name)
        if isinstance(a, PropertyVal):
            if a.fset is None:
                it.raise_exc('AttributeError', "can't set attribute " + name)
            it.call(a.fset, [obj, v], {})
            return
        obj.fields[name] = v
        if obj.origin is not None:
            from .pack import write_back
            write_back(it, obj)
        return
    if isinstance(obj, FuncVal):
        obj.attrs[name] = v
        return
    if isinstance(obj, ClassVal):
        obj.attrs[name] = v
        return
    if isinstance(obj, ModuleVal):
        obj.attrs[name] = v
        return
    if obj is None:
        it.raise_exc('AttributeError', "'NoneType' object has no attribute '%s'" % name)
    raise Unsupported('store to attribute %s of %r' % (name, obj))


def _norm_index(it, i, n):
    """Python index -> non-negative (concrete only when both known)."""
    if isinstance(i, int) and isinstance(n, int):
        return i + n if i < 0 else i
    return None


def getitem(it, obj, key):
    p = it.p
    if isinstance(obj, Packed):
        from .pack import unpack
        obj = unpack(it, obj)
    if isinstance(obj, DictVal):
        return it.dict_get(obj, key)
    if isinstance(obj, (tuple, ListVal, NamedTupleVal)):
        items = obj if isinstance(obj, tuple) else (obj.items if isinstance(obj, ListVal) else obj.values)
        if isinstance(key, slice):
            lo = smt.as_concrete_int(key.start) if key.start is not None else None
            hi = smt.as_concrete_int(key.stop) if key.stop is not None else None
            if (key.start is not None and lo is None) or (key.stop is not None and hi is None) or key.step is not None:
                raise Unsupported('symbolic slice of concrete list')
            res = list(items)[lo:hi]
            return tuple(res) if not isinstance(obj, ListVal) else ListVal(res)
        k = smt.as_concrete_int(key)
        if k is None:
            raise Unsupported('symbolic index into concrete list')
        if k < -len(items) or k >= len(items):
            it.raise_exc('IndexError', 'index out of range')
        return items[k]
    if isinstance(obj, HList):
        return hlist_getitem(it, obj, key)
    if isinstance(obj, bytes) and not isinstance(key, slice) and not smt.is_z3(key):
        if key < -len(obj) or key >= len(obj):
            it.raise_exc('IndexError', 'index out of range')
        return obj[key]
    if isinstance(obj, bytes) and isinstance(key, slice) and not any(smt.is_z3(x) for x in (key.start, key.stop)):
        return obj[key]
    if is_byteslike(obj):
        from .bytesops import bytes_index, bytes_slice
        if isinstance(key, slice):
            if key.step is not None:
                raise Unsupported('bytes slice with step')
            return bytes_slice(it, obj, key.start, key.stop)
        return bytes_index(it, obj, key)
    if isinstance(obj, str) and not smt.is_z3(key):
        return obj[key]
    if isinstance(obj, SeqVal):
        from . import folds
        if isinstance(key, slice):
            if key.step is not None:
                raise Unsupported('seq slice with step')
            return folds.seq_slice(it, obj, key.start, key.stop)
        return folds.seq_index(it, obj, key)
    if isinstance(obj, Obj):
        gi, owner = obj.cls.lookup('__getitem__')
        if owner is not None:
            return it.call(bind(it, obj, gi), [key], {})
    if isinstance(obj, Opaque):
        raise Unsupported('subscript of opaque %s' % obj.name)
    raise Unsupported('subscript of %r' % (obj,))


def hlist_getitem(it, obj, key):
    """positional access / slicing of an HList at its known elements only"""
    from .values import Segment
    parts = obj.parts
    n = len(parts)
    has_seg = bool(obj.segments())
    npre = 0
    while npre < n and not isinstance(parts[npre], Segment):
        npre += 1
    nsuf = 0
    while nsuf < n and not isinstance(parts[n - 1 - nsuf], Segment):
        nsuf += 1

    def pos(x, default):
        """index into `parts` for a slice bound"""
        if x is None:
            return default
        c = smt.as_concrete_int(x)
        if c is None:
            raise Unsupported('symbolic slice bound on a list with symbolic segments')
        if not has_seg:
            return max(0, n + c) if c < 0 else min(c, n)
        if c >= 0:
            if c <= npre:
                return c
            raise Unsupported('slice bound %d beyond the known prefix of %r' % (c, obj))
        if -c <= nsuf:
            return n + c
        raise Unsupported('slice bound %d beyond the known suffix of %r' % (c, obj))
    if isinstance(key, slice):
        if key.step is not None:
            raise Unsupported('list slice with step')
        a, b = pos(key.start, 0), pos(key.stop, n)
        return HList(parts[a:b])
    k = smt.as_concrete_int(key)
    if k is None:
        raise Unsupported('symbolic index into a list with symbolic segments')
    if k >= 0 and k < npre:
        return parts[k]
    if k < 0 and -k <= nsuf:
        return parts[n + k]
    if not has_seg:
        it.raise_exc('IndexError', 'list index out of range')
    raise Unsupported('index %d into the symbolic segment of %r' % (k, obj))


def setitem(it, obj, key, v):
    if isinstance(obj, DictVal):
        return it.dict_set(obj, key, v)
    if isinstance(obj, ListVal):
        k = smt.as_concrete_int(key)
        if k is None:
            raise Unsupported('symbolic index store')
        if k < -len(obj.items) or k >= len(obj.items):
            it.raise_exc('IndexError', 'list assignment index out of range')
        obj.items[k] = v
        return
    if isinstance(obj, Obj):
        si, owner = obj.cls.lookup('__setitem__')
        if owner is not None:
            return it.call(bind(it, obj, si), [key, v], {})
    raise Unsupported('subscript store on %r' % (obj,))
