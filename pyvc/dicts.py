"""Dictionary model: ordered update chain with concrete or symbolic keys and range entries.

Entries: (kind, key, value); kind 'key' (key is a value) or 'range' (key = (prefix, lo, hi):
matches prefix + (k,) with lo <= k <= hi).  Later entries shadow earlier ones.  Concrete
hashable keys are indexed so that concrete traffic is O(1)."""
import z3
from . import smt
from .values import DictVal, Unsupported, is_intlike, int_term
from . import ops


def hashable_key(k):
    """concrete key usable as a Python dict key (bools normalised like Python does), else None"""
    if isinstance(k, bool):
        return int(k)
    if isinstance(k, (int, str, bytes)) or k is None:
        return k
    if isinstance(k, tuple):
        out = []
        for x in k:
            h = hashable_key(x)
            if h is None and x is not None:
                return None
            out.append(h)
        return tuple(out)
    from .values import ClassVal, FuncVal
    if isinstance(k, (ClassVal, FuncVal)):
        return ('@id', id(k))
    return None


def _index(d):
    idx = getattr(d, 'cindex', None)
    if idx is None or getattr(d, 'indexed', 0) != len(d.entries):
        idx = {}
        sym = []
        for i, (kind, k, _) in enumerate(d.entries):
            h = hashable_key(k) if kind == 'key' else None
            if h is None and not (kind == 'key' and k is None):
                sym.append(i)
            else:
                idx[h] = i
        d.cindex = idx
        d.sym = sym
        d.indexed = len(d.entries)
    return d.cindex, d.sym


def key_match(it, entry, key):
    """Condition (bool / BoolRef) under which `entry` is the binding for `key`."""
    kind, k, _ = entry
    if kind == 'key':
        try:
            return ops.values_equal(it, k, key)
        except Unsupported:
            return False
    prefix, lo, hi = k
    if prefix:
        if not isinstance(key, tuple) or len(key) != len(prefix) + 1:
            return False
        head = ops.values_equal(it, tuple(prefix), tuple(key[:-1]))
        last = key[-1]
    else:
        if isinstance(key, tuple):
            return False
        head = True
        last = key
    if not is_intlike(last):
        return False
    if not smt.is_z3(last) and not smt.is_z3(lo) and not smt.is_z3(hi):
        rng = int(lo) <= int(last) <= int(hi)
    else:
        t = int_term(last)
        rng = z3.And(int_term(lo) <= t, t <= int_term(hi))
    return ops.conj([head, rng])


def _lookup_layered(it, d, key):
    """update chain containing whole dictionaries ('layer' entries, from dict.update with an
    abstractly given dictionary): newest first, branching entry by entry"""
    for kind, k, v in reversed(d.entries):
        if kind == 'layer':
            f, val = lookup(it, k, key)
            if f:
                return True, val
            continue
        m = key_match(it, (kind, k, v), key)
        if m is False:
            continue
        if m is True or it.p.branch(m):
            return True, v
    if d.base is not None:
        return d.base(it, key)
    return False, None


def lookup(it, d, key):
    """Returns (found: bool, value).  Branches over the entries that may match."""
    if any(e[0] == 'layer' for e in d.entries):
        return _lookup_layered(it, d, key)
    cindex, sym = _index(d)
    h = hashable_key(key)
    if h is not None or key is None:
        ci = cindex.get(h, -1)
        order = [i for i in reversed(sym) if i > ci]
        tail = [ci] if ci >= 0 else []
        cand_idx = order + tail
    else:
        cand_idx = list(range(len(d.entries) - 1, -1, -1))
    conds = []
    cands = []
    rest = True   # condition that no later entry matched
    for i in cand_idx:
        entry = d.entries[i]
        m = key_match(it, entry, key)
        if m is False:
            continue
        c = ops.conj([rest, m])
        if c is not False:
            conds.append(c)
            cands.append(entry)
        if m is True:
            rest = False
            break
        rest = ops.conj([rest, ops.neg(m)])
    if rest is not False:
        conds.append(rest)
        cands.append(None)
    if len(conds) == 1 and conds[0] is True:
        pick = 0
    else:
        pick = it.p.choose(conds, 'dict lookup')
    e = cands[pick]
    if e is None:
        if d.base is not None:
            return d.base(it, key)
        return False, None
    return True, e[2]


def dict_get(it, d, key, default=Ellipsis):
    found, v = lookup(it, d, key)
    if found:
        return v
    if default is Ellipsis:
        it.raise_exc('KeyError', key)
    return default


def dict_contains(it, d, key):
    found, _ = lookup(it, d, key)
    return found


def dict_set(it, d, key, v):
    cindex, sym = _index(d)
    h = hashable_key(key)
    if h is not None or key is None:
        ci = cindex.get(h, -1)
        if ci >= 0 and not any(i > ci for i in sym):
            # same concrete key, nothing symbolic afterwards: replace in place (keeps order)
            d.entries[ci] = ('key', d.entries[ci][1], v)
            return
        d.entries.append(('key', key, v))
        cindex[h] = len(d.entries) - 1
        d.indexed = len(d.entries)
        return
    d.entries.append(('key', key, v))


def dict_keys(it, d):
    """Keys in insertion order; only for chains of concrete keys."""
    cindex, sym = _index(d)
    if sym:
        raise Unsupported('iteration over dictionary with symbolic/range keys')
    if d.base is not None:
        raise Unsupported('iteration over dictionary with symbolic background')
    seen = set()
    keys = []
    for kind, k, _ in d.entries:
        h = hashable_key(k)
        if h in seen:
            continue
        seen.add(h)
        keys.append(k)
    return keys


def dict_truthy(it, d):
    if any(e[0] != 'layer' for e in d.entries):
        return True
    if d.entries:
        raise Unsupported('truthiness of a dictionary updated with an abstract dictionary')
    if d.base is not None:
        if d.size is not None:
            return it.p.branch(int_term(d.size) > 0)
        raise Unsupported('truthiness of dictionary with symbolic background')
    return False


def dict_range_update(it, d, prefix, lo, hi, v):
    d.entries.append(('range', (tuple(prefix), lo, hi), v))
