"""Loops with specifications (inductive invariants, variants, ghost state) and generators
collected into sequences."""
import ast
import z3
from . import smt
from .values import (Unsupported, PathEnd, Raised, BreakSignal, ContinueSignal, ReturnSignal,
                     ListVal, SeqVal, Stream, GenVal, IterSource, Obj, Packed, int_term)
from .contracts import spec_eval, as_formula, parse_expr, parse_stmts
from .pack import fresh_value, to_term


def eval_in(it, frame, expr):
    """spec expressions of a loop are evaluated directly in the function's frame"""
    try:
        return spec_eval(it, expr, frame)
    except Raised as r:
        # a specification that cannot be evaluated on the current code is a checker error
        # (sidecar out of date), never a verdict about the code
        raise Unsupported('loop specification %r raised %s%r' % (expr, r.exc.cls.name, r.exc.fields.get('args')))


def exec_in(it, frame, src):
    saved = it.spec_mode
    it.spec_mode = True
    try:
        it.exec_block(parse_stmts(src), frame)
    except Raised as r:
        raise Unsupported('loop specification %r raised %s%r' % (src, r.exc.cls.name, r.exc.fields.get('args')))
    finally:
        it.spec_mode = saved


_MUTATORS = frozenset(('append', 'extend', 'insert', 'remove', 'pop', 'clear', 'sort', 'reverse', 'setdefault',
                       'update', 'popitem', 'add', 'discard', 'appendleft', 'popleft',
                       'intersection_update', 'difference_update', 'symmetric_difference_update'))


def havoc_var(it, frame, name, how):
    p = it.p
    if isinstance(how, tuple) and how[0] in ('recompute', 'assign_dict'):
        return (how[0], name, how[1])
    if isinstance(how, tuple) and how[0] == 'hlist_grow':
        # the loop only appends elements of family how[1] to this list: at the loop head it is its
        # value on entry followed by an unknown number of such elements (checked at 'preserve')
        from .values import HList, Segment
        cur, ok = frame.lookup(name)
        if isinstance(cur, ListVal):
            cur = HList(cur.items)
        if not isinstance(cur, HList):
            raise Unsupported('havoc hlist_grow: %s is not a list' % name)
        seg = Segment(SeqVal(p.fresh(name + '.grown', it.types.sort_of('Seq[%s]' % how[1])), how[1]))
        new = HList(cur.parts + [seg])
        _store(frame, name, new)
        frame.locals['_grow_' + name] = (list(new.parts), how[1])
        return None
    if how == 'rstream':
        st, ok = frame.lookup(name)
        if not isinstance(st, Stream):
            raise Unsupported('havoc rstream: %s is not a stream' % name)
        total = it.binop(ast.Add(), st.before, st.rem)
        st.before = p.fresh_bytes(name + '.before')
        st.rem = p.fresh_bytes(name + '.rem')
        from .values import bytes_term
        p.assume(z3.Concat(st.before, st.rem) == bytes_term(total))
        return None
    if isinstance(how, str) and how.startswith('field:'):
        # 'field:obj.attr:desc'
        _, path, desc = how.split(':', 2)
        oname, attr = path.split('.')
        o, ok = frame.lookup(oname)
        o.fields[attr] = fresh_value(it, path, desc)
        return None
    v = fresh_value(it, name, how)
    _store(frame, name, v)
    return None


def _store(frame, name, v):
    f = frame
    while f is not None:
        if name in f.locals:
            f.locals[name] = v
            return
        f = f.closure
    frame.locals[name] = v


_LOOP_GHOSTS = ('_todo', '_head', '_pos')


def run_loop_with_spec(it, node, frame, spec, kind, iterable=None):
    """nested specified loops of one function share the frame: the engine's ghost names belong to
    the innermost running loop; on leaving a loop its final values stay available under
    ordinal-qualified names (`_todo_1`, `_head_1`) and the enclosing loop gets its own back"""
    saved = {k: frame.locals[k] for k in _LOOP_GHOSTS if k in frame.locals}
    try:
        return _run_loop_with_spec(it, node, frame, spec, kind, iterable)
    finally:
        for k in _LOOP_GHOSTS:
            if k in frame.locals:
                frame.locals['%s_%d' % (k, spec.key[1])] = frame.locals[k]
            if k in saved:
                frame.locals[k] = saved[k]
            else:
                frame.locals.pop(k, None)


def _run_loop_with_spec(it, node, frame, spec, kind, iterable=None):
    p = it.p
    qn = '%s:%d' % spec.key
    # the loop specification as seen by the property being checked (shared part + its own clauses)
    pid = it.hooks.get('pid')
    lem_head, lem_tail, invariants = spec.parts(pid)
    only_for = getattr(spec, 'only_for', None)
    spec_ghost = spec.ghost
    spec_consts = spec.consts
    if only_for and pid not in only_for:
        # the shared clauses talk about a value-level specification (e.g. the round trip); this
        # property only needs the havoc, the variant and its own clauses
        d = spec.by_prop.get(pid, {})
        lem_head, lem_tail, invariants = d.get('head', []), d.get('tail', []), d.get('invariants', [])
        spec_ghost, spec_consts = [], []
    spec_consts = list(spec_consts) + list(spec.by_prop.get(pid, {}).get('consts', []))
    # ---- ghost initialisation and loop-kind specific state
    for (name, expr) in spec_consts:
        frame.locals[name] = eval_in(it, frame, expr)
    for (name, desc, init, step) in spec_ghost:
        frame.locals[name] = eval_in(it, frame, init)
    src_elt = None
    if kind == 'for':
        base_iter = iterable
        if isinstance(iterable, IterSource) and iterable.kind in ('seqmap', 'genexpr0'):
            gnode, first, sub = iterable.data[0], iterable.data[1], iterable.data[2]
            src_elt = (gnode, sub)
            base_iter = first
        if isinstance(base_iter, SeqVal):
            frame.locals['_todo'] = base_iter
            loop_kind = 'seq'
        elif isinstance(base_iter, IterSource) and base_iter.kind == 'range':
            lo, hi, st = base_iter.data
            if not p.must(int_term(st) > 0):
                if p.branch(int_term(st) > 0):
                    pass
                elif p.branch(int_term(st) == 0):
                    it.raise_exc('ValueError', 'range() arg 3 must not be zero')
                elif not p.must(int_term(lo) <= int_term(hi)) and p.branch(int_term(lo) > int_term(hi)):
                    raise Unsupported('descending range loop under a loop specification')
                else:
                    # negative step and lo <= hi: the range is empty, the loop is skipped
                    for (name, expr) in spec_consts:
                        frame.locals[name] = eval_in(it, frame, expr)
                    for (name, desc, init, step) in spec_ghost:
                        frame.locals[name] = eval_in(it, frame, init)
                    frame.locals['_pos'] = lo
                    lem_exit = [] if (only_for and pid not in only_for) else list(getattr(spec, 'exit', ()))
                    lem_exit += spec.by_prop.get(pid, {}).get('exit', [])
                    for src in lem_exit:
                        exec_in(it, frame, src)
                    it.exec_block(node.orelse, frame)
                    return
            frame.locals['_pos'] = lo
            loop_kind = 'range'
            rng = (lo, hi, st)
        else:
            raise Unsupported('loop spec on a for-loop over %r' % (base_iter,))
    else:
        loop_kind = 'while'

    def check_invariants(stage):
        for label, expr in invariants:
            v = eval_in(it, frame, expr)
            p.oblige('%s#inv:%s:%s' % (qn, stage, label), as_formula(it, v), kind='invariant')

    check_invariants('entry')
    # ---- havoc
    # Frame soundness: every local variable (and every attribute of `self`) that the loop body
    # assigns syntactically and that the specification does not havoc carries, at the head of an
    # arbitrary iteration, a value from an earlier iteration.  It is replaced by a poisoned value:
    # passing it around is fine, *using* it leaves the supported subset (exit 3), so an
    # incomplete havoc list can never turn into a wrong verdict.
    mentioned = ' '.join(str(s) for s in getattr(spec, 'havoc_stmts', ())) + ' ' + \
        ' '.join(e for _, e in invariants) + ' ' + ' '.join(str(h) for h in spec.havoc.values())
    targets = {n.id for n in ast.walk(node.target) if isinstance(n, ast.Name)} if kind == 'for' else set()
    assigned, self_attrs, mutated = set(), set(), set()

    def _scan(n):
        if isinstance(n, (ast.FunctionDef, ast.Lambda, ast.ClassDef)):
            return
        if isinstance(n, ast.Name) and isinstance(n.ctx, ast.Store):
            assigned.add(n.id)
        if isinstance(n, ast.Attribute) and isinstance(n.ctx, ast.Store) and isinstance(n.value, ast.Name) \
                and n.value.id == 'self':
            self_attrs.add(n.attr)
        # a local container mutated in place (`d[k] = v`, `del d[k]`, `d.setdefault(..)`, `l.append(..)`) is
        # assigned as far as the frame is concerned (seed R5_C09: a dict filled across iterations)
        if isinstance(n, ast.Subscript) and isinstance(n.ctx, (ast.Store, ast.Del)) and isinstance(n.value, ast.Name):
            mutated.add(n.value.id)
        if isinstance(n, ast.Call) and isinstance(n.func, ast.Attribute) and isinstance(n.func.value, ast.Name) \
                and n.func.attr in _MUTATORS:
            mutated.add(n.func.value.id)
        for c in ast.iter_child_nodes(n):
            _scan(c)
    for s_ in node.body:
        _scan(s_)
    from .values import Opaque
    for name in sorted(assigned - targets - set(spec.havoc) - {g[0] for g in spec_ghost}):
        if name.startswith('_') or name in mentioned.split() or ('(%s' % name) in mentioned or (name + ',') in mentioned:
            continue
        cur, bound = frame.lookup(name)
        if bound and name in frame.locals:
            frame.locals[name] = Opaque('%s: value from an earlier iteration (not in the havoc list)' % name)
    from .values import ListVal, DictVal, SetVal, HList
    for name in sorted(mutated - assigned - targets - set(spec.havoc) - {g[0] for g in spec_ghost}):
        if name.startswith('_') or name in mentioned.split() or ('(%s' % name) in mentioned or (name + ',') in mentioned:
            continue
        if name in frame.locals and isinstance(frame.locals[name], DictVal):
            # arbitrary contents at the head of an arbitrary iteration: presence of a key is unknown, a value found
            # is one from an earlier iteration (usable only by passing it on) -- the rule of `havoc_dict_attr`
            class _Holder(object):
                fields = {name: frame.locals[name]}
            it.spec_prelude['havoc_dict_attr'].fn(it, [_Holder, name], {})
        elif name in frame.locals and isinstance(frame.locals[name], (ListVal, SetVal, HList)):
            frame.locals[name] = Opaque('%s: container mutated in an earlier iteration (not in the havoc list)' % name)
    me_, has_self = frame.lookup('self')
    if has_self and isinstance(me_, Obj):
        for attr in sorted(self_attrs):
            if ('self.' + attr) in mentioned or ('"%s"' % attr) in mentioned or 'havoc(self)' in mentioned or \
                    '_havoc(self)' in mentioned or '_inv(self)' in mentioned or '_invariant(self)' in mentioned:
                continue
            if attr in me_.fields:
                me_.fields[attr] = Opaque('self.%s: value from an earlier iteration (not in the havoc list)' % attr)
    recomputes = []
    for name, how in spec.havoc.items():
        r = havoc_var(it, frame, name, how)
        if r is not None:
            recomputes.append(r)
    for (name, desc, init, step) in spec_ghost:
        _store(frame, name, fresh_value(it, name, desc))
    for src in getattr(spec, 'havoc_stmts', ()):
        # heap locations the body writes (fresh values via the prelude); an entry (var, stmt)
        # applies only if `var` is bound at the loop head (an object created inside the body
        # carries no state from one iteration to the next)
        if isinstance(src, tuple):
            var, src = src
            if not frame.lookup(var)[1]:
                continue
        exec_in(it, frame, src)
    if loop_kind == 'seq':
        old = frame.locals['_todo']
        frame.locals['_todo'] = SeqVal(p.fresh('_todo', old.term.sort()), old.elem)
        # `_head`: the element bound by the current iteration as a one-element sequence (empty
        # until an iteration starts)
        frame.locals['_head'] = SeqVal(z3.Empty(old.term.sort()), old.elem)
    elif loop_kind == 'range':
        # the current position: some lo + k*step reached by stepping while the guard held.  Only
        # the linear consequences are stated (a product k*step of two symbols would leave linear
        # arithmetic): pos >= lo, and pos == lo or the previous position passed the guard.
        pos = p.fresh_int('_pos')
        p.assume(pos >= int_term(rng[0]))
        p.assume(z3.Or(pos == int_term(rng[0]),
                       z3.And(pos - int_term(rng[2]) >= int_term(rng[0]),
                              pos - int_term(rng[2]) < int_term(rng[1]))))
        frame.locals['_pos'] = pos
    for (how, name, expr) in recomputes:
        if how == 'assign_dict':
            # the invariant *defines* the dictionary (extensionally) from the other variables:
            # give the existing dictionary object exactly those bindings
            src = eval_in(it, frame, expr)
            tgt, ok = frame.lookup(name)
            if not ok:
                tgt = frame.module.attrs.get(name)
            tgt.entries = list(src.entries)
            tgt.base = src.base
            tgt.cindex = None
        else:
            _store(frame, name, eval_in(it, frame, expr))
    # ---- assume invariants
    for label, expr in invariants:
        v = eval_in(it, frame, expr)
        p.assume(as_formula(it, v))
    for src in lem_head:
        exec_in(it, frame, src)
    # ---- guard
    if loop_kind == 'while':
        go = it.truthy(it.eval(node.test, frame))
    elif loop_kind == 'seq':
        go = p.branch(z3.Length(frame.locals['_todo'].term) > 0)
    else:
        go = p.branch(int_term(frame.locals['_pos']) < int_term(rng[1]))
    if not go:
        lem_exit = list(getattr(spec, 'exit', ()))
        if only_for and pid not in only_for:
            lem_exit = []
        lem_exit += spec.by_prop.get(pid, {}).get('exit', [])
        for src in lem_exit:
            exec_in(it, frame, src)
        it.exec_block(node.orelse, frame)
        return
    measure0 = None
    if spec.decreases is not None:
        measure0 = int_term(eval_in(it, frame, spec.decreases))
    elif loop_kind == 'seq':
        measure0 = z3.Length(frame.locals['_todo'].term)
    elif loop_kind == 'range':
        measure0 = int_term(rng[1]) - int_term(frame.locals['_pos'])
    # ---- bind the loop variable
    skipped = False
    if loop_kind == 'seq':
        todo = frame.locals['_todo']
        from .folds import seq_split, seq_index
        head, rest = seq_split(it, todo, 1)
        x = seq_index(it, todo, 0)
        frame.locals['_todo'] = rest
        frame.locals['_head'] = head
        if src_elt is not None:
            gnode, sub = src_elt
            it.assign(gnode.generators[0].target, x, sub)
            # a filtered generator expression: elements failing the filter are skipped
            for cond in gnode.generators[0].ifs:
                if not it.truthy(it.eval(cond, sub)):
                    skipped = True
                    break
            if not skipped:
                x = it.eval(gnode.elt, sub)
        if not skipped:
            it.assign(node.target, x, frame)
    elif loop_kind == 'range':
        x = frame.locals['_pos']
        frame.locals['_pos'] = z3.simplify(int_term(x) + int_term(rng[2]))
        if src_elt is not None:
            gnode, sub = src_elt
            it.assign(gnode.generators[0].target, x, sub)
            x = it.eval(gnode.elt, sub)
        it.assign(node.target, x, frame)
    # ghost copies of the loop targets as bound for this iteration (`_entry_<name>`): clauses that speak of "the
    # element of this iteration" use them, so a body that rebinds the target cannot move the goal posts
    if loop_kind in ('seq', 'range') and not skipped:
        for n_ in ast.walk(node.target):
            if isinstance(n_, ast.Name) and n_.id in frame.locals:
                frame.locals['_entry_' + n_.id] = frame.locals[n_.id]
    # ---- body
    try:
        if not skipped:
            it.exec_block(node.body, frame)
    except ContinueSignal:
        pass
    except BreakSignal:
        # leaves the loop with the current state; for/while-else is skipped.  A for-loop whose
        # specification speaks about every element must not be left while elements remain (the
        # per-iteration clauses say nothing about elements that are never reached), unless the
        # specification allows it (search loops).
        if not getattr(spec, 'allow_break', False):
            if loop_kind == 'seq':
                p.oblige('%s#break:nothing-left-unprocessed' % qn,
                         z3.Length(frame.locals['_todo'].term) == 0, kind='frame', assume_after=False)
            elif loop_kind == 'range':
                p.oblige('%s#break:nothing-left-unprocessed' % qn,
                         int_term(frame.locals['_pos']) >= int_term(rng[1]), kind='frame', assume_after=False)
        for src in getattr(spec, 'on_break', ()):
            exec_in(it, frame, src)
        return
    except ReturnSignal:
        # `return` from inside the loop body: the same requirement as for `break`
        if not getattr(spec, 'allow_break', False) and not it.spec_mode:
            if loop_kind == 'seq':
                p.oblige('%s#return:nothing-left-unprocessed' % qn,
                         z3.Length(frame.locals['_todo'].term) == 0, kind='frame', assume_after=False)
            elif loop_kind == 'range':
                p.oblige('%s#return:nothing-left-unprocessed' % qn,
                         int_term(frame.locals['_pos']) >= int_term(rng[1]), kind='frame', assume_after=False)
        raise
    for (name, desc, init, step) in spec_ghost:
        if step is not None:
            _store(frame, name, eval_in(it, frame, step))
    for src in lem_tail:
        exec_in(it, frame, src)
    check_invariants('preserve')
    for name, how in spec.havoc.items():
        if isinstance(how, tuple) and how[0] == 'hlist_grow':
            from .values import HList, Segment
            parts0, elem = frame.locals['_grow_' + name]
            cur, ok = frame.lookup(name)
            fam = [r.cls for r in it.types.members_of(elem)]
            good = isinstance(cur, HList) and len(cur.parts) >= len(parts0) and \
                all(a is b for a, b in zip(cur.parts, parts0)) and \
                all(isinstance(x, Obj) and x.cls in fam for x in cur.parts[len(parts0):])
            p.oblige('%s#frame:%s:append-only' % (qn, name), z3.BoolVal(bool(good)), kind='frame',
                     meta={'list': name, 'elements': elem}, assume_after=False)
    if measure0 is not None:
        if spec.decreases is not None:
            m1 = int_term(eval_in(it, frame, spec.decreases))
        elif loop_kind == 'seq':
            m1 = z3.Length(frame.locals['_todo'].term)
        else:
            m1 = int_term(rng[1]) - int_term(frame.locals['_pos'])
        # well-founded: the measure is non-negative whenever the body is entered and strictly
        # smaller after it (a range loop may step past its upper bound on the last iteration)
        p.oblige('%s#decreases' % qn, z3.And(measure0 >= 0, m1 < measure0), kind='variant')
    raise PathEnd('loop iteration verified (%s)' % qn)


def collect_generator(it, gen):
    """list(generator): run the body with an accumulator.  If the generator's loops have a
    spec with an accumulator declaration, accumulate into a symbolic sequence."""
    q = gen.frame.qualname
    acc_spec = None
    for key, ls in it.loop_specs.items():
        if key[0] == q and ls.acc is not None:
            acc_spec = ls.acc
    if acc_spec is None:
        out = []
        it.run_generator(gen, out.append)
        return ListVal(out)
    name, elem = acc_spec
    fr = gen.frame
    fr.locals[name] = SeqVal(z3.Empty(it.types.sort_of('Seq[%s]' % elem)), elem)

    def handler(v):
        cur = fr.locals[name]
        t = to_term(it, v, elem)
        fr.locals[name] = SeqVal(z3.simplify(z3.Concat(cur.term, z3.Unit(t))), elem)
    it.run_generator(gen, handler)
    return fr.locals[name]
