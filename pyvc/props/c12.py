"""C12 -- no byte sequence from the peer can crash or hang the provider.

(A) DULServiceProvider._process_incoming with an *arbitrary* receive buffer: every PDU decoder
    (all seven, with their item / sub-item decoders inlined, the decode loops under their
    variant) is executed symbolically; no exception may escape, and the decode loops terminate
    (variant |remaining bytes| decreases).  An undecodable or unknown PDU becomes Evt19.
(B) DT-2 / AR-6 with a DIMSE decoder that may raise any Exception (pydicom on undecodable command
    sets, unknown command fields, empty PDVs): no exception may escape the action.
(C) Blocking typestate: in every protocol state _check_network calls recv() only on a socket
    that select() reported readable in the same call, so a silent peer cannot pin the loop.
(D) The state table is total on peer-caused events in every state in which the socket is read,
    and the cells reached by invalid PDUs (Evt19) send a well-formed A-ABORT (shared with C04).
"""
import z3
from ..values import (Obj, ListVal, Raised, Opaque, SeqVal, DictVal, Builtin, Unsupported, PathEnd)
from .. import verify, smt, ops
from . import c01, c04


def build_provider(it, role='acceptor'):
    dul = it.modules['pynetdicom2.dulprovider']
    sock_cls = it.model_modules['socket'].attrs['socket']
    sock = it.instantiate(sock_cls, [], {})
    sock.fields['name'] = 'peer-socket'
    store_in_file = it.call(it.builtins['frozenset'], [], {})
    args = [store_in_file, Opaque('get_file_cb')] + ([sock] if role == 'acceptor' else [])
    provider = it.instantiate(dul.attrs['DULServiceProvider'], args, {})
    provider.fields['to_service_user'].fields['name'] = 'to_service_user'
    provider.fields['from_service_user'].fields['name'] = 'from_service_user'
    return provider, sock


def run(ctx):
    # (D) first, on its own interpreter: the Evt19 row of the state table, every state x role x ARTIM x
    # primitive slot content (none, or a stale PDU of any kind -- e.g. the A-ABORT this side sent before):
    # an unrecognised or undecodable PDU is answered with a well-formed A-ABORT wherever the table says so
    c04.run(ctx, events=(19,))
    ctx.run_explorations()
    ctx.extra['evt19_row'] = {'cells': 13, 'explorations': 13 * 2 * 2 * 8}
    it = ctx.build()
    c01.setup_codec(ctx, it)
    # on arbitrary bytes the item decoders cannot be used through their round-trip contract
    it.mode.by_contract.discard('pdu.UserInformationItem.decode')
    it.mode.by_contract.discard('pdu.PresentationContextItemRQ.decode')
    fsm = it.modules['pynetdicom2.fsm']
    dul = it.modules['pynetdicom2.dulprovider']
    States, Events = fsm.attrs['States'], fsm.attrs['Events']
    res = verify.FunctionResult('dulprovider.')
    res2 = verify.FunctionResult('fsm.')
    infos = []
    for q in ('dulprovider.DULServiceProvider._process_incoming', 'dulprovider.DULServiceProvider._check_network',
              'dulprovider.DULServiceProvider._check_incoming_pdu',
              'fsm.StateMachine.dt_2', 'fsm.StateMachine.ar_6', 'pdu.AAssociatePDUBase.decode',
              'pdu.AAssociateRjPDU.decode', 'pdu.PDataTfPDU.decode', 'pdu.AReleasePDUBase.decode',
              'pdu.AAbortPDU.decode', 'pdu.UserInformationItem.decode', 'pdu.UserInformationItem.sub_items',
              'pdu.PresentationContextItemRQ.decode', 'pdu.PresentationContextItemAC.decode',
              'pdu.ApplicationContextItem.decode', 'pdu.PresentationDataValueItem.decode', 'pdu._next_type'):
        fv, _ = verify.lookup_function(it, q)
        infos.append(verify.function_info(it, fv))
    ctx.extra['functions'] = infos

    # ------------------------------------------------------------------ (A) decoders are total
    # Every decoder K gets the totality contract
    #     for ANY stream content: K.decode returns an instance of K having consumed >= 1 byte,
    #     or raises one of ALLOWED;  its loops terminate (variant |remaining bytes|)
    # proved per class with the nested decoders seen through the same contract (modular), and
    # then used for _process_incoming, which must not let any of ALLOWED escape.
    from ..contracts import Contract
    from ..values import Stream
    ALLOWED = ['struct.error', 'UnicodeDecodeError', 'exceptions.PDUProcessingError']
    T = c01.contracts_table()
    cc = it.hooks.setdefault('call_contracts', {})
    by_qual = {}
    for key, ent in T.items():
        qual = (ent.get('owner') or key) + '.decode'
        c = Contract(qual)
        c.result_expr = 'fresh_instance("%s")' % key
        if 'owner' not in ent:
            c.post_effects = ['consume_some(stream)']
        c.raises = [(e, None, False) for e in ALLOWED]
        by_qual.setdefault(qual, {})[c01.class_of(it, key)] = c
    for qual, per_cls in by_qual.items():
        def chooser(it2, fv, args, kwargs, per_cls=per_cls):
            return per_cls.get(args[0])
        cc[qual] = chooser
        it.mode.by_contract.add(qual)

    for key, ent in T.items():
        is_pdu = 'owner' in ent
        qual = (ent.get('owner') or key) + '.decode'
        cls = c01.class_of(it, key)
        v = Contract(qual)
        if is_pdu:
            param = 'raw_bytes' if ent['owner'] == 'pdu.AAssociatePDUBase' else 'rawstring'
            v.args = [('cls', [verify.const(cls.name, cls)]), (param, ['bytes'])]
        else:
            v.args = [('cls', [verify.const(cls.name, cls)]),
                      ('stream', [verify.Alt('any-stream', lambda it2, n: Stream(it2.p.fresh_bytes('before'),
                                                                               it2.p.fresh_bytes('content'), 'stream'))])]
            v.ensure('len(rem(stream)) < old(len(rem(stream)))', 'consumes')
        for e in ALLOWED:
            v.may_raise(e)
        v.ensure('isinstance_of(result, cls)', 'instance')
        ctx.verify(v, tag='total:' + key.split('.')[-1])

    # ------------------------------------------------------------------ (A') arbitrary receive buffer
    def process_incoming(p, label):
        provider, sock = build_provider(it)
        buf = p.fresh_bytes('raw_pdu')
        provider.fields['raw_pdu'] = buf
        ev0 = len(provider.fields['event'].fields['items'].items)
        try:
            r = it.call(it.getattr(provider, '_process_incoming'), [], {})
        except Raised as e:
            p.oblige('%s#noexc:%s' % (label, e.exc.cls.name), z3.BoolVal(False), kind='noexc',
                     meta={'exception': e.exc.cls.name, 'args': repr(e.exc.fields.get('args'))[:160]},
                     assume_after=False)
            p.outcome = 'normal'
            return
        ev1 = len(provider.fields['event'].fields['items'].items)
        if r is True:
            p.oblige('%s#one-event-per-frame' % label, z3.BoolVal(ev1 == ev0 + 1), kind='ensures', assume_after=False)
            # progress: a frame that produced an event has left the buffer (variant of the loop that
            # drains buffered input; otherwise the same bytes are framed again for ever)
            from ..values import bytes_term
            after = provider.fields['raw_pdu']
            p.oblige('%s#frame-leaves-the-buffer' % label,
                     z3.Length(bytes_term(after)) < z3.Length(bytes_term(buf)), kind='variant', assume_after=False)
        else:
            p.oblige('%s#no-event-without-frame' % label, z3.BoolVal(ev1 == ev0), kind='ensures', assume_after=False)
        p.outcome = 'normal'
    lab = 'dulprovider.DULServiceProvider._process_incoming'
    ctx.add_exploration(lab, lambda p: process_incoming(p, lab), res, target=lab)

    # ------------------------------------------------------------------ (B) DT-2 / AR-6 with a failing decoder
    def data_action(p, name, label):
        it.hooks['call_contracts']['fsm.DIMSEDecoder.process'] = ctx.registry.contracts['fsm.DIMSEDecoder.process@total']
        provider, sock = build_provider(it)
        sm = provider.fields['state_machine']
        sm.fields['current_state'] = States.attrs['STA_6' if name == 'dt_2' else 'STA_7']
        provider.fields['primitive'] = c04.make_prim(it, 'P-DATA-TF')
        del p.trace[:]
        try:
            nxt = it.call(it.getattr(sm, name), [], {})
        except Raised as e:
            p.oblige('%s#noexc:%s' % (label, e.exc.cls.name), z3.BoolVal(False), kind='noexc',
                     meta={'exception': e.exc.cls.name}, assume_after=False)
            p.outcome = 'normal'
            return
        p.oblige('%s#state' % label, z3.BoolVal(isinstance(nxt, int)), kind='ensures', assume_after=False)
        p.outcome = 'normal'
    it.mode.by_contract.add('fsm.DIMSEDecoder.process')
    for name in ('dt_2', 'ar_6'):
        lab2 = 'fsm.StateMachine.%s' % name
        ctx.add_exploration(lab2, lambda p, name=name, lab2=lab2: data_action(p, name, lab2), res2, target=lab2)

    # ------------------------------------------------------------------ (C) recv only after select
    def check_network(p, sta, label):
        provider, sock = build_provider(it)
        sm = provider.fields['state_machine']
        sm.fields['current_state'] = States.attrs['STA_%d' % sta]
        provider.fields['raw_pdu'] = p.fresh_bytes('buffered')
        p.ghost['readable'] = False

        def select(it2, args, kw):
            ready = it2.p.branch(it2.p.fresh('socket_readable', smt.Bool))
            it2.p.ghost['readable'] = ready
            it2.p.trace.append(('select', ready))
            return (ListVal([sock]) if ready else ListVal([]), ListVal([]), ListVal([]))

        def recv(it2, args, kw):
            it2.p.oblige('%s#recv-guarded-by-select' % label, z3.BoolVal(bool(it2.p.ghost.get('readable'))),
                         kind='typestate', assume_after=False)
            if not it2.p.ghost.get('readable'):
                raise PathEnd('blocking recv() without select(): reported, path not followed further')
            it2.p.ghost['readable'] = False          # one grant, one read
            kind = it2.p.choose([True, True, True], 'recv outcome')
            if kind == 0:
                d = it2.p.fresh_bytes('chunk')
                it2.p.assume(z3.Length(d) > 0)
                return d
            if kind == 1:
                return b''
            it2.raise_exc('socket.error', 'connection reset')
        it.hooks['select'] = select
        it.hooks['recv'] = recv
        try:
            it.call(it.getattr(provider, '_check_network'), [], {})
        except Raised as e:
            p.oblige('%s#noexc:%s' % (label, e.exc.cls.name), z3.BoolVal(False), kind='noexc',
                     meta={'exception': e.exc.cls.name}, assume_after=False)
        p.outcome = 'normal'
    for sta in range(1, 14):
        lab3 = 'dulprovider.DULServiceProvider._check_network[Sta%d]' % sta
        ctx.add_exploration(lab3, lambda p, sta=sta, lab3=lab3: check_network(p, sta, lab3), res, target=None)

    # ------------------------------------------------------------------ (D) table total on peer events
    def table_total(p):
        provider, sock = build_provider(it)
        table = provider.fields['state_machine'].fields['transition_table']
        peer_events = (3, 4, 6, 10, 12, 13, 16, 17, 19)
        reading_states = (2, 3, 5, 6, 7, 8, 9, 10, 11, 12, 13)
        for e in peer_events:
            for s in reading_states:
                key = (Events.attrs['EVT_%d' % e], States.attrs['STA_%d' % s])
                p.oblige('fsm.StateMachine.__init__#peer-event-defined[Evt%d,Sta%d]' % (e, s),
                         z3.BoolVal(it.dict_contains(table, key) is True), kind='ensures', assume_after=False)
        p.outcome = 'normal'
    res3 = verify.FunctionResult('fsm.StateMachine.__init__')
    ctx.add_exploration('fsm.StateMachine.__init__', table_total, res3)

    ctx.assumptions += [
        'recv() returns any non-empty chunk, b"" (peer closed) or raises socket.error; select() is nondeterministic',
        'DIMSEDecoder.process may raise any Exception (pydicom reader is external)',
        'a well-formed A-ABORT in the Evt19 cells: the Evt19 row of the state table is re-generated here with C04\'s '
        'cell obligations (wire, user, transport, timer, next state)',
        'termination is proved for the decode loops (variant) and by the absence of unguarded blocking calls; '
        'OS-level liveness of select/recv is assumed',
    ]

    def replayer(ctx2, ob, model):
        from .. import replay
        return replay.run_native('c12.py', {'obligation': ob.name}, timeout=300)
    ctx.replayers['*'] = replayer
    ctx.native_crosschecks.append(('c12.py', {'obligation': ''}, 'malformed PDUs and fragments on the real provider'))
