"""C04 -- every cell of PS3.8 Table 9-10.

For each of the 13 x 19 cells, both roles, ARTIM running / not running before, and every
applicable current primitive: the real provider object is built by the real constructors, the
cell's pre-state is installed, StateMachine.action(event) is executed symbolically (the
transition table is the dict evaluated from the AST of StateMachine.__init__), and the effect
trace is compared channel by channel with spec/ps38_table_9_10.py.
"""
import importlib
import z3
from ..values import (Obj, ClassVal, ListVal, Raised, PathEnd, Opaque, BoundMethod, Unsupported,
                      int_term)
from .. import verify, smt, ops
from ..pack import fresh_value


def spec_table():
    import sys
    from .. import runner
    if runner.VERIF not in sys.path:
        sys.path.insert(0, runner.VERIF)
    return importlib.import_module('spec.ps38_table_9_10')


KIND_CLASS = {
    'A-ASSOCIATE-RQ': 'AAssociateRqPDU', 'A-ASSOCIATE-AC': 'AAssociateAcPDU',
    'A-ASSOCIATE-RJ': 'AAssociateRjPDU', 'P-DATA-TF': 'PDataTfPDU', 'A-RELEASE-RQ': 'AReleaseRqPDU',
    'A-RELEASE-RP': 'AReleaseRpPDU', 'A-ABORT': 'AAbortPDU',
}

PDU_ENCODERS = ['pdu.AAssociatePDUBase.encode', 'pdu.AAssociateRjPDU.encode', 'pdu.PDataTfPDU.encode',
                'pdu.AReleasePDUBase.encode', 'pdu.AAbortPDU.encode']


def socket_expected(T, evt, sta):
    """pre-state of the transport (invariant `Inv` of the provider loop, proved under C05):
    idle => no connection (except the acceptor's pending connection indication), Evt17 is
    produced only after the socket was closed and dropped."""
    if evt == 17:
        return 'none'
    if sta == 1:
        return 'open' if evt == 5 else 'none'
    return 'open'


def prim_kinds(T, evt, sta):
    k = T.EVENT_PRIMITIVE[evt]
    if k is not None:
        return [k]
    if evt == 2:
        return ['A-ASSOCIATE-RQ']       # Sta4 is entered by AE-1 with the request as primitive
    # no primitive of its own: the slot holds whatever was there
    return [None] + list(T.PDU_KINDS)


def make_prim(it, kind):
    if kind is None:
        return None
    pdu = it.modules['pynetdicom2.pdu']
    o = fresh_value(it, 'prim', 'pdu.' + KIND_CLASS[kind])
    if kind == 'A-ASSOCIATE-RQ':
        o.fields['called_presentation_address'] = (it.p.fresh('addr', smt.Str), it.p.fresh_int('port'))
    return o


def run(ctx, events=None):
    """events: restrict to these rows of the table (C12 re-generates the Evt19 row)"""
    T = spec_table()
    it = ctx.build(by_contract=PDU_ENCODERS + ['fsm.DIMSEDecoder.process'])
    fsm = it.modules['pynetdicom2.fsm']
    dul = it.modules['pynetdicom2.dulprovider']
    States, Events = fsm.attrs['States'], fsm.attrs['Events']
    sock_cls = it.model_modules['socket'].attrs['socket']

    def sta_val(n):
        return States.attrs['STA_%d' % n]

    def evt_val(n):
        return Events.attrs['EVT_%d' % n]

    fv, _ = verify.lookup_function(it, 'fsm.StateMachine.action')
    res = verify.FunctionResult('fsm.StateMachine.action')
    res.info = verify.function_info(it, fv)
    infos = {}
    sm_cls = fsm.attrs['StateMachine']
    for name, a in sorted(sm_cls.attrs.items()):
        if hasattr(a, 'node') and (name[:3] in ('ae_', 'dt_', 'ar_', 'aa_') or name == '__init__'):
            infos[name] = verify.function_info(it, a)
    ctx.extra['action_methods_under_contract'] = list(infos.values())

    cells_defined = 0
    for evt in (range(1, 20) if events is None else events):
        for sta in range(1, 14):
            cell = T.CELLS.get((evt, sta))
            cells_defined += 1 if cell else 0
            for role in ('acceptor', 'requestor'):
                for timer_running in (False, True):
                    for kind in prim_kinds(T, evt, sta):
                        label = 'fsm.StateMachine.action[Evt%d,Sta%d,%s,artim=%s,prim=%s]' % (
                            evt, sta, role, 'on' if timer_running else 'off', kind or 'none')

                        def run_cell(p, evt=evt, sta=sta, role=role, timer_running=timer_running,
                                     kind=kind, cell=cell, label=label):
                            one_cell(ctx, it, T, p, evt, sta, role, timer_running, kind, cell, label,
                                     sta_val, evt_val, sock_cls)
                        ctx.add_exploration(label, run_cell, res)
    if events is None:
        ctx.extra['cells'] = {'total': 247, 'defined_by_standard': cells_defined, 'exhaustive': True}
        ctx.extra['exhaustive'] = True
    ctx.assumptions += [
        'transport pre-state per cell = provider-loop invariant Inv (idle => no socket; Evt17 only after the '
        'socket was closed and dropped; socket open otherwise) -- proved separately under C05',
        'PDU encode() seen through its contract (pure, type byte = pdu_type); layout itself is C02',
        'DIMSEDecoder.process seen through its contract (updates decoder state only); reassembly is C07',
        'socket / queue / thread / clock are effect stubs appending to a ghost trace (pyvc/builtins.py)',
        'oracle: spec/ps38_table_9_10.py transcription of PS3.8 Tables 9-6..9-10',
    ]
    ctx.trusted_base += ['spec/ps38_table_9_10.py transcription of PS3.8 Table 9-10 and action tables']

    def replayer(ctx2, ob, model):
        import re
        from .. import replay
        m = re.search(r'\[Evt(\d+),Sta(\d+),(\w+),artim=(\w+),prim=([\w-]+)\]#([\w:-]+)', ob.name)
        if not m:
            return None
        return replay.run_native('c04.py', {'evt': int(m.group(1)), 'sta': int(m.group(2)), 'role': m.group(3),
                                            'artim': m.group(4) == 'on', 'prim': m.group(5),
                                            'channel': m.group(6)})
    ctx.replayers['fsm.StateMachine.action*'] = replayer

    if ctx.tier == 'thorough' and events is None:
        from .. import replay
        r = replay.run_native('c04.py', {'all': True}, timeout=900)
        ok = 'error' not in r and not r.get('reproduced')
        ctx.bounded.append({'what': 'CPython cross-check: every cell x role x ARTIM x primitive kind executed on the '
                                    'real StateMachine with a fake socket (engine soundness guard)',
                            'bound': '4888 concrete cell executions (one concrete primitive per kind, with and without an unread earlier indication; bytes of a further PDU buffered)',
                            'evaluations': r.get('evaluations', 0), 'ok': ok,
                            'failures': r.get('failures', [])[:5]})
        ctx.native_failures = r.get('failures', []) if 'error' not in r else [r]


def after_discharge(ctx):
    fails = getattr(ctx, 'native_failures', None)
    if fails:
        refuted = set()
        import re
        for o in ctx.obligations:
            if o.verdict == 'refuted':
                m = re.search(r'\[Evt(\d+),Sta(\d+),', o.name)
                if m:
                    refuted.add((int(m.group(1)), int(m.group(2))))
        extra = [f for f in fails if (f.get('evt'), f.get('sta')) not in refuted]
        if extra:
            ctx.audits.append(('native-cross-check', False,
                               'cells fail natively but every obligation of the cell was proved '
                               '(engine/model unsound): %r' % (extra[:3],)))


def one_cell(ctx, it, T, p, evt, sta, role, timer_running, kind, cell, label, sta_val, evt_val, sock_cls):
    dul = it.modules['pynetdicom2.dulprovider']
    provider_cls = dul.attrs['DULServiceProvider']
    # ---- build the provider with the real constructors
    sock = it.instantiate(sock_cls, [], {})
    sock.fields['name'] = 'peer-socket'
    store_in_file = it.call(it.builtins['frozenset'], [], {})
    get_file_cb = Opaque('get_file_cb')
    if role == 'acceptor':
        provider = it.instantiate(provider_cls, [store_in_file, get_file_cb, sock], {})
    else:
        provider = it.instantiate(provider_cls, [store_in_file, get_file_cb], {})
    sm = provider.fields['state_machine']
    timer = provider.fields['timer']
    provider.fields['to_service_user'].fields['name'] = 'to_service_user'
    provider.fields['from_service_user'].fields['name'] = 'from_service_user'
    # ---- install the cell's pre-state
    sm.fields['current_state'] = sta_val(sta)
    want_sock = socket_expected(T, evt, sta)
    provider.fields['dul_socket'] = sock if want_sock == 'open' else None
    prim = make_prim(it, kind)
    provider.fields['primitive'] = prim
    if timer_running:
        t0 = p.fresh_int('t0')
        p.assume(t0 > 0)
        timer.fields['_start_time'] = t0
    else:
        timer.fields['_start_time'] = None
    pre_timer = timer.fields['_start_time']
    pre_state = sm.fields['current_state']
    pre_sock = provider.fields['dul_socket']
    # what else the provider holds is arbitrary: bytes of further PDUs already received, and possibly an earlier
    # indication the user has not read yet -- an action neither depends on them nor touches them (frame)
    pre_buffer = p.fresh_bytes('received_but_not_yet_framed')
    provider.fields['raw_pdu'] = pre_buffer
    unread = Opaque('earlier indication not yet read by the user')
    user_q = provider.fields['to_service_user'].fields['items'].items
    del user_q[:]
    if p.choose([True, True], 'an earlier indication is still unread'):
        user_q.append(unread)
    pre_unread = list(user_q)
    del p.trace[:]
    p.ghost['pure_calls'] = []
    action = it.getattr(sm, 'action')
    raised = None
    try:
        it.call(action, [evt_val(evt)], {})
        p.outcome = 'normal'
    except Raised as r:
        raised = r.exc
        p.outcome = 'normal'   # a raising cell is still an explored cell
    trace = list(p.trace)
    sends = [e for e in trace if e[0] == 'sendall']
    puts = [e for e in trace if e[0] == 'put' and e[1] == 'to_service_user']
    closes = [e for e in trace if e[0] == 'close']
    connects = [e for e in trace if e[0] == 'connect']

    def ob(channel, goal, **meta):
        if isinstance(goal, bool):
            goal = z3.BoolVal(goal)
        meta.update(trace=[repr(e)[:120] for e in trace], raised=raised.cls.name if raised else None)
        p.oblige('%s#%s' % (label, channel), goal, kind='cell', meta=meta, assume_after=False)

    cur_timer = timer.fields['_start_time']

    def timer_unchanged():
        if pre_timer is None or cur_timer is None:
            return pre_timer is None and cur_timer is None
        return int_term(pre_timer) == int_term(cur_timer)

    if raised is None or cell is None:
        after_buffer = provider.fields.get('raw_pdu')
        ob('frame:receive-buffer-untouched', after_buffer is pre_buffer or
           ops.values_equal(it, after_buffer, pre_buffer) is True)
        ob('frame:unread-indications-kept-in-order', user_q[:len(pre_unread)] == pre_unread and
           len(user_q) == len(pre_unread) + len(puts))
    if cell is None:
        # undefined cell: nothing observable may happen (raising is fine)
        ob('undefined:wire', len(sends) == 0)
        ob('undefined:user', len(puts) == 0)
        ob('undefined:transport', len(closes) == 0 and len(connects) == 0
           and provider.fields['dul_socket'] is pre_sock)
        ob('undefined:state', ops.values_equal(it, sm.fields['current_state'], pre_state))
        return
    action_name, nxt = cell
    spec = T.ACTIONS[action_name]
    if raised is not None:
        ob('noexc', False, exception=raised.cls.name, args=repr(raised.fields.get('args'))[:200])
        return
    calls = p.ghost.get('pure_calls', [])

    def enc_calls(kind_name=None):
        out = []
        for (q, recv, desc, st, rt) in calls:
            if kind_name is None or desc == 'pdu.' + KIND_CLASS[kind_name]:
                out.append((recv, rt))
        return out

    # ---- wire
    w = spec.get('wire')
    if w is not None and w[0] == 'abort-from-user-or-any':
        w = ('primitive', ('A-ABORT',)) if evt == 15 else ('any', 'A-ABORT')
    if w is None:
        ob('wire', len(sends) == 0)
    elif len(sends) != 1:
        ob('wire', False, why='expected exactly one PDU on the wire, saw %d' % len(sends))
    else:
        sent = sends[0][1]
        from ..values import bytes_term
        sent_t = bytes_term(sent)
        if w[0] == 'primitive':
            goal = ops.disj([sent_t == rt for (recv, rt) in enc_calls() if recv is prim])
            ob('wire', goal, why='the PDU sent must be the current primitive (%s)' % (w[1],))
        elif w[0] == 'any':
            goal = ops.disj([sent_t == rt for (recv, rt) in enc_calls(w[1])])
            ob('wire', goal, why='a %s PDU must be sent' % w[1])
        elif w[0] == 'new':
            alts = []
            for (recv, rt) in enc_calls(w[1]):
                conds = [sent_t == rt]
                for f, v in w[2].items():
                    conds.append(ops.values_equal(it, recv.fields.get(f), v))
                alts.append(ops.conj(conds))
            ob('wire', ops.disj(alts), why='a %s PDU with %r must be sent' % (w[1], w[2]))
    # ---- user
    u = spec.get('user')
    if u is None:
        ob('user', len(puts) == 0)
    elif u[0] == 'message':
        dec_receiving = [e for e in trace]  # decided below from the decoder state
        if len(puts) == 0:
            # allowed only if the decoder is still receiving
            d = sm.fields.get('dimse_decoder')
            ob('user', d is not None and ops.values_equal(it, d.fields.get('receiving'), True)
               if d is not None else False, why='no indication although the message is complete')
        elif len(puts) == 1:
            d = sm.fields.get('dimse_decoder')
            v = puts[0][2]
            ob('user', d is None and isinstance(v, tuple) and len(v) == 2,
               why='indication must be (message, context id) and the decoder reset')
        else:
            ob('user', False, why='more than one indication')
    elif len(puts) != 1:
        ob('user', False, why='expected exactly one indication, saw %d' % len(puts))
    else:
        v = puts[0][2]
        if u[0] == 'primitive':
            ob('user', v is prim and prim is not None, why='the indication must be the received primitive')
        elif u[0] == 'new':
            okc = isinstance(v, Obj) and v.cls.name == KIND_CLASS[u[1]]
            if okc and u[2]:
                okc = ops.conj([ops.values_equal(it, v.fields.get(f), val) for f, val in u[2].items()])
            ob('user', okc, why='indication must be a new %s %r' % (u[1], u[2]))
    # ---- transport
    tr = spec.get('transport')
    if tr is None:
        ob('transport', len(closes) == 0 and len(connects) == 0)
    elif tr == 'close':
        ob('transport', len(closes) == 1 and len(connects) == 0 and pre_sock is not None
           and pre_sock.fields.get('closed') is True)
    elif tr == 'connect':
        ob('transport', len(connects) == 1 and len(closes) == 0)
    # ---- ARTIM
    tm = spec.get('timer')
    if tm is None:
        ob('timer', timer_unchanged())
    elif tm == 'start':
        ob('timer', cur_timer is not None and (int_term(cur_timer) != 0), why='ARTIM must be running afterwards')
    elif tm == 'stop':
        ob('timer', cur_timer is None, why='ARTIM must be stopped afterwards')
    # ---- next state
    n = nxt[role] if isinstance(nxt, dict) else nxt
    ob('next', ops.values_equal(it, sm.fields['current_state'], sta_val(n)),
       expected='Sta%d' % n)
    if ctx.pid in ('C05', 'C13'):
        # provider-loop invariant Inv, preserved by every defined cell (C05, C13): an idle provider holds no
        # connection, any other state does; ARTIM runs exactly in Sta2 (awaiting the first PDU) and
        # Sta13 (awaiting the peer's close)
        after_sock = provider.fields['dul_socket']
        ob('inv:idle-iff-no-connection', (after_sock is None) if n == 1 else (after_sock is not None),
           next='Sta%d' % n)
        if timer_running == (sta in (2, 13)):
            ob('inv:artim-runs-exactly-in-sta2-and-sta13', (cur_timer is not None) == (n in (2, 13)), next='Sta%d' % n)
