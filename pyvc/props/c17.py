"""C17 -- every SCP response correlates with its request (message id, UIDs, context, type, status),
and every request that reaches a provider is answered.

Each provider callable of sopclass.py is executed symbolically from the working tree against the
service harness (pyvc/services.py): the request message is built by the real constructor and
filled with symbolic field values (message id over the 16-bit range, UIDs, context id), the
application handler is an oracle that either returns an arbitrary status or raises
EventHandlingError.  The correlation clauses are *preconditions of send()* checked at every call
site -- inside loops they hold for every iteration because the loop body is verified for an
arbitrary iteration (havoc of what the body writes).  `answered` is a postcondition on the ghost
send counter.
"""
import z3
from ..values import (Obj, ClassVal, ListVal, Raised, PathEnd, Opaque, BoundMethod, Unsupported,
                      ExcVal, SeqVal, NamedTupleVal, Stream, int_term)
from .. import verify, smt, ops
from ..services import Harness, sends


def ext_calls(h):
    """external (pydicom / dsutils) calls seen by the providers: opaque codecs"""
    def external(it, fn, args, kwargs):
        name = fn.name
        if name.endswith('dsutils.decode') or name.endswith('filereader.read_dataset'):
            it.p.counter += 1
            return h.new_decoded('decoded!%d' % it.p.counter)
        if name.endswith('dsutils.encode'):
            return it.p.fresh_bytes('encoded_ds')
        if name.endswith('pydicom.Sequence'):
            return args[0]
        return Ellipsis
    return external


def run(ctx):
    # the C-STORE responses of the C-GET user (C19's exploration of qr_get_scu, on its own interpreter): every
    # incoming C-STORE request is answered on the context it arrived on, correlated, with the handler's status
    from . import c19
    c19.run(ctx, only_get=True)
    ctx.run_explorations()
    it = ctx.build(by_contract=['dsutils.decode', 'dsutils.encode', 'dsutils.encode_element'])
    sc = it.modules['pynetdicom2.sopclass']
    dm = it.modules['pynetdicom2.dimsemessages']
    st = it.modules['pynetdicom2.statuses']
    exc = it.modules['pynetdicom2.exceptions']
    status_cls = st.attrs['Status']
    EHE = exc.attrs['EventHandlingError']
    res = verify.FunctionResult('sopclass.')
    infos = []

    def info(q):
        fv, _ = verify.lookup_function(it, q)
        infos.append(verify.function_info(it, fv))
        return fv

    def sym_status(it, name='app_status'):
        s = Obj(status_cls)
        v = it.p.fresh_int(name)
        it.p.assume(z3.And(v >= 0, v <= 0xFFFF))
        s.fields['_value'] = v
        for f in ('is_success', 'is_pending', 'is_failure', 'is_warning', 'is_cancel'):
            s.fields[f] = it.p.fresh(f, smt.Bool)
        return s

    def handler_outcome(it, h, documented_failure):
        """application handler: returns an arbitrary status or raises EventHandlingError"""
        if it.p.branch(it.p.fresh('handler_raises', smt.Bool)):
            it.p.ghost['expected_status'] = documented_failure
            raise Raised(it.instantiate(EHE, ['handler failed'], {}))
        s = sym_status(it)
        it.p.ghost['expected_status'] = s.fields['_value']
        return s

    def request(h, cls, with_instance=None, **extra):
        f = dict(message_id=fresh16(it, 'message_id'), sop_class_uid=it.p.fresh('sop_class_uid', smt.Str))
        if with_instance:
            f[with_instance] = it.p.fresh('sop_instance_uid', smt.Str)
        f.update(extra)
        return h.new_message(cls, **f)

    def check_send(label, h, req, ctx_id_of, rsp_cls, instance=None, status=True):
        """install the send() precondition for the current request"""
        def on_send(it2, h2, m, pc_id, asce):
            if asce.fields.get('name') != 'asce':
                return
            p = it2.p

            def ob(name, goal, **meta):
                if isinstance(goal, bool):
                    goal = z3.BoolVal(goal)
                p.oblige('%s#send:%s' % (label, name), goal, kind='send-pre', meta=meta, assume_after=False)
            cur = p.ghost.get('current_request', req)
            ob('context', ops.values_equal(it2, pc_id, ctx_id_of(p)))
            ob('type', isinstance(m, Obj) and m.cls is rsp_cls(cur), got=getattr(getattr(m, 'cls', None), 'name', None))
            if not (isinstance(m, Obj) and m.cls.is_subclass(dm.attrs['DIMSEResponseMessage'])):
                return
            ob('message-id', ops.values_equal(it2, it2.getattr(m, 'message_id_being_responded_to'),
                                              it2.getattr(cur, 'message_id')))
            ob('sop-class', ops.values_equal(it2, it2.getattr(m, 'sop_class_uid'), it2.getattr(cur, 'sop_class_uid')))
            inst = instance(cur) if callable(instance) else instance
            if inst:
                ob('sop-instance', ops.values_equal(it2, it2.getattr(m, 'affected_sop_instance_uid'),
                                                    it2.getattr(cur, inst)))
            if status and p.ghost.get('expected_status') is not None:
                ob('status', ops.values_equal(it2, it2.getattr(m, 'status'), p.ghost['expected_status']))
        h.on_send.append(on_send)

    def finish(label, p, raised=None):
        n = p.ghost.get('sent_count', 0)
        if raised is not None:
            p.oblige('%s#noexc' % label, z3.BoolVal(False), kind='noexc',
                     meta={'exception': raised.cls.name}, assume_after=False)
            return
        p.oblige('%s#answered' % label, z3.BoolVal(n >= 1), kind='ensures', meta={'sent': n}, assume_after=False)
        p.outcome = 'normal'

    def explore(label, body, target):
        def run_one(p):
            h = Harness(it)
            it.hooks['harness'] = h
            it.hooks['external_call'] = ext_calls(h)
            p.ghost['sent_count'] = 0
            try:
                body(p, h)
            except Raised as r:
                finish(label, p, r.exc)
                p.outcome = 'normal'
                return
            finish(label, p)
        ctx.add_exploration(label, run_one, res, target=target)

    PF = 0x0110

    # ------------------------------------------------------------------ C-ECHO
    def echo(p, h):
        asce, c = h.new_asce(), h.new_ctx()
        req = request(h, dm.attrs['CEchoRQMessage'])
        p.assume(ops.values_equal(it, it.getattr(req, 'sop_class_uid'), c.get('sop_class')))
        h.app['on_receive_echo'] = lambda it2, h2, a: handler_outcome(it2, h2, PF)
        check_send('sopclass.verification_scp', h, req, lambda p2: c.get('id'), lambda r: dm.attrs['CEchoRSPMessage'])
        it.call(sc.attrs['verification_scp'], [asce, c, req], {})
    info('sopclass.verification_scp')
    explore('sopclass.verification_scp', echo, 'sopclass.verification_scp')

    # ------------------------------------------------------------------ C-STORE
    def store(p, h, with_ds):
        asce, c = h.new_asce(), h.new_ctx()
        req = request(h, dm.attrs['CStoreRQMessage'], with_instance='affected_sop_instance_uid')
        p.assume(ops.values_equal(it, it.getattr(req, 'sop_class_uid'), c.get('sop_class')))
        if with_ds:
            req.fields['_data_set'] = Stream(b'', p.fresh_bytes('file_content'), 'received-file')
        h.app['on_receive_store'] = lambda it2, h2, a: handler_outcome(it2, h2, 0xC000)
        check_send('sopclass.storage_scp', h, req, lambda p2: c.get('id'), lambda r: dm.attrs['CStoreRSPMessage'],
                   instance='affected_sop_instance_uid')
        it.call(sc.attrs['storage_scp'], [asce, c, req], {})
    info('sopclass.storage_scp')
    explore('sopclass.storage_scp[file]', lambda p, h: store(p, h, True), 'sopclass.storage_scp')
    explore('sopclass.storage_scp[no-dataset]', lambda p, h: store(p, h, False), 'sopclass.storage_scp')

    # ------------------------------------------------------------------ C-FIND (all responses)
    def find(p, h, fn):
        asce, c = h.new_asce(), h.new_ctx()
        req = request(h, dm.attrs['CFindRQMessage'])
        req.fields['_data_set'] = p.fresh_bytes('identifier')
        p.assume(ops.values_equal(it, it.getattr(req, 'sop_class_uid'), c.get('sop_class')))
        results = SeqVal(p.fresh('matches', it.types.sort_of('Seq[Tup[int,int]]')), 'Tup[int,int]')
        h.app['on_receive_find'] = lambda it2, h2, a: results
        check_send('sopclass.%s' % fn, h, req, lambda p2: c.get('id'), lambda r: dm.attrs['CFindRSPMessage'],
                   status=False)
        it.call(sc.attrs[fn], [asce, c, req], {})
    info('sopclass.qr_find_scp')
    explore('sopclass.qr_find_scp', lambda p, h: find(p, h, 'qr_find_scp'), 'sopclass.qr_find_scp')
    info('sopclass.modality_work_list_scp')
    explore('sopclass.modality_work_list_scp', lambda p, h: find(p, h, 'modality_work_list_scp'),
            'sopclass.modality_work_list_scp')

    # ------------------------------------------------------------------ C-MOVE (pending and final responses)
    def move(p, h, nop_zero):
        asce, c = h.new_asce(), h.new_ctx()
        req = request(h, dm.attrs['CMoveRQMessage'], move_destination=it.p.fresh('dest', smt.Str))
        req.fields['_data_set'] = p.fresh_bytes('identifier')
        p.assume(ops.values_equal(it, it.getattr(req, 'sop_class_uid'), c.get('sop_class')))
        datasets = SeqVal(p.fresh('to_move', it.types.sort_of('Seq[harness.AppDataset]')), 'harness.AppDataset')
        nop = 0 if nop_zero else p.fresh_int('nop')
        if not nop_zero:
            p.assume(nop >= 1)
        h.app['on_receive_move'] = lambda it2, h2, a: (Opaque('remote_ae'), nop, datasets)
        install_subassociation(it, h, sym_status)
        check_send('sopclass.qr_move_scp', h, req, lambda p2: c.get('id'), lambda r: dm.attrs['CMoveRSPMessage'],
                   status=False)
        it.call(sc.attrs['qr_move_scp'], [asce, c, req], {})
    info('sopclass.qr_move_scp')
    info('sopclass._send_response')
    explore('sopclass.qr_move_scp[nop>0]', lambda p, h: move(p, h, False), 'sopclass.qr_move_scp')
    explore('sopclass.qr_move_scp[nop=0]', lambda p, h: move(p, h, True), 'sopclass.qr_move_scp')

    # ------------------------------------------------------------------ storage commitment
    def n_action(p, h):
        asce, c = h.new_asce(), h.new_ctx()
        cls = dm.attrs['NActionRQMessage']
        req = h.new_message(cls, message_id=fresh16(it, 'message_id'),
                            sop_class_uid=it.p.fresh('sop_class_uid', smt.Str),
                            requested_sop_instance_uid=it.p.fresh('instance', smt.Str),
                            action_type_id=1)
        req.fields['_data_set'] = p.fresh_bytes('action_info')
        p.assume(ops.values_equal(it, it.getattr(req, 'sop_class_uid'), c.get('sop_class')))

        def on_request(it2, h2, a):
            if it2.p.branch(it2.p.fresh('handler_raises', smt.Bool)):
                it2.p.ghost['expected_status'] = PF
                raise Raised(it2.instantiate(EHE, ['handler failed'], {}))
            it2.p.ghost['expected_status'] = 0
            return (Opaque('remote_ae'), ListVal([]), ListVal([]))
        h.app['on_commitment_request'] = on_request
        # the delivery of the report to the remote entity may fail (it refuses the association, or never answers):
        # the N-ACTION request itself is answered all the same ("every request that reaches a provider is
        # answered"); the environment's failure may propagate, a failure of the provider's own may not
        install_subassociation(it, h, sym_status, may_fail=True)
        check_send('sopclass.StorageCommitment.n_action', h, req, lambda p2: c.get('id'),
                   lambda r: dm.attrs['NActionRSPMessage'])
        svc = it.instantiate(sc.attrs['StorageCommitment'], [], {})
        try:
            it.call(svc, [asce, c, req], {})
        except Raised as r:
            if not p.ghost.get('external_failure') or r.exc.cls.name not in ('AssociationRejectedError', 'DCMTimeoutError'):
                raise
    info('sopclass.StorageCommitment.n_action')
    info('sopclass.MessageDispatcher.get_method')
    info('sopclass.MessageDispatcherSCP.__call__')
    explore('sopclass.StorageCommitment.n_action', n_action, 'sopclass.StorageCommitment.n_action')

    def n_event(p, h):
        asce, c = h.new_asce(), h.new_ctx()
        cls = dm.attrs['NEventReportRQMessage']
        req = request(h, cls, with_instance='affected_sop_instance_uid', event_type_id=it.p.fresh_int('event_type'))
        req.fields['_data_set'] = p.fresh_bytes('event_info')
        p.assume(ops.values_equal(it, it.getattr(req, 'sop_class_uid'), c.get('sop_class')))

        def on_response(it2, h2, a):
            if it2.p.branch(it2.p.fresh('handler_raises', smt.Bool)):
                it2.p.ghost['expected_status'] = PF
                raise Raised(it2.instantiate(EHE, ['handler failed'], {}))
            it2.p.ghost['expected_status'] = 0
            return None
        h.app['on_commitment_response'] = on_response
        h.optional_attrs = {'ReferencedSOPSequence', 'FailedSOPSequence'}
        check_send('sopclass.StorageCommitment.n_event_report', h, req, lambda p2: c.get('id'),
                   lambda r: dm.attrs['NEventReportRSPMessage'], instance='affected_sop_instance_uid')
        svc = it.instantiate(sc.attrs['StorageCommitment'], [], {})
        it.call(svc, [asce, c, req], {})
    info('sopclass.StorageCommitment.n_event_report')
    explore('sopclass.StorageCommitment.n_event_report', n_event, 'sopclass.StorageCommitment.n_event_report')

    ctx.extra['provider_functions'] = infos
    from ..services import install_native_replayer
    install_native_replayer(ctx)
    ctx.assumptions += [
        'request consistency: the SOP class of the request equals the abstract syntax of the presentation context '
        'it arrived on (PS3.7; the acceptor routes by context id)',
        'application handlers: return any status or raise EventHandlingError (other exceptions are outside the '
        'documented handler contract)',
        'pydicom Dataset on command sets: insertion-ordered tag map with keyword attributes (pyvc/dsmodel.py, audited)',
        'dsutils.encode / decode are opaque codecs',
        'message ids range over 0..65535, UIDs are arbitrary strings, context ids arbitrary integers',
    ]


def fresh16(it, name):
    v = it.p.fresh_int(name)
    it.p.assume(z3.And(v >= 0, v <= 0xFFFF))
    return v


def install_subassociation(it, h, sym_status, may_fail=False):
    """asce.ae.request_association(remote) -> context manager yielding a sub-association stub.
    may_fail: the destination may refuse the association, or never answer on it (the failure is then the
    environment's, recorded as ghost `external_failure`)"""
    from ..values import Builtin, ClassVal
    excm = it.modules['pynetdicom2.exceptions']

    def m(fn):
        b = Builtin(fn.__name__, fn)
        b.is_method = True
        return b

    def enter(it2, args, kw):
        if may_fail and it2.p.branch(it2.p.fresh('destination_refuses_the_association', smt.Bool)):
            it2.p.ghost['external_failure'] = 'destination refuses the association'
            raise Raised(it2.instantiate(excm.attrs['AssociationRejectedError'], [1, 1, 1], {}))
        sub = h.new_asce('sub-association')
        it2.p.trace.append(('sub-association.open',))
        return sub

    def exit_(it2, args, kw):
        it2.p.trace.append(('sub-association.close',))
        return False
    CM = ClassVal('RequestAssociationCM', [it.builtins['object']], {'__enter__': m(enter), '__exit__': m(exit_)},
                  'harness')

    def request_association(it2, h2, a):
        it2.p.trace.append(('sub-association.request', a[0] if a else None))
        return Obj(CM)
    h.app['request_association'] = request_association
    if 'receive' not in h.app:
        def sub_receive(it2, h2, a):
            if may_fail and it2.p.branch(it2.p.fresh('destination_never_answers', smt.Bool)):
                it2.p.ghost['external_failure'] = 'destination never answers'
                raise Raised(it2.instantiate(excm.attrs['DCMTimeoutError'], [], {}))
            return (Opaque('response-on-sub-association'), it2.p.fresh_int('pc_id'))
        h.app['receive'] = sub_receive

    def get_scu(it2, h2, a):
        it2.p.trace.append(('sub-get-scu', a[1] if len(a) > 1 else None, a[0]))

        def service(it3, args, kw):
            it3.p.trace.append(('sub-store', args[0], args[1] if len(args) > 1 else None))
            return sym_status(it3, 'store_status')
        return Builtin('storage_scu(bound)', service)
    h.app['get_scu'] = get_scu
