"""Harness for association negotiation (C09, C10, C11): the real AssociationAcceptor.accept,
AssociationRequester._request / get_scu and Association.send are run on objects whose
constructor-established state is set up here (the constructors open sockets and start the
provider thread, which is outside the subset):

  * `self.dul`  -- stub provider: send() records the PDU on the ghost trace, receive() returns
                   the reply prepared by the harness
  * `self.ae`   -- configuration stub: supported_scp / supported_scu are dictionaries with an
                   uninterpreted background (predicates served / used over SOP class names),
                   supported_ts a set with the uninterpreted membership predicate supported_ts
  * lists of PDU items are HLists: the known items keep their identity (accept() mutates the
    Maximum Length sub-item of the request and sends the same object back), the presentation
    context items in between are a symbolic sequence of unknown length.
"""
import z3
from .. import smt
from ..values import (Obj, ClassVal, DictVal, SetVal, ListVal, HList, Segment, SeqVal, Opaque, Builtin,
                      Unsupported, int_term)
from ..pack import fresh_value


def method(fn):
    b = Builtin(fn.__name__, fn)
    b.is_method = True
    return b


def setup_spec(it):
    """bind spec/negotiation.py as N and declare its element predicates"""
    N = it.load_module('spec.negotiation')
    it.spec_prelude['N'] = N
    types = it.hooks.setdefault('spec_fn_types', {})
    for name in ('ts_unsupported', 'answers_a_proposed_context', 'rejected'):
        types['negotiation.' + name] = 'bool'
    return N


def install_cfg(it):
    """the application-entity configuration as uninterpreted predicates of the path"""
    p = it.p
    cfg = {'served': z3.Function('cfg_served', smt.Str, smt.Bool),
           'used': z3.Function('cfg_used_as_scu', smt.Str, smt.Bool),
           'supported_ts': z3.Function('cfg_supported_ts', smt.Str, smt.Bool)}
    it.hooks['cfg'] = cfg
    return cfg


def name_term(it, x):
    """SOP class / transfer syntax name as a Str term (UID objects are str subclasses)"""
    if isinstance(x, str):
        return it.p.facts.strlit(x)
    if isinstance(x, Obj) and 'name' in x.fields and smt.is_str_term(x.fields['name']):
        return x.fields['name']
    return x


def service_dict(it, pred, what):
    d = DictVal()

    def base(it2, key):
        k = name_term(it2, key)
        if not smt.is_str_term(k):
            raise Unsupported('%s lookup with key %r' % (what, key))
        if it2.p.branch(pred(k)):
            return True, Opaque('%s service' % what)
        return False, None
    d.base = base
    return d


def new_ae(it, cfg):
    obj = it.builtins['object']
    cls = ClassVal('AEConfigStub', [obj], {}, 'harness')
    ae = Obj(cls)
    ae.fields['supported_scp'] = service_dict(it, cfg['served'], 'SCP')
    ae.fields['supported_scu'] = service_dict(it, cfg['used'], 'SCU')

    def member(it2, x):
        k = name_term(it2, x)
        if not smt.is_str_term(k):
            raise Unsupported('supported_ts membership of %r' % (x,))
        return cfg['supported_ts'](k)
    ae.fields['supported_ts'] = SetVal([], member=member, frozen=True)
    ae.fields['timeout'] = 15
    return ae


def new_dul(it, inbox=None):
    obj = it.builtins['object']

    def send(it2, args, kw):
        it2.p.trace.append(('dul-send', args[1]))

    def receive(it2, args, kw):
        if not inbox:
            raise Unsupported('dul.receive() without a prepared reply')
        return inbox.pop(0)
    cls = ClassVal('DULStub', [obj], {'send': method(send), 'receive': method(receive)}, 'harness')
    d = Obj(cls)
    d.fields['accepted_contexts'] = None
    # the provider's own attribute of that name is the local receive maximum, not the negotiated send limit
    d.fields['max_pdu_length'] = it.p.fresh_int('provider_receive_maximum')
    return d


def dul_sends(p):
    return [e[1] for e in p.trace if e[0] == 'dul-send']


def max_length_item(it, value):
    ud = it.modules['pynetdicom2.userdataitems']
    return it.instantiate(ud.attrs['MaximumLengthSubItem'], [value], {})


def user_information(it, first, rest_name='more_sub_items'):
    """UserInformationItem([first] ++ arbitrary further sub-items)"""
    pm = it.modules['pynetdicom2.pdu']
    more = Segment(SeqVal(it.p.fresh(rest_name, it.types.sort_of('Seq[SubItem]')), 'SubItem'))
    parts = ([first] if first is not None else []) + [more]
    return it.instantiate(pm.attrs['UserInformationItem'], [HList(parts)], {})


def association_rq(it, peer_max):
    """an arbitrary A-ASSOCIATE-RQ in standard item order: application context, n >= 0
    presentation contexts, user information starting with the Maximum Length sub-item"""
    p = it.p
    pm = it.modules['pynetdicom2.pdu']
    app = fresh_value(it, 'app_ctx', 'pdu.ApplicationContextItem')
    mid = SeqVal(p.fresh('proposed', it.types.sort_of('Seq[pdu.PresentationContextItemRQ]')),
                 'pdu.PresentationContextItemRQ')
    ml = max_length_item(it, peer_max)
    user = user_information(it, ml)
    rq = it.instantiate(pm.attrs['AAssociateRqPDU'], [],
                        {'called_ae_title': p.fresh('called', smt.Str), 'calling_ae_title': p.fresh('calling', smt.Str),
                         'variable_items': HList([app, Segment(mid), user])})
    return rq, app, mid, user, ml


def new_acceptor(it, cfg, own_max):
    asc = it.modules['pynetdicom2.asceprovider']
    me = Obj(asc.attrs['AssociationAcceptor'])
    me.fields.update({'ae': new_ae(it, cfg), 'dul': new_dul(it), 'max_pdu_length': own_max,
                      'association_established': False, 'accepted_contexts': DictVal(),
                      'sop_classes_as_scp': DictVal(), 'remote_ae': b'', 'is_killed': False})
    return me


def new_requester(it, cfg, own_max, inbox, context_def_list, remote_ae):
    asc = it.modules['pynetdicom2.asceprovider']
    me = Obj(asc.attrs['AssociationRequester'])
    me.fields.update({'ae': new_ae(it, cfg), 'dul': new_dul(it, inbox), 'max_pdu_length': own_max,
                      'association_established': False, 'accepted_contexts': DictVal(),
                      'context_def_list': context_def_list, 'remote_ae': remote_ae,
                      'sop_classes_as_scu': DictVal()})
    return me


def context_table(it, cfg):
    """An arbitrary presentation-context definition table (id -> PContextDef) given abstractly:
    membership and the abstract syntax per id are uninterpreted functions; its items in iteration
    order are a symbolic sequence of (id, definition) pairs; every definition carries the entity's
    supported_ts (iterated in one fixed order `configured_ts`)."""
    from ..values import NamedTupleVal
    p = it.p
    asc = it.modules['pynetdicom2.asceprovider']
    PCD = asc.attrs['PContextDef']
    cfg['proposed'] = z3.Function('ctx_proposed', smt.Int, smt.Bool)
    cfg['proposed_sop'] = z3.Function('ctx_sop_class', smt.Int, smt.Str)
    tsseq = SeqVal(p.fresh('configured_ts', it.types.sort_of('Seq[str]')), 'str')
    items = SeqVal(p.fresh('ctx_items', it.types.sort_of('Seq[Tup[int,harness.CtxDef]]')), 'Tup[int,harness.CtxDef]')
    d = DictVal()
    d.items_seq = items

    def base(it2, key):
        k = int_term(key)
        if it2.p.branch(cfg['proposed'](k)):
            return True, NamedTupleVal(PCD, (key, cfg['proposed_sop'](k), tsseq))
        return False, None
    d.base = base
    return d, items, tsseq


def table_item(it, cfg, items, tsseq, i):
    """the i-th item (k, c) of the table's iteration sequence, with what being an item of this
    table means: k is a key, and c is the definition stored under k"""
    from ..folds import elem_at
    from ..pack import from_term
    p = it.p
    t = elem_at(it, items, int_term(i))
    pair = from_term(it, t, items.elem)
    k, c = pair
    p.assume(cfg['proposed'](int_term(k)))
    p.assume(it.getattr(c, 'id') == int_term(k))
    p.assume(it.getattr(c, 'sop_class') == cfg['proposed_sop'](int_term(k)))
    p.assume(it.getattr(c, 'supported_ts').term == tsseq.term)
    return k, c


def association_ac(it, cfg, peer_max, first_sub_item=True):
    """an arbitrary A-ASSOCIATE-AC in standard item order whose answers all carry proposed ids"""
    from ..folds import get_fold
    p = it.p
    pm = it.modules['pynetdicom2.pdu']
    app = fresh_value(it, 'app_ctx_ac', 'pdu.ApplicationContextItem')
    answers = SeqVal(p.fresh('answers', it.types.sort_of('Seq[pdu.PresentationContextItemAC]')),
                     'pdu.PresentationContextItemAC')
    N = it.spec_prelude['N']
    ef = it.elem_fn(it, N.attrs['answers_a_proposed_context'], answers)
    p.assume(get_fold(it, 'ALL', ef).apply(it, answers.term))
    ml = max_length_item(it, peer_max) if first_sub_item else None
    user = user_information(it, ml, 'more_sub_items_ac')
    ac = it.instantiate(pm.attrs['AAssociateAcPDU'], [],
                        {'called_ae_title': p.fresh('called_ac', smt.Str), 'calling_ae_title': p.fresh('calling_ac', smt.Str),
                         'variable_items': HList([app, Segment(answers), user])})
    return ac, answers, user, ml


def run_request(it, own, peer):
    """AssociationRequester._request(local_ae, remote_ae) on an arbitrary configuration and an
    arbitrary accepting reply; returns a dict with everything the clauses talk about"""
    p = it.p
    asc = it.modules['pynetdicom2.asceprovider']
    cfg = install_cfg(it)
    table, items, tsseq = context_table(it, cfg)
    ac, answers, ac_user, ac_ml = association_ac(it, cfg, peer)
    remote = DictVal([('key', 'aet', p.fresh('remote_aet', smt.Str)), ('key', 'address', p.fresh('address', smt.Str)),
                      ('key', 'port', p.fresh_int('port'))])
    # the remote entity's configuration may ask for user identity negotiation, and the caller may pass
    # further user-information sub-items: every variant of what _request appends behind the two
    # mandatory sub-items
    variant = p.choose([True] * 7, 'user identity / extra sub-items variant')
    ident = [None, ('username', 'password'), ('username',), ('kerberos',), ('saml',), ('jwt',), None][variant]
    for k in (ident or ()):
        remote.entries.append(('key', k, 'secret-' + k))
    remote.cindex = None
    users_pdu = None
    if variant == 6:
        ud = it.modules['pynetdicom2.userdataitems']
        users_pdu = ListVal([it.instantiate(ud.attrs['ScpScuRoleSelectionSubItem'], ['1.2.3', 0, 1], {})])
    local = DictVal([('key', 'aet', p.fresh('local_aet', smt.Str)), ('key', 'address', p.fresh('node', smt.Str))])
    me = new_requester(it, cfg, own, [ac], table, remote)
    out = dict(cfg=cfg, table=table, items=items, tsseq=tsseq, ac=ac, answers=answers, remote=remote, local=local,
               me=me, ac_ml=ac_ml)
    out['result'] = it.call(asc.attrs['AssociationRequester'].lookup('_request')[0], [me, local, remote],
                            {'users_pdu': users_pdu} if users_pdu is not None else {})
    return out


def announced_range(p, v):
    """a maximum-length value as it can appear on the wire: 0 (no limit) or 7 .. 2^32-1 (a PDU that
    carries at least one byte of a fragment: 6 bytes of PDV header + 1)"""
    p.assume(z3.Or(v == 0, z3.And(v >= 7, v <= 0xFFFFFFFF)))
