"""C06 -- DIMSE fragmentation: size bound, fragment flags, byte-exact content.

fragment / fragment_file (loop specifications in contracts/dimsemessages_c.py), for an arbitrary
byte string / file content, an arbitrary maximum length in {0} u [7, 2^32-1] and arbitrary flag
codes: each step yields exactly one fragment, the next 1..max-6 bytes of the stream, flagged `last`
iff nothing follows; the concatenation of all fragments is the stream; a non-empty stream ends with
exactly one `last` fragment and it is the final one.

DIMSEMessage.encode(pc_id, max) as a pipeline over those generators, for a message without data
set, with a bytes data set, with a file data set: every P-DATA-TF it yields wraps exactly one
fragment -- one PDV on pc_id whose value is the control byte followed by the fragment -- so its
pdu_length is len(fragment) + 6 <= max; command fragments carry control 1/3 (not last / last),
data fragments 0/2; the command stream is complete before the first data fragment; both streams are
completed; a file data set is closed at the end.

Association.send queues exactly that generator, with the association's negotiated maximum length
and the caller's context id, after set_length().
"""
import z3
from ..values import (Obj, Raised, Opaque, SeqVal, ListVal, Stream, GenVal, Unsupported, DictVal, Builtin)
from .. import verify, smt, ops, bytesops
from ..services import Harness
from . import nego


def same_stream(a, b):
    if a is b:
        return True
    return smt.is_z3(a) and smt.is_z3(b) and a.eq(b)


def run(ctx):
    it = ctx.build(by_contract=['dsutils.decode', 'dsutils.encode', 'dsutils.encode_element'])
    register(ctx, it)


def register(ctx, it, only_send=False):
    """the explorations of this property (C10 re-uses them: the size bound of what is sent)"""
    dm = it.modules['pynetdicom2.dimsemessages']
    asc = it.modules['pynetdicom2.asceprovider']
    res = verify.FunctionResult('dimsemessages.')
    res2 = verify.FunctionResult('asceprovider.')
    infos = []
    for q in ('dimsemessages.chunks', 'dimsemessages.fragment', 'dimsemessages.fragment_file',
              'dimsemessages.DIMSEMessage.encode', 'asceprovider.Association.send'):
        fv, _ = verify.lookup_function(it, q)
        infos.append(verify.function_info(it, fv))
    ctx.extra['functions'] = list(ctx.extra.get('functions', [])) + infos

    def max_len(p):
        m = p.fresh_int('max_pdu_length')
        nego.announced_range(p, m)
        return m

    def noexc(p, label, r):
        p.oblige('%s#noexc' % label, z3.BoolVal(False), kind='noexc',
                 meta={'exception': r.exc.cls.name, 'args': repr(r.exc.fields.get('args'))[:200]}, assume_after=False)
        p.outcome = 'normal'

    # ------------------------------------------------------------------ fragment, fragment_file
    def frag_case(p, fn):
        label = 'dimsemessages.' + fn
        data = p.fresh_bytes('data')
        m = max_len(p)
        normal, last = p.fresh_int('normal'), p.fresh_int('last')
        p.assume(normal != last)
        src = data if fn == 'fragment' else Stream(b'', data, 'file')
        try:
            gen = it.call(dm.attrs[fn], [src, m, normal, last], {})
            it.run_generator(gen, lambda v: None)
        except Raised as r:
            return noexc(p, label, r)
        done = p.ghost.get('stream_done', ())
        p.oblige('%s#stream-completed' % label, z3.BoolVal(len(done) == 1 and same_stream(done[0], src)),
                 kind='ensures', assume_after=False)
        p.outcome = 'normal'
    if not only_send:
        for fn in ('fragment', 'fragment_file'):
            lab = 'dimsemessages.' + fn
            ctx.add_exploration(lab, lambda p, fn=fn: frag_case(p, fn), res, target=lab)

    # ------------------------------------------------------------------ DIMSEMessage.encode
    def new_message(p, kind):
        h = Harness(it)
        it.hooks['harness'] = h
        msg = h.new_message(dm.attrs['CStoreRQMessage'])
        if kind == 'bytes':
            d = p.fresh_bytes('data_set')
            msg.fields['_data_set'] = d
        elif kind == 'file':
            msg.fields['_data_set'] = Stream(b'', p.fresh_bytes('file_content'), 'data-set-file')
        else:
            msg.fields['_data_set'] = None
        return msg

    def consume_encode(p, label, gen, msg, pc_id, m):
        """run the encode generator; every PDU it yields is checked against the fragment that the
        inner generator handed over since the previous PDU"""
        cmd = it.spec_prelude['encoded_dataset'].fn(it, [msg.fields['command_set']], {})
        ds = msg.fields['_data_set']
        state = {'mark': len(p.trace)}
        p.ghost['inside_encode'] = True

        def ob(name, f):
            if isinstance(f, bool):
                f = z3.BoolVal(f)
            p.oblige('%s#pdu:%s' % (label, name), f, kind='yield', assume_after=False)

        def consumer(v):
            frs = [e for e in p.trace[state['mark']:] if e[0] == 'gen-yield' and
                   e[1] in ('dimsemessages.fragment', 'dimsemessages.fragment_file')]
            state['mark'] = len(p.trace)
            ob('wraps-exactly-one-fragment', len(frs) == 1)
            good = isinstance(v, Obj) and v.cls.name == 'PDataTfPDU'
            ob('is-p-data-tf', good)
            if len(frs) != 1 or not good:
                return
            chunk, flag = frs[0][2]
            items = v.fields.get('data_value_items')
            one = isinstance(items, ListVal) and len(items.items) == 1 and isinstance(items.items[0], Obj) and \
                items.items[0].cls.name == 'PresentationDataValueItem'
            ob('one-pdv', one)
            if not one:
                return
            pdv = items.items[0]
            ob('on-the-message-context', ops.values_equal(it, pdv.fields['context_id'], pc_id))
            import ast
            ctrl = it.p.facts.be(1, flag) if smt.is_z3(flag) else bytes([flag & 0xFF])
            ob('value-is-control-byte-then-fragment',
               ops.values_equal(it, pdv.fields['data_value'], it.binop(ast.Add(), ctrl, chunk)))
            plen = it.getattr(v, 'pdu_length')
            ob('pdu-length', ops.values_equal(it, plen, it.binop(ast.Add(), bytesops.blen(it, chunk), 6)))
            ob('within-the-maximum-length', z3.Or(m == 0, z3.IntVal(plen) <= m if isinstance(plen, int) else plen <= m))
            stream = p.ghost.get('fragment_stream')
            args = p.ghost.get('fragment_args')
            is_cmd = same_stream(stream, cmd)
            is_data = ds is not None and same_stream(stream, ds)
            ob('fragment-of-this-message', is_cmd or is_data)
            if is_cmd:
                ob('command-control-codes', args == (1, 3))
            if is_data:
                ob('data-control-codes', args == (0, 2))
                ob('command-set-complete-before-data', any(same_stream(s, cmd) for s in p.ghost.get('stream_done', ())))
        it.run_generator(gen, consumer)
        done = p.ghost.get('stream_done', ())
        p.oblige('%s#command-stream-completed' % label, z3.BoolVal(any(same_stream(s, cmd) for s in done)),
                 kind='ensures', assume_after=False)
        if ds is not None:
            # a present data set is transmitted completely (an empty bytes object counts as absent)
            nonempty = True if isinstance(ds, Stream) else z3.Length(ds) > 0
            sent = any(same_stream(s, ds) for s in done)
            goal = z3.BoolVal(sent) if nonempty is True else z3.Implies(nonempty, z3.BoolVal(sent))
            p.oblige('%s#data-stream-completed' % label, goal, kind='ensures', assume_after=False)
            if isinstance(ds, Stream):
                p.oblige('%s#file-closed' % label, z3.BoolVal(bool(ds.closed)), kind='ensures', assume_after=False)
        n_streams = len(done)
        p.oblige('%s#nothing-else-fragmented' % label, z3.BoolVal(n_streams <= (2 if ds is not None else 1)),
                 kind='ensures', assume_after=False)

    def encode_case(p, kind):
        label = 'dimsemessages.DIMSEMessage.encode[%s]' % kind
        msg = new_message(p, kind)
        pc_id = p.fresh_int('pc_id')
        p.assume(z3.And(pc_id >= 1, pc_id <= 255))
        m = max_len(p)
        try:
            gen = it.call(it.getattr(msg, 'encode'), [pc_id, m], {})
            consume_encode(p, label, gen, msg, pc_id, m)
        except Raised as r:
            return noexc(p, label, r)
        p.outcome = 'normal'
    if not only_send:
        for kind in ('none', 'bytes', 'file'):
            lab = 'dimsemessages.DIMSEMessage.encode[%s]' % kind
            ctx.add_exploration(lab, lambda p, kind=kind: encode_case(p, kind), res,
                                target='dimsemessages.DIMSEMessage.encode')

    # ------------------------------------------------------------------ Association.send
    def send_case(p):
        label = 'asceprovider.Association.send'
        cfg = nego.install_cfg(it)
        eff = max_len(p)
        me = nego.new_acceptor(it, cfg, eff)
        msg = new_message(p, 'bytes')
        pc_id = p.fresh_int('pc_id')
        calls = []
        orig_cls = msg.cls
        from ..values import ClassVal

        def set_length(it2, args, kw):
            calls.append('set_length')

        def encode(it2, args, kw):
            calls.append(('encode', args[1], args[2]))
            return Opaque('encoder')
        msg.cls = ClassVal('MessageUnderSend', [orig_cls], {'set_length': nego.method(set_length),
                                                             'encode': nego.method(encode)}, 'harness')
        try:
            it.call(asc.attrs['Association'].lookup('send')[0], [me, msg, pc_id], {})
        except Raised as r:
            return noexc(p, label, r)
        sent = nego.dul_sends(p)

        def ob(name, f):
            if isinstance(f, bool):
                f = z3.BoolVal(f)
            p.oblige('%s#%s' % (label, name), f, kind='ensures', assume_after=False)
        enc = [c for c in calls if isinstance(c, tuple)]
        ob('queues-the-message-encoder', len(sent) == 1 and isinstance(sent[0], Opaque) and len(enc) == 1)
        if len(enc) == 1:
            ob('uses-the-negotiated-maximum-length', ops.values_equal(it, enc[0][2], me.fields['max_pdu_length']))
            ob('uses-the-callers-context', ops.values_equal(it, enc[0][1], pc_id))
            ob('group-length-set-before-encoding', calls and calls[0] == 'set_length' and calls.count('set_length') == 1)
        p.outcome = 'normal'
    ctx.add_exploration('asceprovider.Association.send', send_case, res2, target='asceprovider.Association.send')

    from .. import replay as _replay

    def _replayer(script):
        def fn(ctx2, ob, model):
            return _replay.run_native(script, {'obligation': ob.name}, timeout=300)
        return fn
    ctx.replayers.setdefault('dimsemessages.*', _replayer('fragments.py'))
    if ctx.pid == 'C06':
        ctx.native_crosschecks.append(('fragments.py', {'obligation': ''}, 'fragmentation of real messages over a grid of '
                                       'stream and maximum lengths, bytes and file'))
    ctx.replayers.setdefault('asceprovider.Association.send*', _replayer('fragments.py'))
    ctx.assumptions += [
        'maximum PDU lengths range over {0} u [7, 2^32-1]; 0 = no limit',
        'dsutils.encode(command_set) is an arbitrary byte string (trusted abstract codec); C08 is about its content',
        'file data sets are seekable binary streams read from their current position (io.BytesIO model: '
        'read(n) returns min(n, remaining) bytes, read(-1) everything, seek(-1, 1) steps back one byte)',
        'the whole-stream statements (concatenation of all fragments, exactly one last fragment) follow from '
        'the loop invariants `_out ++ rest == stream` and `_last_seen <=> at end and something was sent`, which '
        'are machine-checked; that the PDU *sequence* is the fragment sequence wrapped one by one is the standard '
        'induction over iterations of the per-step clause',
    ]
