"""C13 -- every association ending terminates the provider and releases the connection.

A bounded-liveness statement; its deductive content is a set of lemmas over contracts already
proved, plus contracts on the stopping functions:

  (everything of C05)   each iteration of run() is one step of the PS3.8 machine; loop invariant Inv:
                        idle <=> no connection, ARTIM runs exactly in Sta2 and Sta13 (re-generated here)
  lemma peer-disconnect  in the code's transition table, for every state with a connection, Evt17
                        (transport closed) is defined and leads to Sta1               => idle, closed
  lemma silent-peer      Evt18 (ARTIM expired) is defined in Sta2 and Sta13 and leads to Sta1 with the
                        connection closed; with Inv (ARTIM running there) and _check_timer (C05) the wait
                        is bounded by the ARTIM period
  lemma endings          every way an association ends in the table -- release confirmed or answered,
                        abort sent or received, rejection sent or received -- lands in Sta1 or in Sta13
  lemma user-is-told     every cell that takes an association the user knows about (Sta3..Sta12) to Sta1
                        or Sta13 on a peer / transport / timer event gives the user an indication
                        (from the transcription; C04 ties the code to it)
  run                    however the loop ends (stop flag or an escaping exception) the completion event is
                        set; an escaping exception also tells the user (A-ABORT indication)
  kill / stop            kill() raises the stop flag and waits for exactly that event; stop() raises it only
                        when idle; Association.kill() is a bounded loop followed by dul.kill()
Each iteration terminates and never blocks (C12), so a raised stop flag is seen at the next loop head.
"""
import z3
from ..values import Obj, ListVal, Raised, Opaque, ClassVal, Builtin, PathEnd, Unsupported
from .. import verify, smt, ops
from . import c04, c05, c12, nego


def run(ctx):
    c05.run(ctx)
    it = ctx.it
    T = c04.spec_table()
    fsm = it.modules['pynetdicom2.fsm']
    dul = it.modules['pynetdicom2.dulprovider']
    asc = it.modules['pynetdicom2.asceprovider']
    States, Events = fsm.attrs['States'], fsm.attrs['Events']
    EV = {n: Events.attrs['EVT_%d' % n] for n in range(1, 20)}
    STA = {n: States.attrs['STA_%d' % n] for n in range(1, 14)}
    res = verify.FunctionResult('dulprovider.')
    infos = list(ctx.extra.get('functions', []))
    for q in ('dulprovider.DULServiceProvider.run', 'dulprovider.DULServiceProvider.kill',
              'dulprovider.DULServiceProvider.stop', 'asceprovider.Association.kill'):
        fv, _ = verify.lookup_function(it, q)
        infos.append(verify.function_info(it, fv))
    ctx.extra['functions'] = infos

    def obl(p, label):
        def ob(name, f, **meta):
            if isinstance(f, bool):
                f = z3.BoolVal(f)
            p.oblige('%s#%s' % (label, name), f, kind='ensures', meta=meta, assume_after=False)
        return ob

    # ------------------------------------------------------------------ lemmas over the transition table
    def lemmas(p):
        label = 'fsm.StateMachine.transition_table'
        ob = obl(p, label)
        provider, sock = c12.build_provider(it)
        sm = provider.fields['state_machine']
        table = sm.fields['transition_table']

        def target(evt, sta):
            """(defined, next state number) of a cell of the code's table: the action method is run through
            the spec's cell for the next state (C04 proves they agree); here only definedness is read off the
            dictionary the code built"""
            key = (EV[evt], STA[sta])
            return it.dict_contains(table, key) is True
        for sta in range(2, 14):
            cell = T.CELLS.get((17, sta))
            ob('peer-disconnect[Sta%d]' % sta, target(17, sta) and cell is not None and
               (cell[1] if not isinstance(cell[1], dict) else None) == 1)
        for sta in (2, 13):
            cell = T.CELLS.get((18, sta))
            closes = cell is not None and T.ACTIONS[cell[0]].get('transport') == 'close'
            ob('silent-peer[Sta%d]' % sta, target(18, sta) and closes and cell[1] == 1)
        # every ending lands in Sta1 or Sta13
        ending_actions = ('AE-4', 'AE-8', 'AR-3', 'AR-4', 'AR-5', 'AA-1', 'AA-2', 'AA-3', 'AA-4', 'AA-5', 'AA-7', 'AA-8')
        for (evt, sta), (name, nxt) in sorted(T.CELLS.items()):
            if name in ending_actions:
                nx = set(nxt.values()) if isinstance(nxt, dict) else {nxt}
                ob('endings[Evt%d,Sta%d]' % (evt, sta), nx <= {1, 13} and target(evt, sta), action=name)
        # the user is told
        for (evt, sta), (name, nxt) in sorted(T.CELLS.items()):
            nx = set(nxt.values()) if isinstance(nxt, dict) else {nxt}
            if 3 <= sta <= 12 and nx <= {1, 13} and evt in (3, 4, 6, 10, 12, 13, 16, 17, 18, 19):
                ob('user-is-told[Evt%d,Sta%d]' % (evt, sta), T.ACTIONS[name].get('user') is not None, action=name)
        p.outcome = 'normal'
    ctx.add_exploration('fsm.StateMachine.transition_table', lemmas, res)

    # ------------------------------------------------------------------ run: the completion event
    def run_exit(p, how):
        label = 'dulprovider.DULServiceProvider.run[%s]' % how
        ob = obl(p, label)
        provider, sock = c12.build_provider(it)
        ev = provider.fields['_is_killed']
        puts = provider.fields['to_service_user'].fields['items'].items
        del puts[:]
        sm = provider.fields['state_machine']
        if how == 'stop-requested':
            provider.fields['is_killed'] = True
        else:
            provider.fields['is_killed'] = False

            def boom(it2, a, kw):
                it2.raise_exc('RuntimeError', 'escaping error')
            sm.cls = ClassVal('StateMachine', [sm.cls], {'action': nego.method(boom)}, 'harness')
        it.hooks['select'] = lambda it2, a, kw: (ListVal([]), ListVal([]), ListVal([]))
        raised = None
        saved = dict(it.loop_specs)
        it.loop_specs.pop(('dulprovider.DULServiceProvider.run', 0), None)   # this path runs the loop concretely
        try:
            it.call(it.getattr(provider, 'run'), [], {})
        except Raised as e:
            raised = e.exc
        finally:
            it.loop_specs.clear()
            it.loop_specs.update(saved)
        ob('completion-event-set', ev.fields.get('flag') is True)
        if how == 'stop-requested':
            ob('returns-quietly', raised is None and not puts)
        else:
            ob('error-propagates', raised is not None and raised.cls.name == 'RuntimeError')
            ob('user-told-of-the-abort', len(puts) == 1 and isinstance(puts[0], Obj) and puts[0].cls.name == 'AAbortPDU')
        p.outcome = 'normal'
    for how in ('stop-requested', 'exception-escapes'):
        lab = 'dulprovider.DULServiceProvider.run[%s]' % how
        ctx.add_exploration(lab, lambda p, how=how: run_exit(p, how), res, target='dulprovider.DULServiceProvider.run')

    def stop_kill(p):
        label = 'dulprovider.DULServiceProvider.stop'
        ob = obl(p, label)
        provider, sock = c12.build_provider(it)
        sta = p.choose([True] * 13, 'state') + 1
        provider.fields['state_machine'].fields['current_state'] = STA[sta]
        provider.fields['is_killed'] = False
        r = it.call(it.getattr(provider, 'stop'), [], {})
        ob('stops-only-an-idle-provider', (r is True and provider.fields['is_killed'] is True) if sta == 1 else
           (r is False and provider.fields['is_killed'] is False), state='Sta%d' % sta)
        # kill
        provider.fields['is_killed'] = False
        del p.trace[:]
        seen = []
        evobj = provider.fields['_is_killed']
        real_wait = evobj.cls.lookup('wait')[0]

        def wait(it2, a, kw):
            seen.append(provider.fields['is_killed'])
            return real_wait.fn(it2, a, kw)
        evobj.cls = ClassVal('Event', [evobj.cls], {'wait': nego.method(wait)}, 'harness')
        it.call(it.getattr(provider, 'kill'), [], {})
        p.oblige('dulprovider.DULServiceProvider.kill#flag-raised-before-waiting-for-completion',
                 z3.BoolVal(seen == [True]), kind='ensures', assume_after=False)
        p.outcome = 'normal'
    ctx.add_exploration('dulprovider.DULServiceProvider.stop', stop_kill, res, target='dulprovider.DULServiceProvider.stop')

    def assoc_kill(p):
        label = 'asceprovider.Association.kill'
        ob = obl(p, label)
        cfg = nego.install_cfg(it)
        me = nego.new_requester(it, cfg, 16384, [], nego.DictVal(), nego.DictVal())
        me.fields['association_established'] = True
        calls = []
        idle = p.fresh('provider_idle', smt.Bool)
        d = Obj(ClassVal('DULStub', [it.builtins['object']], {
            'stop': nego.method(lambda it2, a, kw: (calls.append('stop'), it2.p.branch(idle))[1] if len(calls) < 3 else
                                (calls.append('stop'), True)[1]),
            'kill': nego.method(lambda it2, a, kw: calls.append('kill'))}, 'harness'))
        me.fields['dul'] = d
        try:
            it.call(asc.attrs['Association'].lookup('kill')[0], [me], {})
        except Raised as e:
            ob('noexc', False, exception=e.exc.cls.name)
            p.outcome = 'normal'
            return
        ob('bounded-wait-then-kill', calls.count('kill') == 1 and calls[-1] == 'kill' and calls.count('stop') == 1000)
        ob('association-marked-over', me.fields['association_established'] is False)
        p.outcome = 'normal'
    ctx.add_exploration('asceprovider.Association.kill', assoc_kill, res, target='asceprovider.Association.kill')

    ctx.assumptions += [
        'bounded liveness is an argument over these contracts: (a) every iteration of run() terminates and never '
        'blocks (C12; select() has a 50 ms timeout), (b) Inv (C05) puts ARTIM in charge of Sta2 and Sta13, (c) the '
        'lemmas above give the cells that end the wait; the time bound itself (ARTIM period + polling interval) is '
        'not measured by the verifier',
        'the OS delivers a closed connection as readable end of stream; threads are scheduled fairly',
        'Association.kill: time.sleep is a no-op in the model; the loop is 1000 iterations in the code under test',
    ]
