"""C11 -- requester: well-formed proposal, accepted contexts and service lookup agree.

(A) id allocation -- AEBase.update_context_def_list / _build_context_def_list as one step of the
    data-structure invariant  Inv(n): the table has exactly the keys 1, 3, .., 2n-1 and key 2i+1 holds
    PContextDef(2i+1, i-th configured SOP class, supported_ts).  From an arbitrary table satisfying
    Inv(n) and an arbitrary list of m classes the call establishes Inv(n+m) with the new classes
    behind the old ones (checked at an arbitrary key).  Odd, distinct, increasing ids follow from
    Inv; ids <= 255 holds iff n+m <= 128.  copy_context_def_list returns an equal table.
(B) request construction -- AssociationRequester._request with an arbitrary table: called / calling
    AE titles, DICOM application context first, one presentation-context item per table entry
    (pointwise at an arbitrary position: id, abstract syntax, the configured transfer syntaxes in
    order), user information starting with Maximum Length = the configured maximum.
(C) reply processing -- loop over the answers (contracts/asceprovider_c.py): usable iff accepted, bound
    to the transfer syntax the peer chose; the provider routes by the same table; the reply is
    returned.
(D) get_scu -- a service bound to (association, context) iff the table has a context for the class
    (and the class is configured as SCU), else ClassNotSupportedError.
"""
import z3
from ..values import (Obj, Raised, Opaque, SeqVal, HList, Segment, DictVal, ListVal, SetVal, Unsupported,
                      NamedTupleVal, Builtin, ClassVal, int_term)
from .. import verify, smt, ops, dicts
from ..folds import map_instance
from . import nego

DICOM_APP_CONTEXT = '1.2.840.10008.3.1.1.1'


def run(ctx):
    it = ctx.build()
    nego.setup_spec(it)
    asc = it.modules['pynetdicom2.asceprovider']
    aem = it.modules['pynetdicom2.applicationentity']
    PCD = asc.attrs['PContextDef']
    res = verify.FunctionResult('asceprovider.')
    res2 = verify.FunctionResult('applicationentity.')
    infos = []
    for q in ('applicationentity.AEBase.update_context_def_list', 'applicationentity.AEBase._build_context_def_list',
              'applicationentity.AEBase.copy_context_def_list', 'asceprovider.build_pres_context_def_list',
              'asceprovider.AssociationRequester._request', 'asceprovider.AssociationRequester.get_scu'):
        fv, _ = verify.lookup_function(it, q)
        infos.append(verify.function_info(it, fv))
    ctx.extra['functions'] = infos

    def obl(p, label):
        def ob(name, f):
            if isinstance(f, bool):
                f = z3.BoolVal(f)
            p.oblige('%s#%s' % (label, name), f, kind='ensures', assume_after=False)
        return ob

    def noexc(p, label, r):
        p.oblige('%s#noexc' % label, z3.BoolVal(False), kind='noexc',
                 meta={'exception': r.exc.cls.name, 'args': repr(r.exc.fields.get('args'))[:200]}, assume_after=False)
        p.outcome = 'normal'

    # ------------------------------------------------------------------ (A) id allocation
    def inv_table(p, n, sop_fn, ts):
        d = DictVal()
        d.size = n
        d.keys_max = z3.simplify(2 * n - 1)

        def base(it2, key):
            k = int_term(key)
            if it2.p.branch(z3.And(k >= 1, k <= 2 * n - 1, k % 2 == 1)):
                return True, NamedTupleVal(PCD, (key, sop_fn(k), ts))
            return False, None
        d.base = base
        return d

    def update_case(p, store):
        label = 'applicationentity.AEBase.update_context_def_list'
        ob = obl(p, label)
        n = p.fresh_int('n_configured')
        p.assume(n >= 0)
        sop_fn = z3.Function('configured_sop', smt.Int, smt.Str)
        ts = Opaque('AE.supported_ts')
        ae = Obj(aem.attrs['AEBase'])
        table = inv_table(p, n, sop_fn, ts)
        ae.fields.update({'context_def_list': table, 'supported_ts': ts,
                          'store_in_file': SetVal([], member=lambda it2, x: it2.p.fresh('in_file', smt.Bool))})
        new = SeqVal(p.fresh('sop_classes', it.types.sort_of('Seq[str]')), 'str')
        m = z3.Length(new.term)
        try:
            it.call(aem.attrs['AEBase'].lookup('update_context_def_list')[0], [ae, new, store], {})
        except Raised as r:
            return noexc(p, label, r)
        after = ae.fields['context_def_list']
        ob('same-table-object', after is table)
        # the protocol's id range (one byte): the largest id is 2(n+m)-1
        many = not p.branch(n + m <= 128)
        if many:
            ob('ids-at-most-255:more-than-128-classes', z3.simplify(2 * (n + m) - 1) <= 255)
        # Inv(n + m) at an arbitrary key
        k = p.fresh_int('key')
        found, v = dicts.lookup(it, after, k)
        in_range = z3.And(k >= 1, k <= 2 * (n + m) - 1, k % 2 == 1)
        ob('keys-are-1-3-5', in_range if found else z3.Not(in_range))
        if found:
            good = isinstance(v, NamedTupleVal) and v.cls is PCD
            ob('entry-is-a-context-definition', good)
            if good:
                ob('entry-id-is-its-key', ops.values_equal(it, v.get('id'), k))
                j = p.fresh_int('j')
                p.assume(z3.And(2 * j + 1 == k))
                old = k <= 2 * n - 1
                if p.branch(old):
                    ob('old-entries-kept', ops.values_equal(it, v.get('sop_class'), sop_fn(k)))
                else:
                    from ..folds import elem_at
                    want = elem_at(it, new, z3.simplify(j - n))
                    ob('each-new-class-once-in-order', ops.values_equal(it, v.get('sop_class'), want))
                ob('entry-transfer-syntaxes', v.get('supported_ts') is ts)
        if not many:
            ob('ids-at-most-255:at-most-128-classes', z3.Implies(z3.BoolVal(bool(found)), k <= 255))
        p.outcome = 'normal'
    for store in (False,):
        lab = 'applicationentity.AEBase.update_context_def_list'
        ctx.add_exploration(lab, lambda p, store=store: update_case(p, store), res2, target=lab)

    def copy_case(p):
        label = 'applicationentity.AEBase.copy_context_def_list'
        ob = obl(p, label)
        n = p.fresh_int('n_configured')
        p.assume(n >= 0)
        sop_fn = z3.Function('configured_sop', smt.Int, smt.Str)
        ts = Opaque('AE.supported_ts')
        ae = Obj(aem.attrs['AEBase'])
        table = inv_table(p, n, sop_fn, ts)
        lock = it.instantiate(it.model_modules['threading'].attrs['Lock'], [], {})
        ae.fields.update({'context_def_list': table, 'lock': lock})
        try:
            cp = it.call(aem.attrs['AEBase'].lookup('copy_context_def_list')[0], [ae], {})
        except Raised as r:
            return noexc(p, label, r)
        ob('a-new-dictionary', isinstance(cp, DictVal) and cp is not table)
        if isinstance(cp, DictVal):
            k = p.fresh_int('key')
            f1, v1 = dicts.lookup(it, table, k)
            f2, v2 = dicts.lookup(it, cp, k)
            ob('same-keys', f1 == f2)
            if f1 and f2:
                ob('same-entries', ops.values_equal(it, v1.get('sop_class'), v2.get('sop_class')) is not False and
                   v1.get('supported_ts') is v2.get('supported_ts'))
        p.outcome = 'normal'
    ctx.add_exploration('applicationentity.AEBase.copy_context_def_list', copy_case, res2,
                        target='applicationentity.AEBase.copy_context_def_list')

    # ------------------------------------------------------------------ (A') add_scu / add_scp
    # The lookup clause ("a service can be obtained iff such a context exists") needs the configuration
    # invariant behind get_scu's two tables: every class a call of add_scu puts into the proposal (the list
    # it hands to update_context_def_list) is registered in supported_scu with that service, and nothing else
    # of the registry changes.  update_context_def_list is seen through a recording stub here (its own
    # contract is (A)).
    def add_case(p, which, override):
        label = 'applicationentity.AEBase.%s' % which
        if which == 'add_scu':
            label += '[override]' if override else '[service classes]'
        ob = obl(p, label)
        cfg = nego.install_cfg(it)
        calls = []

        def record(it2, args, kw):
            calls.append((args[1:], dict(kw)))
        base_cls = aem.attrs['AEBase'] if which == 'add_scu' else aem.attrs['AE']
        cls = ClassVal('AEUnderTest', [base_cls], {'update_context_def_list': nego.method(record)}, 'harness')
        ae = Obj(cls)
        old_svc = Opaque('service registered earlier')
        pred = cfg['used'] if which == 'add_scu' else cfg['served']
        reg = DictVal()

        def reg_base(it2, key):
            k = nego.name_term(it2, key)
            if it2.p.branch(pred(k)):
                return True, old_svc
            return False, None
        reg.base = reg_base
        other = DictVal()
        other.base = lambda it2, key: (_ for _ in ()).throw(Unsupported('the other registry is not to be read'))
        ae.fields.update({'supported_scu': reg if which == 'add_scu' else other,
                          'supported_scp': reg if which == 'add_scp' else other})
        own = SeqVal(p.fresh('service_sop_classes', it.types.sort_of('Seq[str]')), 'str')
        svc = Obj(ClassVal('ServiceUnderTest', [it.builtins['object']], {}, 'harness'))
        svc.fields['sop_classes'] = own
        in_file = p.fresh('service_store_in_file', smt.Bool)
        svc.fields['store_in_file'] = in_file
        given = None
        args = [ae, svc]
        if override:
            given = SeqVal(p.fresh('override_sop_classes', it.types.sort_of('Seq[str]')), 'str')
            args.append(given)
        try:
            r = it.call(base_cls.lookup(which)[0], args, {})
        except Raised as e:
            return noexc(p, label, e)
        # the effective list: a non-empty override, else the service's own classes
        if given is not None and p.branch(z3.Length(given.term) > 0):
            eff = given
        else:
            eff = own
        ob('chainable', r is ae)
        ok = len(calls) == 1 and len(calls[0][0]) >= 1 and isinstance(calls[0][0][0], SeqVal)
        ob('proposal-extended-once', ok)
        if ok:
            ob('proposal-extended-by-the-effective-list', calls[0][0][0].term == eff.term)
        k = p.fresh('some_sop_class', smt.Str)
        after = ae.fields['supported_' + which[-3:]]
        found, v = dicts.lookup(it, after, k)
        member = z3.Contains(eff.term, z3.Unit(k))
        if p.branch(member):
            ob('every-proposed-class-is-registered-with-the-service', bool(found) and v is svc)
        else:
            ob('rest-of-the-registry-unchanged', (bool(found) and v is old_svc) if p.branch(pred(k)) else (not found))
        p.outcome = 'normal'
    for which, override in (('add_scu', False), ('add_scu', True), ('add_scp', False)):
        lab = 'applicationentity.AEBase.%s' % which
        if which == 'add_scu':
            lab += '[override]' if override else '[service classes]'
        fv, _ = verify.lookup_function(it, 'applicationentity.%s.%s' % ('AEBase' if which == 'add_scu' else 'AE', which))
        if not override:
            infos.append(verify.function_info(it, fv))
        ctx.add_exploration(lab, lambda p, which=which, override=override: add_case(p, which, override), res2,
                            target='applicationentity.%s.%s' % ('AEBase' if which == 'add_scu' else 'AE', which))

    # ------------------------------------------------------------------ (B)+(C) _request
    def request_case(p):
        label = 'asceprovider.AssociationRequester._request'
        ob = obl(p, label)
        own, peer = p.fresh_int('own_max'), p.fresh_int('peer_max')
        nego.announced_range(p, own)
        nego.announced_range(p, peer)
        try:
            r = nego.run_request(it, own, peer)
        except Raised as e:
            return noexc(p, label, e)
        me, cfg = r['me'], r['cfg']
        sent = nego.dul_sends(p)
        ok = len(sent) == 1 and isinstance(sent[0], Obj) and sent[0].cls.name == 'AAssociateRqPDU'
        ob('one-request', ok)
        if not ok:
            p.outcome = 'normal'
            return
        rq = sent[0]
        ob('called-is-the-remote-entity', ops.values_equal(it, rq.fields['called_ae_title'], it.dict_get(r['remote'], 'aet')))
        ob('calling-is-the-local-entity', ops.values_equal(it, rq.fields['calling_ae_title'], it.dict_get(r['local'], 'aet')))
        items = rq.fields['variable_items']
        shape = isinstance(items, HList) and len(items.parts) == 3 and isinstance(items.parts[1], Segment)
        ob('application-context-then-contexts-then-user-information', shape)
        if shape:
            first, seg, last = items.parts
            ob('dicom-application-context', isinstance(first, Obj) and first.cls.name == 'ApplicationContextItem' and
               first.fields.get('context_name') == DICOM_APP_CONTEXT)
            ys = seg.seq
            ent = p.ghost.get('_mapped', {}).get(ys.term.get_id())
            ob('one-context-per-table-entry', ent is not None and ent[2] is r['items'])
            if ent is not None and ent[2] is r['items']:
                # pointwise: the item at an arbitrary position i
                i = p.fresh_int('i')
                p.assume(z3.And(i >= 0, i < z3.Length(r['items'].term)))
                k, c = nego.table_item(it, cfg, r['items'], r['tsseq'], i)
                x, y = map_instance(it, ys, i)
                isrq = isinstance(y, Obj) and y.cls.name == 'PresentationContextItemRQ'
                ob('context-item-kind', isrq)
                if isrq:
                    ob('context-item-id', ops.values_equal(it, y.fields['context_id'], k))
                    ab = y.fields['abs_sub_item']
                    ob('context-item-abstract-syntax', isinstance(ab, Obj) and ab.cls.name == 'AbstractSyntaxSubItem' and
                       ops.values_equal(it, ab.fields['name'], cfg['proposed_sop'](int_term(k))))
                    tss = y.fields['ts_sub_items']
                    inner = p.ghost.get('_mapped', {}).get(tss.term.get_id()) if isinstance(tss, SeqVal) else None
                    ob('configured-transfer-syntaxes', inner is not None and
                       z3.Length(tss.term) == z3.Length(r['tsseq'].term))
                    if inner is not None:
                        j = p.fresh_int('j')
                        p.assume(z3.And(j >= 0, j < z3.Length(tss.term)))
                        xj, yj = map_instance(it, tss, j)
                        from ..folds import elem_at
                        ob('transfer-syntax-item', isinstance(yj, Obj) and yj.cls.name == 'TransferSyntaxSubItem' and
                           ops.values_equal(it, yj.fields['name'], elem_at(it, r['tsseq'], j)))
            isui = isinstance(last, Obj) and last.cls.name == 'UserInformationItem'
            ob('user-information-last', isui)
            if isui:
                ud = last.fields['user_data']
                f0 = ud.items[0] if isinstance(ud, ListVal) and ud.items else None
                ob('announces-the-configured-maximum', isinstance(f0, Obj) and f0.cls.name == 'MaximumLengthSubItem' and
                   ops.values_equal(it, f0.fields['maximum_length_received'], own))
        # loop-exit path
        ob('provider-routes-by-the-same-table', me.fields['dul'].fields.get('accepted_contexts')
           is me.fields['accepted_contexts'])
        ob('returns-the-reply', r['result'] is r['ac'])
        p.outcome = 'normal'
    ctx.add_exploration('asceprovider.AssociationRequester._request', request_case, res,
                        target='asceprovider.AssociationRequester._request')

    # ------------------------------------------------------------------ (B0) build_pres_context_def_list, one entry
    # Supplementary to (B) (which treats the table as an arbitrary sequence of items): a table with a single
    # entry under an ARBITRARY id in the protocol's range and two configured transfer syntaxes gives exactly one
    # presentation-context item, carrying that id, that abstract syntax and those transfer syntaxes in order --
    # whatever the id (a filter on ids, which leaves the general exploration's supported subset, is seen here).
    def single_entry_case(p):
        label = 'asceprovider.build_pres_context_def_list[single entry]'
        ob = obl(p, label)
        k = p.fresh_int('context_id')
        p.assume(z3.And(k >= 1, k <= 255, k % 2 == 1))
        sop = p.fresh('sop_class', smt.Str)
        ts1, ts2 = p.fresh('ts1', smt.Str), p.fresh('ts2', smt.Str)
        entry = NamedTupleVal(PCD, (k, sop, ListVal([ts1, ts2])))
        table = DictVal()
        table.base = lambda it2, key: (True, entry) if it2.p.branch(int_term(key) == k) else (False, None)
        table.items_seq = ListVal([(k, entry)])      # its items in iteration order: the one entry
        table.size = 1
        try:
            gen = it.call(asc.attrs['build_pres_context_def_list'], [table], {})
            items = []
            it.iterate(gen, items.append)
        except Raised as r:
            return noexc(p, label, r)
        ob('each-configured-class-is-proposed-once', len(items) == 1)
        if len(items) == 1:
            x = items[0]
            good = isinstance(x, Obj) and x.cls.name == 'PresentationContextItemRQ'
            ob('is-a-presentation-context-item', good)
            if good:
                ob('carries-its-table-id', ops.values_equal(it, it.getattr(x, 'context_id'), k))
                ob('carries-its-abstract-syntax', ops.values_equal(it, it.getattr(it.getattr(x, 'abs_sub_item'), 'name'), sop))
                tss = it.getattr(x, 'ts_sub_items')
                names = [it.getattr(t, 'name') for t in tss.items] if isinstance(tss, ListVal) else None
                ob('carries-the-configured-transfer-syntaxes-in-order', names is not None and len(names) == 2 and
                   ops.values_equal(it, names[0], ts1) is not False and ops.values_equal(it, names[1], ts2) is not False
                   and z3.And(names[0] == ts1, names[1] == ts2))
        p.outcome = 'normal'
    ctx.add_exploration('asceprovider.build_pres_context_def_list[single entry]', single_entry_case, res,
                        target='asceprovider.build_pres_context_def_list')

    # ------------------------------------------------------------------ (B') request(): the caller of _request
    # _request takes the two entities as arguments; request() is what decides which is which.  _request is a
    # recording stub here (its contract is (B)+(C)): it is called once with the local entity first and the
    # remote entity second, the association counts as established only after it returned, and a refusal
    # (any exception of _request) leaves it not established.
    def request_wrapper_case(p):
        label = 'asceprovider.AssociationRequester.request'
        ob = obl(p, label)
        cfg = nego.install_cfg(it)
        remote = DictVal([('key', 'aet', p.fresh('remote_aet', smt.Str)), ('key', 'address', p.fresh('address', smt.Str)),
                          ('key', 'port', p.fresh_int('port'))])
        me = nego.new_requester(it, cfg, 16384, [], DictVal(), remote)
        ae = me.fields['ae']
        local = DictVal([('key', 'aet', p.fresh('local_aet', smt.Str)), ('key', 'address', p.fresh('node', smt.Str))])
        ae.fields['local_ae'] = local
        n_served = p.choose([True, True, True], 'number of classes served as SCP')
        ae.fields['supported_scp'] = DictVal([('key', '1.2.3.%d' % i, Opaque('service %d' % i)) for i in range(n_served)])
        log = []
        reply = Opaque('A-ASSOCIATE-AC')
        refused = p.branch(p.fresh('peer_refuses', smt.Bool))

        def fake_request(it2, a, kw):
            log.append(('_request', tuple(a[1:]), dict(kw), me.fields['association_established']))
            if refused:
                excm = it2.modules['pynetdicom2.exceptions']
                raise Raised(it2.instantiate(excm.attrs['AssociationRejectedError'], [1, 1, 1], {}))
            return reply

        def on_response(it2, a, kw):
            log.append(('on_association_response', tuple(a[1:]), me.fields['association_established']))
        me.cls = ClassVal('RequesterUnderTest', [asc.attrs['AssociationRequester']],
                          {'_request': nego.method(fake_request)}, 'harness')
        ae.cls = ClassVal('AEConfigStub2', [ae.cls], {'on_association_response': nego.method(on_response)}, 'harness')
        raised = None
        try:
            it.call(asc.attrs['AssociationRequester'].lookup('request')[0], [me], {})
        except Raised as r:
            raised = r.exc.cls.name
        reqs = [e for e in log if e[0] == '_request']
        ob('negotiates-once', len(reqs) == 1)
        if len(reqs) == 1:
            a = reqs[0][1]
            ob('local-entity-is-the-calling-side', len(a) >= 1 and a[0] is local)
            ob('remote-entity-is-the-called-side', len(a) >= 2 and a[1] is remote)
            ob('not-established-before-the-reply', reqs[0][3] is False)
            extra = reqs[0][2].get('users_pdu') if len(a) < 3 else a[2]
            items = list(extra.items) if isinstance(extra, ListVal) else []
            roles = [x for x in items if isinstance(x, Obj) and x.cls.name == 'ScpScuRoleSelectionSubItem']
            ob('one-role-selection-item-per-class-served-as-scp', len(roles) == n_served and len(items) == n_served)
        if refused:
            ob('refusal-propagates', raised == 'AssociationRejectedError')
            ob('refused-association-is-not-established', me.fields['association_established'] is False)
        else:
            ob('noexc', raised is None)
            told = [e for e in log if e[0] == 'on_association_response']
            ob('application-sees-the-reply', len(told) == 1 and told[0][1][:1] == (reply,))
            ob('established-after-an-accepting-reply', me.fields['association_established'] is True)
        p.outcome = 'normal'
    fv, _ = verify.lookup_function(it, 'asceprovider.AssociationRequester.request')
    infos.append(verify.function_info(it, fv))
    ctx.add_exploration('asceprovider.AssociationRequester.request', request_wrapper_case, res,
                        target='asceprovider.AssociationRequester.request')

    # ------------------------------------------------------------------ (B'') the state _request starts from
    # the requester's constructor (provider replaced by a recording stub): the proposal is the snapshot the
    # entity hands out (copy_context_def_list, (A)), the accepted-context tables are empty and the association's
    # own, the remote entity and the configured maximum length are the ones given, no socket yet
    def requester_constructor_case(p):
        label = 'asceprovider.AssociationRequester.__init__'
        ob = obl(p, label)
        dulm = it.modules['pynetdicom2.dulprovider']
        made = []
        stub = ClassVal('DULServiceProviderStub', [it.builtins['object']], {
            '__init__': nego.method(lambda it2, a, kw: made.append((tuple(a[1:]), dict(kw))))}, 'harness')
        real = dulm.attrs['DULServiceProvider']
        dulm.attrs['DULServiceProvider'] = stub
        cfg = nego.install_cfg(it)
        ae = nego.new_ae(it, cfg)
        ae.fields['store_in_file'] = Opaque('ae.store_in_file')
        ae.fields['get_file'] = Opaque('ae.get_file')
        snapshots = []

        def copy_list(it2, a, kw):
            snapshots.append(DictVal())
            return snapshots[-1]
        ae.cls = ClassVal('AEConfigStub3', [ae.cls], {'copy_context_def_list': nego.method(copy_list)}, 'harness')
        own = p.fresh_int('configured_max')
        objs = []
        try:
            for i in range(2):
                me = Obj(asc.attrs['AssociationRequester'])
                remote = Opaque('remote entity %d' % i)
                it.call(asc.attrs['AssociationRequester'].lookup('__init__')[0], [me, ae, own, remote], {})
                objs.append((me, remote))
        except Raised as r:
            return noexc(p, label, r)
        finally:
            dulm.attrs['DULServiceProvider'] = real
        for i, (me, remote) in enumerate(objs):
            f = me.fields
            for tname in ('accepted_contexts', 'sop_classes_as_scu'):
                t = f.get(tname)
                ob('empty-%s' % tname.replace('_', '-'), isinstance(t, DictVal) and not t.entries and t.base is None)
            ob('proposal-is-the-entitys-snapshot', len(snapshots) == 2 and f.get('context_def_list') is snapshots[i])
            ob('not-established', f.get('association_established') is False)
            ob('configured-maximum-length', f.get('max_pdu_length') is own)
            ob('remote-entity-as-given', f.get('remote_ae') is remote and f.get('ae') is ae)
            ok = len(made) == 2 and len(made[i][0]) >= 3
            ob('provider-without-a-connection-yet', ok and made[i][0][0] is ae.fields['store_in_file'] and
               made[i][0][1] is ae.fields['get_file'] and made[i][0][2] is None)
        a, b = objs[0][0].fields, objs[1][0].fields
        ob('tables-are-per-association', a.get('accepted_contexts') is not b.get('accepted_contexts') and
           a.get('sop_classes_as_scu') is not b.get('sop_classes_as_scu') and
           a.get('accepted_contexts') is not a.get('sop_classes_as_scu'))
        p.outcome = 'normal'
    fv, _ = verify.lookup_function(it, 'asceprovider.AssociationRequester.__init__')
    infos.append(verify.function_info(it, fv))
    ctx.add_exploration('asceprovider.AssociationRequester.__init__', requester_constructor_case, res,
                        target='asceprovider.AssociationRequester.__init__')

    # ------------------------------------------------------------------ (D) get_scu
    def get_scu_case(p):
        label = 'asceprovider.AssociationRequester.get_scu'
        ob = obl(p, label)
        cfg = nego.install_cfg(it)
        has = z3.Function('scu_table_has', smt.Str, smt.Bool)
        id_of = z3.Function('scu_table_id', smt.Str, smt.Int)
        ts_of = z3.Function('scu_table_ts', smt.Str, smt.Str)
        table = DictVal()

        def base(it2, key):
            k = nego.name_term(it2, key)
            if it2.p.branch(has(k)):
                return True, (id_of(k), ts_of(k))
            return False, None
        table.base = base
        me = nego.new_requester(it, cfg, 16384, [], DictVal(), DictVal())
        me.fields['sop_classes_as_scu'] = table
        svc = Builtin('service', lambda it2, a, kw: None)

        def scu_base(it2, key):
            k = nego.name_term(it2, key)
            if it2.p.branch(cfg['used'](k)):
                return True, svc
            return False, None
        me.fields['ae'].fields['supported_scu'].base = scu_base
        sop = p.fresh('sop_class', smt.Str)
        raised, result = None, None
        try:
            result = it.call(asc.attrs['AssociationRequester'].lookup('get_scu')[0], [me, sop], {})
        except Raised as r:
            raised = r.exc.cls.name
        usable = z3.And(has(sop), cfg['used'](sop))
        ob('service-iff-usable-context', usable if raised is None else z3.Not(usable))
        ob('lookup-fails-with-class-not-supported', raised in (None, 'ClassNotSupportedError'))
        if raised is None:
            po = getattr(result, 'partial_of', None)
            good = po is not None and po[0] is svc and len(po[1]) == 2 and not po[2]
            ob('service-bound-to-association-and-context', good and po[1][0] is me and
               isinstance(po[1][1], NamedTupleVal) and po[1][1].cls is PCD)
            if good and isinstance(po[1][1], NamedTupleVal):
                c = po[1][1]
                ob('context-id', ops.values_equal(it, c.get('id'), id_of(sop)))
                ob('context-abstract-syntax', ops.values_equal(it, c.get('sop_class'), sop))
                ob('context-transfer-syntax', ops.values_equal(it, c.get('supported_ts'), ts_of(sop)))
        p.outcome = 'normal'
    ctx.add_exploration('asceprovider.AssociationRequester.get_scu', get_scu_case, res,
                        target='asceprovider.AssociationRequester.get_scu')

    from .. import replay as _replay

    def _replayer(script):
        def fn(ctx2, ob, model):
            return _replay.run_native(script, {'obligation': ob.name}, timeout=300)
        return fn
    ctx.replayers['*'] = _replayer('nego.py')
    ctx.native_crosschecks.append(('nego.py', {'obligation': 'asceprovider.AssociationRequester._request#'}, 'request / reply patterns / get_scu'))
    ctx.native_crosschecks.append(('nego.py', {'obligation': 'applicationentity.AEBase.add_scu#'}, 'add_scu / add_scp registrations'))
    ctx.native_crosschecks.append(('nego.py', {'obligation': 'applicationentity.AEBase.update_context_def_list#'}, 'id allocation (the known finding shows up here)'))
    ctx.assumptions += [
        'the reply is an A-ASSOCIATE-AC in standard item order whose answers all carry ids the requester proposed '
        '(an accepted context that was never proposed makes _request raise KeyError; the statement speaks of '
        'the contexts "among those it proposed")',
        'AE.supported_ts is iterated in one fixed order (a frozenset that is not modified)',
        'add_scu / add_scp: verified with update_context_def_list behind a recording stub (its contract is (A)); the '
        'registry is an abstractly given dictionary, the service class lists are symbolic sequences of strings; '
        'engine rule: {x: V for x in xs} over a symbolic sequence = dictionary with membership Contains(xs, <k>)',
        'engine rules used: dictionary comprehension over zip(sequence, count(a, s)) = table with keys a + s*j; '
        'dict.update with such a table = one layer of the update chain; a list built by chain() around a '
        'generator expression over a symbolic sequence = pointwise-defined segment (map_instance)',
        'configured and announced maximum lengths range over {0} u [7, 2^32-1]',
        'induction over the calls of add_scu/add_scp (each call preserves Inv) and over loop iterations is the '
        'standard schema and is not machine-checked',
    ]
