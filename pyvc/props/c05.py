"""C05 -- provider behaviour equals the PS3.8 protocol machine over every event history.

Refinement argument by induction over the iterations of DULServiceProvider.run; every step of it is a
contract on a real function, machine-checked here or under the property named:

  (1) one event at a time, handled in queue order with the primitive stored when it was queued
      (loop invariant of run, C03 -- re-generated here)
  (2) events are generated as the standard numbers them: a recognised PDU of type t gives the PS3.8
      event of "t received" (PDU_TYPES), a user primitive of type t the event of "t request/response"
      (PDU_TO_EVENT), an undecodable or unknown PDU Evt19, end of stream Evt17, ARTIM expiry Evt18 --
      the two tables against spec/ps38_table_9_10.py; _check_outgoing_pdu and _check_timer / Timer below
  (3) every event is handled as Table 9-10 says: all 247 cells x role x ARTIM x primitive kind (the C04
      obligations, re-generated here) -- wire, user, transport, timer, next state
  (4) the provider-loop invariant Inv is preserved by every defined cell: idle <=> no connection;
      ARTIM runs exactly in Sta2 and Sta13 (obligations `inv:*`); with (3) this gives the "in particular"
      clauses: no P-DATA outside an established association (the cells), an idle provider has closed
      its connection, ARTIM runs exactly while awaiting the first PDU or the peer's close
  (5) once idle without a connection nothing is read any more: _check_network returns False without
      touching a socket, so no further peer traffic can produce an indication
"""
import z3
from ..values import Obj, ListVal, Raised, Opaque, ClassVal, Builtin, PathEnd, Unsupported, DictVal
from .. import verify, smt, ops
from . import c04, c12


def run(ctx):
    c04.run(ctx)            # (3) + (4): every cell, with the invariant obligations (ctx.pid == 'C05')
    it = ctx.it
    T = c04.spec_table()
    fsm = it.modules['pynetdicom2.fsm']
    dul = it.modules['pynetdicom2.dulprovider']
    pm = it.modules['pynetdicom2.pdu']
    States, Events = fsm.attrs['States'], fsm.attrs['Events']
    EV = {n: Events.attrs['EVT_%d' % n] for n in range(1, 20)}
    res = verify.FunctionResult('dulprovider.')
    infos = list(ctx.extra.get('functions', []))
    for q in ('dulprovider.DULServiceProvider._check_outgoing_pdu', 'dulprovider.DULServiceProvider._check_timer',
              'dulprovider.Timer.check', 'dulprovider.Timer.start', 'dulprovider.DULServiceProvider._check_network'):
        fv, _ = verify.lookup_function(it, q)
        infos.append(verify.function_info(it, fv))
    ctx.extra['functions'] = infos

    def obl(p, label):
        def ob(name, f, **meta):
            if isinstance(f, bool):
                f = z3.BoolVal(f)
            p.oblige('%s#%s' % (label, name), f, kind='ensures', meta=meta, assume_after=False)
        return ob

    def events_of(provider):
        return provider.fields['event'].fields['items'].items

    # ------------------------------------------------------------------ (2) event numbering
    def tables(p):
        label = 'dulprovider.PDU_TYPES'
        ob = obl(p, label)
        types = dul.attrs['PDU_TYPES']
        to_event = dul.attrs['PDU_TO_EVENT']
        recv_evt = {k: e for e, k in T.EVENT_PRIMITIVE.items() if e in T.PEER_PDU_EVENTS}
        user_evt = {k: e for e, k in T.EVENT_PRIMITIVE.items() if e in T.USER_EVENTS}
        for kind in T.PDU_KINDS:
            code = T.PDU_TYPE_CODE[kind]
            cls = pm.attrs[c04.KIND_CLASS[kind]]
            found = it.dict_contains(types, code)
            ob('received-%s' % kind, found is True and it.dict_get(types, code)[0] is cls and
               it.dict_get(types, code)[1] is EV[recv_evt[kind]], event='Evt%d' % recv_evt[kind])
            ob('pdu-type-code-%s' % kind, cls.lookup('pdu_type')[0] == code)
            ob('user-%s' % kind, it.dict_contains(to_event, code) is True and
               it.dict_get(to_event, code) is EV[user_evt[kind]], event='Evt%d' % user_evt[kind])
        ob('no-other-type-codes', sorted(it.dict_keys(types)) == sorted(T.PDU_TYPE_CODE.values()) and
           sorted(it.dict_keys(to_event)) == sorted(T.PDU_TYPE_CODE.values()))
        p.outcome = 'normal'
    ctx.add_exploration('dulprovider.PDU_TYPES', tables, res)

    def outgoing(p, what):
        label = 'dulprovider.DULServiceProvider._check_outgoing_pdu[%s]' % what
        ob = obl(p, label)
        provider, sock = c12.build_provider(it)
        del events_of(provider)[:]
        q = provider.fields['from_service_user'].fields['items'].items
        del q[:]
        prim0 = Opaque('earlier primitive')
        provider.fields['primitive'] = prim0
        provider.fields['dimse_gen'] = None
        provider.fields['raw_pdu'] = p.fresh_bytes('buffered')
        sta = p.choose([True] * 13, 'state') + 1
        provider.fields['state_machine'].fields['current_state'] = States.attrs['STA_%d' % sta]
        item = None
        if what != 'empty':
            kind = T.PDU_KINDS[p.choose([True] * 7, 'user primitive kind')]
            item = c04.make_prim(it, kind)
            q.append(item)
        try:
            r = it.call(it.getattr(provider, '_check_outgoing_pdu'), [], {})
        except Raised as e:
            ob('noexc', False, exception=e.exc.cls.name)
            p.outcome = 'normal'
            return
        evs = events_of(provider)
        if what == 'empty':
            ob('nothing-to-do', r is False and not evs and provider.fields['primitive'] is prim0)
        else:
            want = {k: e for e, k in T.EVENT_PRIMITIVE.items() if e in T.USER_EVENTS}[kind]
            ob('user-primitive-becomes-the-current-primitive', provider.fields['primitive'] is item and not q)
            ob('user-primitive-gives-its-ps38-event', len(evs) == 1 and evs[0] is EV[want] and r is True,
               event='Evt%d' % want)
        p.outcome = 'normal'
    for what in ('empty', 'pdu'):
        lab = 'dulprovider.DULServiceProvider._check_outgoing_pdu[%s]' % what
        ctx.add_exploration(lab, lambda p, what=what: outgoing(p, what), res,
                            target='dulprovider.DULServiceProvider._check_outgoing_pdu')

    def timer_case(p):
        label = 'dulprovider.DULServiceProvider._check_timer'
        ob = obl(p, label)
        provider, sock = c12.build_provider(it)
        del events_of(provider)[:]
        # everything else the provider holds is arbitrary (e.g. a partial PDU in the receive buffer)
        provider.fields['raw_pdu'] = p.fresh_bytes('buffered')
        provider.fields['primitive'] = Opaque('some earlier primitive')
        sta = p.choose([True] * 13, 'state') + 1
        provider.fields['state_machine'].fields['current_state'] = States.attrs['STA_%d' % sta]
        timer = provider.fields['timer']
        running = p.branch(p.fresh('artim_running', smt.Bool))
        if running:
            t0 = p.fresh_int('started_at')
            p.assume(t0 > 0)
            timer.fields['_start_time'] = t0
            p.ghost['clock'] = t0          # the clock model is monotonic: the next reading is >= t0
        else:
            timer.fields['_start_time'] = None
        mx = timer.fields['_max_seconds']
        try:
            r = it.call(it.getattr(provider, '_check_timer'), [], {})
        except Raised as e:
            ob('noexc', False, exception=e.exc.cls.name)
            p.outcome = 'normal'
            return
        evs = events_of(provider)
        now = p.ghost.get('clock')
        if running and now is t0:
            # the decision was taken without reading the clock although ARTIM is running
            ob('evt18-iff-artim-running-and-expired', False, why='the clock was not consulted while ARTIM is running')
            p.outcome = 'normal'
            return
        expired = (now - t0 > mx) if running else False
        fired = len(evs) == 1 and evs[0] is EV[18] and r is True
        quiet = not evs and r is False
        if fired:
            ob('evt18-iff-artim-running-and-expired', expired)
        elif quiet:
            ob('evt18-iff-artim-running-and-expired', ops.neg(expired) if not isinstance(expired, bool) else not expired)
        else:
            ob('evt18-iff-artim-running-and-expired', False)
        ob('artim-period-is-positive', isinstance(mx, int) and mx > 0)
        p.outcome = 'normal'
    ctx.add_exploration('dulprovider.DULServiceProvider._check_timer', timer_case, res,
                        target='dulprovider.DULServiceProvider._check_timer')

    # ------------------------------------------------------------------ (2') the two queues between user and provider
    def queues(p):
        label = 'dulprovider.DULServiceProvider.send'
        ob = obl(p, label)
        provider, sock = c12.build_provider(it)
        out_q = provider.fields['from_service_user'].fields['items'].items
        in_q = provider.fields['to_service_user'].fields['items'].items
        del out_q[:]
        del in_q[:]
        x, y = Opaque('first primitive'), Opaque('second primitive')
        try:
            it.call(it.getattr(provider, 'send'), [x], {})
            it.call(it.getattr(provider, 'send'), [y], {})
        except Raised as e:
            ob('noexc', False, exception=e.exc.cls.name)
            p.outcome = 'normal'
            return
        ob('user-primitives-queued-in-order-of-the-requests', len(out_q) == 2 and out_q[0] is x and out_q[1] is y and not in_q)
        a, b = Opaque('first indication'), Opaque('second indication')
        in_q.extend([a, b])
        lab2 = 'dulprovider.DULServiceProvider.receive'
        ob2 = obl(p, lab2)
        got, raised = [], None
        try:
            got.append(it.call(it.getattr(provider, 'receive'), [5], {}))
            got.append(it.call(it.getattr(provider, 'receive'), [5], {}))
            it.call(it.getattr(provider, 'receive'), [5], {})
        except Raised as e:
            raised = e.exc.cls.name
        ob2('indications-delivered-once-in-order', len(got) == 2 and got[0] is a and got[1] is b and not in_q)
        ob2('nothing-to-deliver-is-a-timeout-error', raised == 'DCMTimeoutError')
        ob2('user-queue-untouched', len(out_q) == 2)
        p.outcome = 'normal'
    for q in ('dulprovider.DULServiceProvider.send', 'dulprovider.DULServiceProvider.receive'):
        fv, _ = verify.lookup_function(it, q)
        infos.append(verify.function_info(it, fv))
    ctx.extra['functions'] = infos
    ctx.add_exploration('dulprovider.DULServiceProvider.send', queues, res, target='dulprovider.DULServiceProvider.send')

    # ------------------------------------------------------------------ (5) idle: nothing is read
    def idle(p):
        label = 'dulprovider.DULServiceProvider._check_network[idle]'
        ob = obl(p, label)
        provider, sock = c12.build_provider(it)
        provider.fields['state_machine'].fields['current_state'] = States.attrs['STA_1']
        provider.fields['dul_socket'] = None
        provider.fields['raw_pdu'] = p.fresh_bytes('leftover')
        del events_of(provider)[:]
        touched = []
        it.hooks['select'] = lambda it2, a, kw: touched.append('select') or (ListVal([]), ListVal([]), ListVal([]))
        it.hooks['recv'] = lambda it2, a, kw: touched.append('recv') or b''
        try:
            r = it.call(it.getattr(provider, '_check_network'), [], {})
        except Raised as e:
            ob('noexc', False, exception=e.exc.cls.name)
            p.outcome = 'normal'
            return
        ob('idle-provider-reads-nothing-and-indicates-nothing', r is False and not touched and not events_of(provider))
        p.outcome = 'normal'
    ctx.add_exploration('dulprovider.DULServiceProvider._check_network[idle]', idle, res,
                        target='dulprovider.DULServiceProvider._check_network')

    # ------------------------------------------------------------------ (1) the run loop and the receive path
    # (C03's explorations, all of them: peer events reach the machine completely and in order of arrival, the
    # end of the stream included -- after whatever was received before it)
    from . import c03
    c03.register_all(ctx, it, res)

    def replayer(ctx2, ob_, model):
        from .. import replay
        if any(f in ob_.name for f in ('._check_network', '._check_incoming_pdu', '._process_incoming')):
            # the receive path: segmentations and end of stream (C03's native search)
            return replay.run_native('c03.py', {'obligation': ob_.name.split('[')[0]}, timeout=600)
        return replay.run_native('c05.py', {'search': 'histories'}, timeout=600)   # one search serves them all
    ctx.replayers['dulprovider.*'] = replayer
    ctx.replayers['*#inv:*'] = replayer

    if ctx.tier == 'thorough':
        from .. import replay
        r = replay.run_native('c05.py', {}, timeout=900)
        ctx.bounded.append({'what': 'CPython cross-check: the real provider loop stepped against the executable PS3.8 table '
                                    'over event histories (engine and composition guard; bounded, not counted as proof)',
                            'bound': r.get('bound', ''), 'evaluations': r.get('evaluations', 0),
                            'ok': 'error' not in r and not r.get('reproduced'), 'failures': r.get('failures', [])[:3]})
        if r.get('reproduced'):
            ctx.audits.append(('native history cross-check', False, r.get('failures', [])[:3]))

    ctx.assumptions += [
        'refinement by induction over the iterations of run(): (1) one event per iteration with its primitive, (2) '
        'events numbered as in PS3.8, (3) every cell of Table 9-10, (4) the loop invariant Inv preserved by every cell, '
        '(5) nothing read when idle -- each is machine-checked; the induction that composes them into "for every '
        'history" is the standard schema and is not machine-checked',
        'user primitives are legal in the state in which the state machine gets them (an illegal one is an undefined '
        'cell: KeyError in action(), the provider thread ends -- C04 checks that such a cell has no effect)',
        'DIMSE encoder generators queued by Association.send yield P-DATA-TF PDUs (C06); handled like a P-DATA request',
        'the clock is monotonic (time.time model: a symbolic instant not before the start of ARTIM)',
    ]
