"""C10 -- the negotiated maximum PDU length is honoured in both directions, including 0.

own  = the maximum length this side is configured with (what it is prepared to receive)
peer = the value the other side announced in its Maximum Length sub-item
eff  = Association.max_pdu_length after negotiation (the limit applied to what this side sends)

  acceptor (AssociationAcceptor.accept) and requester (AssociationRequester._request):
    #bound      peer != 0  =>  eff != 0 and eff <= peer      (never above what the peer announced)
    #unlimited  peer == 0  =>  eff == own                    (0 restricts nothing)
    #usable     eff == 0 or eff >= 7                          (a fragment of >= 1 byte fits)
    #announce   own != 0   =>  1 <= announced <= own          (announces what it will receive)
  Association.send            hands exactly `eff` to the message encoder
  DIMSEMessage.encode         every P-DATA-TF it yields has pdu_length == len(fragment) + 6
  fragment / fragment_file    every fragment has 1 <= len <= max - 6 when max != 0; max == 0: no limit
"""
import z3
from ..values import Obj, Raised, Opaque, SeqVal, HList, Segment, DictVal, ListVal, Unsupported
from .. import verify, smt, ops
from . import nego


def run(ctx):
    it = ctx.build(by_contract=['dsutils.decode', 'dsutils.encode', 'dsutils.encode_element'])
    nego.setup_spec(it)
    asc = it.modules['pynetdicom2.asceprovider']
    res = verify.FunctionResult('asceprovider.')
    infos = []
    for q in ('asceprovider.AssociationAcceptor.accept', 'asceprovider.AssociationRequester._request',
              'asceprovider.Association.send'):
        fv, _ = verify.lookup_function(it, q)
        infos.append(verify.function_info(it, fv))
    ctx.extra['functions'] = infos

    def noexc(p, label, r):
        p.oblige('%s#noexc' % label, z3.BoolVal(False), kind='noexc',
                 meta={'exception': r.exc.cls.name, 'args': repr(r.exc.fields.get('args'))[:200]}, assume_after=False)
        p.outcome = 'normal'

    def length_clauses(p, label, own, peer, eff, announced):
        def ob(name, f):
            p.oblige('%s#%s' % (label, name), f, kind='ensures', assume_after=False)
        eff, announced = z3.IntVal(eff) if isinstance(eff, int) else eff, \
            z3.IntVal(announced) if isinstance(announced, int) else announced
        ob('bound', z3.Implies(peer != 0, z3.And(eff != 0, eff <= peer)))
        ob('unlimited', z3.Implies(peer == 0, eff == own))
        ob('usable', z3.Or(eff == 0, eff >= 7))
        ob('announce', z3.Implies(own != 0, z3.And(announced >= 1, announced <= own)))

    # ------------------------------------------------------------------ acceptor
    def accept_case(p):
        label = 'asceprovider.AssociationAcceptor.accept'
        cfg = nego.install_cfg(it)
        own, peer = p.fresh_int('own_max'), p.fresh_int('peer_max')
        nego.announced_range(p, own)
        nego.announced_range(p, peer)
        rq, app, mid, user, ml = nego.association_rq(it, peer)
        me = nego.new_acceptor(it, cfg, own)
        try:
            it.call(asc.attrs['AssociationAcceptor'].lookup('accept')[0], [me, rq], {})
        except Raised as r:
            return noexc(p, label, r)
        sent = nego.dul_sends(p)
        p.oblige('%s#one-reply' % label, z3.BoolVal(len(sent) == 1 and isinstance(sent[0], Obj) and
                                                     sent[0].cls.name == 'AAssociateAcPDU'),
                 kind='ensures', assume_after=False)
        if len(sent) != 1:
            p.outcome = 'normal'
            return
        ac = sent[0]
        # the Maximum Length sub-item of the reply that goes out
        try:
            ui = it.getitem(it.getattr(ac, 'variable_items'), -1)
            first = it.getitem(it.getattr(ui, 'user_data'), 0)
            announced = it.getattr(first, 'maximum_length_received')
            is_ml = isinstance(first, Obj) and first.cls.name == 'MaximumLengthSubItem'
        except (Raised, Unsupported):
            announced, is_ml = None, False
        p.oblige('%s#reply-announces-a-maximum-length' % label, z3.BoolVal(bool(is_ml)), kind='ensures',
                 assume_after=False)
        if is_ml:
            length_clauses(p, label, own, peer, me.fields['max_pdu_length'], announced)
        p.outcome = 'normal'
    ctx.add_exploration('asceprovider.AssociationAcceptor.accept', accept_case, res,
                        target='asceprovider.AssociationAcceptor.accept')
    # ------------------------------------------------------------------ requester
    def request_case(p):
        label = 'asceprovider.AssociationRequester._request'
        own, peer = p.fresh_int('own_max'), p.fresh_int('peer_max')
        nego.announced_range(p, own)
        nego.announced_range(p, peer)
        try:
            r = nego.run_request(it, own, peer)
        except Raised as e:
            return noexc(p, label, e)
        me = r['me']
        sent = nego.dul_sends(p)
        ok = len(sent) == 1 and isinstance(sent[0], Obj) and sent[0].cls.name == 'AAssociateRqPDU'
        p.oblige('%s#one-request' % label, z3.BoolVal(ok), kind='ensures', assume_after=False)
        announced, is_ml = None, False
        if ok:
            try:
                ui = it.getitem(it.getattr(sent[0], 'variable_items'), -1)
                first = it.getitem(it.getattr(ui, 'user_data'), 0)
                announced = it.getattr(first, 'maximum_length_received')
                is_ml = isinstance(first, Obj) and first.cls.name == 'MaximumLengthSubItem'
            except (Raised, Unsupported):
                pass
        p.oblige('%s#request-announces-a-maximum-length' % label, z3.BoolVal(bool(is_ml)), kind='ensures',
                 assume_after=False)
        if is_ml:
            length_clauses(p, label, own, peer, me.fields['max_pdu_length'], announced)
        p.outcome = 'normal'
    ctx.add_exploration('asceprovider.AssociationRequester._request', request_case, res,
                        target='asceprovider.AssociationRequester._request')

    from .. import replay as _replay

    def _replayer(script):
        def fn(ctx2, ob, model):
            return _replay.run_native(script, {'obligation': ob.name}, timeout=300)
        return fn
    ctx.replayers['asceprovider.AssociationAcceptor*'] = _replayer('nego.py')
    ctx.replayers['asceprovider.AssociationRequester*'] = _replayer('nego.py')
    ctx.native_crosschecks.append(('nego.py', {'obligation': 'asceprovider.AssociationAcceptor.accept#'}, 'acceptor over the maximum-length grid'))
    ctx.native_crosschecks.append(('nego.py', {'obligation': 'asceprovider.AssociationRequester._request#'}, 'requester over the maximum-length grid'))
    ctx.native_crosschecks.append(('fragments.py', {'obligation': ''}, 'fragment sizes against the limit'))
    # ------------------------------------------------------------------ the limit applied to what is sent
    # Association.send hands eff to DIMSEMessage.encode; every P-DATA-TF that yields has
    # pdu_length = len(fragment) + 6 <= eff (eff != 0), and all bytes are sent for any eff in range
    from . import c06
    c06.register(ctx, it)

    ctx.assumptions += [
        'configured and announced maximum lengths range over {0} u [7, 2^32-1] (a P-DATA-TF PDU that carries at '
        'least one byte of a fragment has length 7)',
        'the request lists its items in standard order: application context, presentation contexts, user '
        'information whose first sub-item is Maximum Length (accept() indexes them positionally)',
        'object state as left by the constructors (empty routing tables); the constructors themselves (sockets, '
        'provider thread) are outside the verified subset',
        'loop frame: locations not named in a loop specification\'s havoc list are taken as unchanged by the loop '
        'only where an invariant pins them (max_pdu_length, the announced value, list and table marks)',
    ]
