"""C09 -- the acceptor answers every proposed presentation context correctly.

AssociationAcceptor.accept is executed on an arbitrary A-ASSOCIATE-RQ in standard item order
(application context, n >= 0 presentation contexts each proposing m >= 0 transfer syntaxes, user
information) against an arbitrary configuration (predicates served / supported_ts).

  per proposed context (loop 0 iteration, contracts/asceprovider_c.py):
      exactly one answer is appended, with that context's id; it is an acceptance iff the abstract
      syntax is served and some proposed transfer syntax is supported; an accepted transfer syntax
      is an element of the proposal and supported; the routing tables get a binding for the id iff
      accepted, carrying the proposed abstract syntax and the *reported* transfer syntax
  transfer-syntax scan (loop 1): syntaxes passed over are unsupported; passing over changes nothing
  reply (loop exit path): one A-ASSOCIATE-AC; it starts with the request's application-context item,
      ends with the request's user information, repeats both AE titles; nothing but the loop's
      answers in between; the provider's routing table *is* the association's table
  dispatch (AssociationAcceptor._loop): a message on context id k is given to a service iff k is in
      the SCP table (and the class is served); the context handed to the service is the table's
"""
import z3
from ..values import Obj, Raised, Opaque, SeqVal, HList, Segment, DictVal, ListVal, Unsupported, NamedTupleVal
from .. import verify, smt, ops
from . import nego


def run(ctx):
    it = ctx.build()
    nego.setup_spec(it)
    asc = it.modules['pynetdicom2.asceprovider']
    res = verify.FunctionResult('asceprovider.')
    infos = []
    for q in ('asceprovider.AssociationAcceptor.accept', 'asceprovider.AssociationAcceptor._loop'):
        fv, _ = verify.lookup_function(it, q)
        infos.append(verify.function_info(it, fv))
    ctx.extra['functions'] = infos
    label = 'asceprovider.AssociationAcceptor.accept'

    def accept_case(p):
        cfg = nego.install_cfg(it)
        own, peer = p.fresh_int('own_max'), p.fresh_int('peer_max')
        nego.announced_range(p, own)
        nego.announced_range(p, peer)
        rq, app, mid, user, ml = nego.association_rq(it, peer)
        me = nego.new_acceptor(it, cfg, own)
        try:
            it.call(asc.attrs['AssociationAcceptor'].lookup('accept')[0], [me, rq], {})
        except Raised as r:
            p.oblige('%s#noexc' % label, z3.BoolVal(False), kind='noexc',
                     meta={'exception': r.exc.cls.name, 'args': repr(r.exc.fields.get('args'))[:200]},
                     assume_after=False)
            p.outcome = 'normal'
            return

        def ob(name, f):
            if isinstance(f, bool):
                f = z3.BoolVal(f)
            p.oblige('%s#%s' % (label, name), f, kind='ensures', assume_after=False)
        sent = nego.dul_sends(p)
        ok = len(sent) == 1 and isinstance(sent[0], Obj) and sent[0].cls.name == 'AAssociateAcPDU'
        ob('one-reply', ok)
        if ok:
            ac = sent[0]
            ob('reply-called-ae-title', ops.values_equal(it, it.getattr(ac, 'called_ae_title'),
                                                         it.getattr(rq, 'called_ae_title')))
            ob('reply-calling-ae-title', ops.values_equal(it, it.getattr(ac, 'calling_ae_title'),
                                                          it.getattr(rq, 'calling_ae_title')))
            items = it.getattr(ac, 'variable_items')
            shape = isinstance(items, HList) and len(items.parts) >= 2 and items.parts[0] is app and \
                items.parts[-1] is user
            ob('reply-repeats-application-context-and-user-information', shape)
            # on the loop-exit path the only thing between the two is what the loop appended
            between = items.parts[1:-1] if shape else []
            ob('reply-holds-only-the-answers', all(isinstance(x, Segment) and x.seq.elem == 'VarItem'
                                                   for x in between) and len(between) <= 1)
        ob('provider-routes-by-the-same-table', me.fields['dul'].fields.get('accepted_contexts')
           is me.fields['accepted_contexts'])
        p.outcome = 'normal'
    ctx.add_exploration(label, accept_case, res, target=label)

    # ------------------------------------------------------------------ the state accept() starts from
    # accept() and _loop are verified on "object state as left by the constructors": that state is an obligation
    # on the constructors (provider and socketserver base replaced by recording stubs): every association gets
    # its OWN empty routing tables (state shared between associations would route one peer's messages by
    # another peer's negotiation), is not established, and carries the configured maximum length.
    def constructor_case(p):
        from ..values import ClassVal, Builtin
        lab0 = 'asceprovider.AssociationAcceptor.__init__'

        def ob(name, f):
            if isinstance(f, bool):
                f = z3.BoolVal(f)
            p.oblige('%s#%s' % (lab0, name), f, kind='ensures', assume_after=False)
        dulm = it.modules['pynetdicom2.dulprovider']
        made = []
        stub = ClassVal('DULServiceProviderStub', [it.builtins['object']], {
            '__init__': nego.method(lambda it2, a, kw: made.append((tuple(a[1:]), dict(kw))))}, 'harness')
        real = dulm.attrs['DULServiceProvider']
        dulm.attrs['DULServiceProvider'] = stub
        base = asc.attrs['AssociationAcceptor'].bases
        handler_inits = []
        ext0 = it.hooks.get('external_call')

        def external(it2, fn, args, kwargs):
            if fn.name.endswith('StreamRequestHandler.__init__'):
                handler_inits.append(tuple(args))
                return None
            return ext0(it2, fn, args, kwargs) if ext0 else Ellipsis
        it.hooks['external_call'] = external
        cfg = nego.install_cfg(it)
        ae = nego.new_ae(it, cfg)
        ae.fields['store_in_file'] = Opaque('ae.store_in_file')
        ae.fields['get_file'] = Opaque('ae.get_file')
        own = p.fresh_int('configured_max')
        objs = []
        try:
            for i in range(2):
                me = Obj(asc.attrs['AssociationAcceptor'])
                sock = Opaque('client socket %d' % i)
                it.call(asc.attrs['AssociationAcceptor'].lookup('__init__')[0], [me, sock, Opaque('address'), ae, own], {})
                objs.append((me, sock))
        except Raised as r:
            ob('noexc', False)
            p.outcome = 'normal'
            return
        finally:
            dulm.attrs['DULServiceProvider'] = real
            it.hooks['external_call'] = ext0
        for i, (me, sock) in enumerate(objs):
            f = me.fields
            for tname in ('accepted_contexts', 'sop_classes_as_scp'):
                t = f.get(tname)
                ob('empty-%s' % tname.replace('_', '-'), isinstance(t, DictVal) and not t.entries and t.base is None)
            ob('not-established-not-stopped', f.get('association_established') is False and f.get('is_killed') is False)
            ob('configured-maximum-length', f.get('max_pdu_length') is own)
            ob('serves-the-given-entity', f.get('ae') is ae)
            ok = len(made) == 2 and len(made[i][0]) + len(made[i][1]) >= 3
            ob('provider-on-the-client-socket', ok and made[i][0][0] is ae.fields['store_in_file'] and
               made[i][0][1] is ae.fields['get_file'] and made[i][0][2] is sock)
        a, b = objs[0][0].fields, objs[1][0].fields
        ob('tables-are-per-association', a.get('accepted_contexts') is not b.get('accepted_contexts') and
           a.get('sop_classes_as_scp') is not b.get('sop_classes_as_scp') and
           a.get('accepted_contexts') is not a.get('sop_classes_as_scp'))
        p.outcome = 'normal'
    for q in ('asceprovider.Association.__init__', 'asceprovider.AssociationAcceptor.__init__'):
        fv, _ = verify.lookup_function(it, q)
        infos.append(verify.function_info(it, fv))
    ctx.add_exploration('asceprovider.AssociationAcceptor.__init__', constructor_case, res,
                        target='asceprovider.AssociationAcceptor.__init__')

    # ------------------------------------------------------------------ the reply object keeps the order it is given
    # accept() builds the reply's item list in the proposed order (clauses above); the A-ASSOCIATE PDU object must
    # hold -- and so encode (C01/C02) -- its variable items exactly as given.  Checked on the real constructor for
    # both PDU classes with items whose context ids are NOT ascending (supplementary: the accept exploration
    # itself needs the constructor to be the identity on a symbolic list, anything else leaves its subset).
    def pdu_keeps_order(p):
        lab1 = 'pdu.AAssociatePDUBase.__init__'
        pm = it.modules['pynetdicom2.pdu']
        ud = it.modules['pynetdicom2.userdataitems']

        def ob(name, f):
            if isinstance(f, bool):
                f = z3.BoolVal(f)
            p.oblige('%s#%s' % (lab1, name), f, kind='ensures', assume_after=False)
        for cname in ('AAssociateRqPDU', 'AAssociateAcPDU'):
            app = it.instantiate(pm.attrs['ApplicationContextItem'], ['1.2.840.10008.3.1.1.1'], {})
            ts = it.instantiate(pm.attrs['TransferSyntaxSubItem'], ['1.2.840.10008.1.2'], {})
            pcs = [it.instantiate(pm.attrs['PresentationContextItemAC'], [cid, 0, ts], {}) for cid in (5, 1, 3)]
            user = it.instantiate(pm.attrs['UserInformationItem'],
                                  [ListVal([it.instantiate(ud.attrs['MaximumLengthSubItem'], [16384], {})])], {})
            given = [app] + pcs + [user]
            try:
                x = it.instantiate(pm.attrs[cname], [], {'called_ae_title': 'CALLED', 'calling_ae_title': 'CALLING',
                                                         'variable_items': ListVal(list(given))})
            except Raised as r:
                ob('noexc', False)
                continue
            got = it.getattr(x, 'variable_items')
            items = list(got.items) if isinstance(got, ListVal) else None
            ob('variable-items-kept-in-the-order-given[%s]' % cname, items is not None and len(items) == len(given) and
               all(a is b for a, b in zip(items, given)))
        p.outcome = 'normal'
    fv, _ = verify.lookup_function(it, 'pdu.AAssociatePDUBase.__init__')
    infos.append(verify.function_info(it, fv))
    ctx.add_exploration('pdu.AAssociatePDUBase.__init__', pdu_keeps_order, res, target='pdu.AAssociatePDUBase.__init__')

    # ------------------------------------------------------------------ dispatch
    lab2 = 'asceprovider.AssociationAcceptor._loop'

    def loop_case(p):
        cfg = nego.install_cfg(it)
        me = nego.new_acceptor(it, cfg, 16384)
        PCD = asc.attrs['PContextDef']
        has = z3.Function('in_scp_table', smt.Int, smt.Bool)
        sop_of = z3.Function('table_sop', smt.Int, smt.Str)
        ts_of = z3.Function('table_ts', smt.Int, smt.Str)
        table = DictVal()

        def base(it2, key):
            k = z3.IntVal(key) if isinstance(key, int) else key
            if it2.p.branch(has(k)):
                return True, (key, sop_of(k), ts_of(k))
            return False, None
        table.base = base
        me.fields['sop_classes_as_scp'] = table
        pc = p.fresh_int('pc_id')
        uid_ = p.fresh('affected_sop_class', smt.Str)
        msg = Obj(it.builtins['object'])
        msg.fields['sop_class_uid'] = uid_
        calls = []

        def service_call(it2, args, kw):
            calls.append(args)
            me.fields['is_killed'] = True      # one message, then the loop ends
        svc = nego.Builtin('service', service_call)

        def scp_base(it2, key):
            k = nego.name_term(it2, key)
            if it2.p.branch(cfg['served'](k)):
                return True, svc
            return False, None
        me.fields['ae'].fields['supported_scp'].base = scp_base

        def receive(it2, args, kw):
            return (msg, pc)
        me.cls = nego.ClassVal('AcceptorUnderTest', [asc.attrs['AssociationAcceptor']],
                               {'receive': nego.method(receive)}, 'harness')
        raised = None
        try:
            it.call(asc.attrs['AssociationAcceptor'].lookup('_loop')[0], [me], {})
        except Raised as r:
            raised = r.exc.cls.name

        def ob(name, f):
            if isinstance(f, bool):
                f = z3.BoolVal(f)
            p.oblige('%s#%s' % (lab2, name), f, kind='ensures', assume_after=False)
        should = z3.And(has(pc), cfg['served'](uid_))
        ob('served-iff-context-accepted', (should if calls else z3.Not(should)))
        ob('unaccepted-context-is-class-not-supported', bool(calls) or raised == 'ClassNotSupportedError')
        if calls:
            a = calls[0]
            c = a[1] if len(a) > 1 else None
            good = isinstance(c, NamedTupleVal) and c.cls is PCD
            ob('service-gets-the-negotiated-context', good)
            if good:
                ob('context-id', ops.values_equal(it, c.get('id'), pc))
                ob('context-abstract-syntax', ops.values_equal(it, c.get('sop_class'), sop_of(pc)))
                ob('context-transfer-syntax', ops.values_equal(it, c.get('supported_ts'), ts_of(pc)))
                ob('service-gets-the-message', a[2] is msg and a[0] is me)
        p.outcome = 'normal'
    ctx.add_exploration(lab2, loop_case, res, target=lab2)

    from .. import replay as _replay

    def _replayer(script):
        def fn(ctx2, ob, model):
            return _replay.run_native(script, {'obligation': ob.name}, timeout=300)
        return fn
    ctx.replayers['*'] = _replayer('nego.py')
    ctx.native_crosschecks.append(('nego.py', {'obligation': 'asceprovider.AssociationAcceptor.accept#'}, 'accept over a small exhaustive universe'))
    ctx.native_crosschecks.append(('nego.py', {'obligation': 'asceprovider.AssociationAcceptor._loop#'}, 'dispatch'))
    ctx.assumptions += [
        'the request lists its items in standard order: application context, presentation contexts, user '
        'information whose first sub-item is Maximum Length (accept() indexes them positionally)',
        'object state as left by the constructors: empty routing tables of the association\'s own, an obligation on '
        'Association.__init__ / AssociationAcceptor.__init__ (DULServiceProvider and the socketserver base are '
        'recording stubs there: sockets and the provider thread stay outside the verified subset)',
        'configuration: AE.supported_scp and AE.supported_ts are arbitrary sets, modelled as uninterpreted '
        'membership predicates over names',
        'induction over loop iterations: "each iteration appends exactly one answer for its context and writes '
        'the tables only at that id" implies "answers = proposals mapped in order; table keys = accepted ids" '
        '(for pairwise distinct proposed ids); this step is the standard loop induction and is not machine-checked',
        'loop frame: locations not named in a loop specification\'s havoc list are taken as unchanged by the loop '
        'only where an invariant pins them (max_pdu_length, the announced value, list and table marks)',
    ]
