"""C18 -- status codes are classified totally and consistently.

Functions under contract (statuses.py): add_status (refinement of a range update, loop
invariants), register_statuses + KNOWN_STATUSES (executed from the AST at module load with
add_status applied by contract), Status.__init__ (all 65536 codes symbolically x 24 commands
enumerated), Status.__int__.
"""
import z3
from ..values import Obj, ClassVal, ListVal, NamedTupleVal, PathEnd, ReturnSignal, Raised
from .. import verify
from ..verify import Alt, const
from ..contracts import spec_eval, as_formula, parse_stmts, snapshot
from ..pack import fresh_value
from ..calls import bind_args, make_frame
from .. import dicts
from ..smt import Str as smt_Str


def message_classes(it):
    dm = it.modules['pynetdicom2.dimsemessages']
    base = dm.attrs['DIMSEMessage']
    out = []
    for k, v in sorted(dm.attrs.items()):
        if isinstance(v, ClassVal) and v is not base and v.is_subclass(base):
            cf, _ = v.lookup('command_field')
            if isinstance(cf, int):
                out.append(v)
    return out


def run(ctx):
    it = ctx.build(by_contract=['statuses.add_status'])
    it.spec_prelude['ps34'] = it.load_module('spec.ps34_status')
    ctx.globals = verify.GlobalsSnapshot(it)
    st = it.modules['pynetdicom2.statuses']
    status_cls = st.attrs['Status']
    classes = message_classes(it)
    if len(classes) != 23:
        from ..runner import CheckerError
        raise CheckerError('expected 23 message classes with a command field, found %d' % len(classes))
    ctx.extra['commands_enumerated'] = ['None'] + [c.name for c in classes]
    ctx.extra['status_table_entries'] = {
        'general': len(st.attrs['_general_status_dict'].entries),
        'command_specific': len(st.attrs['_status_dict'].entries)}

    # ---- Status.__init__ : symbolic code, every command
    c = ctx.registry.contracts['statuses.Status.__init__']
    cmd_alts = [const('None', None)] + [const(k.name, k) for k in classes]
    c.args = [('self', [Alt('Status', lambda it, n: Obj(status_cls))]),
              ('value', ['int']),
              ('command', cmd_alts)]
    c.setup = ['_svc = ps34.service_class(None if command is None else command.command_field, value)']
    ctx.verify('statuses.Status.__init__')

    # ---- Status.__int__
    c = ctx.registry.contracts['statuses.Status.__int__']

    def mk_status(it, n):
        o = Obj(status_cls)
        o.fields['_value'] = it.p.fresh_int('value')
        return o
    c.args = [('self', [Alt('Status', mk_status)])]
    ctx.verify('statuses.Status.__int__')

    # ---- add_status refines its abstract range update
    verify_add_status(ctx, classes)

    # ---- replay of refutations against the real code, and the CPython cross-check
    def replayer(ctx, ob, model):
        import re
        from .. import replay
        m = re.search(r'\[Status,int,(\w+)\]', ob.name)
        cname = m.group(1) if m else 'None'
        value = None
        if model is not None:
            for d in model.decls():
                if d.name().startswith('value!'):
                    value = model[d].as_long()
        cases = [[value, cname]] if value is not None else []
        # bounded native search of the same shape if the model alone does not reproduce
        r = replay.run_native('c18.py', {'cases': cases})
        if not r.get('reproduced'):
            r2 = replay.run_native('c18.py', {'cases': [[v, cname] for v in range(0, 65536, 1)]}, timeout=300)
            r2['note'] = 'model input did not reproduce; exhaustive native search over the 65536 codes of this command'
            return r2
        return r
    ctx.replayers['statuses.Status.__init__*'] = replayer
    ctx.replayers['statuses.Status.__int__*'] = replayer

    def replay_add_status(ctx, ob, model):
        from .. import replay
        return replay.run_native('c18.py', {'add_status': True})
    ctx.replayers['statuses.add_status*'] = replay_add_status

    if ctx.tier == 'thorough':
        from .. import replay
        r = replay.run_native('c18.py', {'exhaustive': True}, timeout=900)
        ok = not r.get('reproduced') and 'error' not in r
        ctx.bounded.append({'what': 'CPython cross-check of the Status contract (engine soundness guard)',
                            'bound': 'all 65536 codes x 24 commands, native', 'exhaustive': True,
                            'evaluations': r.get('evaluations', 0), 'failures': r.get('failures', [])[:5],
                            'ok': ok})
        ctx.extra['native_cross_check'] = r if not ok else {'evaluations': r.get('evaluations')}
        ctx.native_failures = r.get('failures', [])

    ctx.assumptions += [
        'dict model: ordered update chain, lookup = last matching binding (pyvc/dicts.py)',
        'namedtuple `s`: field access and structural equality',
        'status codes are Python ints in 0..65535 (the quantifier of C18)',
        'service classification oracle: /verif/spec/ps34_status.py (transcription of PS3.7 Annex C, PS3.4 B.2.3/C.4.x)',
    ]
    ctx.trusted_base += ['spec/ps34_status.py transcription of the standard status tables']


def verify_add_status(ctx, classes):
    """Refinement: real body vs. abstract body from the same symbolic pre-state, compared
    extensionally at a fresh key (forall-introduction)."""
    it = ctx.it
    c = ctx.registry.contracts['statuses.add_status']
    fv, _ = verify.lookup_function(it, 'statuses.add_status')
    res = verify.FunctionResult('statuses.add_status')
    res.info = verify.function_info(it, fv)
    st = it.modules['pynetdicom2.statuses']
    cases = []
    some_cmd = classes[0]
    for end_kind in ('none', 'int'):
        for cmd_kind in ('none', 'class'):
            cases.append((end_kind, cmd_kind))
    saved = it.mode.target
    it.mode.target = 'statuses.add_status'
    try:
        for end_kind, cmd_kind in cases:
            label = 'statuses.add_status[end=%s,command=%s]' % (end_kind, cmd_kind)

            def run(p, end_kind=end_kind, cmd_kind=cmd_kind, label=label):
                ctx.globals.restore()
                # symbolic pre-state: arbitrary dictionaries (uninterpreted background)
                for dname in ('_general_status_dict', '_status_dict'):
                    d = st.attrs[dname]
                    d.entries = []
                    d.cindex = None
                    d.base = make_base(it, dname)
                code = p.fresh_int('code')
                end = None if end_kind == 'none' else p.fresh_int('end')
                if cmd_kind == 'none':
                    command = None
                else:
                    command = Obj(some_cmd)   # any object with a command_field
                    command.fields['command_field'] = p.fresh_int('command_field')
                args = dict(code=code, code_type=p.fresh('code_type', smt_Str),
                            description=p.fresh('description', smt_Str),
                            end=end, command=command)
                k1 = p.fresh_int('probe')
                k2 = (p.fresh_int('probe_cf'), p.fresh_int('probe_code'))
                old = {n: snapshot(st.attrs[n]) for n in ('_general_status_dict', '_status_dict')}
                # --- real body
                bound = bind_args(it, fv, [], dict(args))
                fr = make_frame(it, fv, bound)
                fr.locals['_old__general_status_dict'] = snapshot(old['_general_status_dict'])
                fr.locals['_old__status_dict'] = snapshot(old['_status_dict'])
                fr.locals['_probe_key'] = k1 if cmd_kind == 'none' else k2
                try:
                    it.exec_block(fv.node.body, fr)
                except ReturnSignal:
                    pass
                real = {n: snapshot(st.attrs[n]) for n in old}
                p.outcome = 'normal'
                # --- abstract body from the same pre-state
                for n in old:
                    st.attrs[n] = snapshot(old[n])
                afr = make_frame(it, fv, dict(bound))
                it.spec_mode = True
                try:
                    it.exec_block(parse_stmts(c.abstract), afr)
                finally:
                    it.spec_mode = False
                for n, key in (('_general_status_dict', k1), ('_status_dict', k2)):
                    f1, v1 = dicts.lookup(it, real[n], key)
                    f2, v2 = dicts.lookup(it, st.attrs[n], key)
                    if f1 != f2:
                        goal = z3.BoolVal(False)
                    elif not f1:
                        goal = z3.BoolVal(True)
                    else:
                        goal = as_formula(it, it.values_equal(v1, v2))
                    p.oblige('%s#refines:%s' % (label, n), goal, kind='refinement')
            ctx.add_exploration(label, run, res, target='statuses.add_status')
    finally:
        it.mode.target = saved


_bases = {}


def make_base(it, dname):
    """uninterpreted background of a dictionary: has(key) / get(key) as functions of the key"""
    from .. import smt
    Str = smt.Str
    if dname == '_general_status_dict':
        has = z3.Function('has_' + dname, smt.Int, smt.Bool)
        ct = z3.Function('ct_' + dname, smt.Int, Str)
        ds = z3.Function('ds_' + dname, smt.Int, Str)
    else:
        has = z3.Function('has_' + dname, smt.Int, smt.Int, smt.Bool)
        ct = z3.Function('ct_' + dname, smt.Int, smt.Int, Str)
        ds = z3.Function('ds_' + dname, smt.Int, smt.Int, Str)
    scls = it.modules['pynetdicom2.statuses'].attrs['s']

    def base(it, key):
        from ..values import int_term, is_intlike
        if dname == '_general_status_dict':
            if not is_intlike(key):
                return False, None
            args = [int_term(key)]
        else:
            if not (isinstance(key, tuple) and len(key) == 2 and all(is_intlike(x) for x in key)):
                return False, None
            args = [int_term(key[0]), int_term(key[1])]
        if it.p.branch(has(*args)):
            return True, NamedTupleVal(scls, (ct(*args), ds(*args)))
        return False, None
    return base


def after_discharge(ctx):
    fails = getattr(ctx, 'native_failures', None)
    if fails:
        refuted = [o for o in ctx.obligations if o.verdict == 'refuted']
        if not refuted:
            ctx.audits.append(('native-cross-check', False,
                               'contract proved but fails natively (engine/model unsound): %r' % (fails[:3],)))
