"""C18 -- status codes are classified totally and consistently.

Functions under contract (statuses.py): Status.__init__ (all 65536 codes symbolically x the 11
response classes and no class, enumerated), Status.__int__.  add_status / register_statuses /
KNOWN_STATUSES are *executed* from the AST when the module is loaded (the two dictionary-fill
loops of add_status through the engine's range-fill loop rule, audited against CPython on every
run), so the module state Status.__init__ is checked in is the one the real code builds.
"""
import z3
from ..values import Obj, ClassVal, ListVal, NamedTupleVal, PathEnd, ReturnSignal, Raised, DictVal
from .. import verify
from ..verify import Alt, const


def message_classes(it):
    dm = it.modules['pynetdicom2.dimsemessages']
    base = dm.attrs['DIMSEMessage']
    out = []
    for k, v in sorted(dm.attrs.items()):
        if isinstance(v, ClassVal) and v is not base and v.is_subclass(base):
            cf, _ = v.lookup('command_field')
            if isinstance(cf, int):
                out.append(v)
    return out


def run(ctx):
    it = ctx.build()
    it.spec_prelude['ps34'] = it.load_module('spec.ps34_status')
    ctx.globals = verify.GlobalsSnapshot(it)
    st = it.modules['pynetdicom2.statuses']
    status_cls = st.attrs['Status']
    classes = message_classes(it)
    if len(classes) != 23:
        from ..runner import CheckerError
        raise CheckerError('expected 23 message classes with a command field, found %d' % len(classes))
    # the property quantifies over the DIMSE *response* types (command field with bit 15 set) and
    # "no class"; request classes are not in its domain
    classes = [k for k in classes if k.lookup('command_field')[0] & 0x8000]
    if len(classes) != 11:
        from ..runner import CheckerError
        raise CheckerError('expected 11 response message classes, found %d' % len(classes))
    ctx.extra['commands_enumerated'] = ['None'] + [c.name for c in classes]
    ctx.extra['status_table_entries'] = {
        'general': len(st.attrs['_general_status_dict'].entries),
        'command_specific': len(st.attrs['_status_dict'].entries)}

    # ---- Status.__init__ : symbolic code, every command
    c = ctx.registry.contracts['statuses.Status.__init__']
    cmd_alts = [const('None', None)] + [const(k.name, k) for k in classes]
    c.args = [('self', [Alt('Status', lambda it, n: Obj(status_cls))]),
              ('value', ['int']),
              ('command', cmd_alts)]
    c.setup = ['_svc = ps34.service_class(None if command is None else command.command_field, value)']
    ctx.verify('statuses.Status.__init__')

    # ---- Status.__int__
    c = ctx.registry.contracts['statuses.Status.__int__']

    def mk_status(it, n):
        o = Obj(status_cls)
        o.fields['_value'] = it.p.fresh_int('value')
        return o
    c.args = [('self', [Alt('Status', mk_status)])]
    ctx.verify('statuses.Status.__int__')

    # ---- add_status / register_statuses: executed from the AST at module load (loop rule
    # "dictionary fill over a range"); the rule is audited differentially against CPython
    from .. import replay as _replay
    r = _replay.run_native('c18.py', {'add_status': True})
    ok, detail = audit_add_status(ctx, it, r)
    ctx.audits.append(('dictionary-fill loop rule: interpreter vs CPython on add_status', ok, detail))
    ctx.bounded.append({'what': 'differential audit of the dictionary-fill loop rule: the real add_status run by the '
                                'interpreter and by CPython on the same inputs, dictionaries compared key by key',
                        'bound': r.get('bound'), 'evaluations': r.get('evaluations', 0), 'ok': ok})

    # ---- replay of refutations against the real code, and the CPython cross-check
    def replayer(ctx, ob, model):
        import re
        from .. import replay
        m = re.search(r'\[Status,int,(\w+)\]', ob.name)
        cname = m.group(1) if m else 'None'
        value = None
        if model is not None:
            for d in model.decls():
                if d.name().startswith('value!'):
                    value = model[d].as_long()
        cases = [[value, cname]] if value is not None else []
        r = replay.run_native('c18.py', {'cases': cases})
        if not r.get('reproduced'):
            # bounded native search of the same shape if the model alone does not reproduce
            r2 = replay.run_native('c18.py', {'cases': [[v, cname] for v in range(0, 65536, 1)]}, timeout=300)
            r2['note'] = 'model input did not reproduce; exhaustive native search over the 65536 codes of this command'
            return r2
        return r
    ctx.replayers['statuses.Status.__init__*'] = replayer
    ctx.replayers['statuses.Status.__int__*'] = replayer

    if ctx.tier == 'thorough':
        from .. import replay
        r = replay.run_native('c18.py', {'exhaustive': True}, timeout=900)
        ok = not r.get('reproduced') and 'error' not in r
        ctx.bounded.append({'what': 'CPython cross-check of the Status contract (engine soundness guard)',
                            'bound': 'all 65536 codes x 12 commands, native', 'exhaustive': True,
                            'evaluations': r.get('evaluations', 0), 'failures': r.get('failures', [])[:5],
                            'ok': ok})
        ctx.extra['native_cross_check'] = r if not ok else {'evaluations': r.get('evaluations')}
        ctx.native_failures = r.get('failures', [])

    ctx.assumptions += [
        'dict model: ordered update chain, lookup = last matching binding (pyvc/dicts.py)',
        'loop rule: `for i in range(lo, hi): D[(.., i)] = v` binds exactly the keys of the range (pyvc/interp.py, '
        'audited against CPython on every run)',
        'namedtuple `s`: field access and structural equality',
        'status codes are Python ints in 0..65535 (the quantifier of C18)',
        'service classification oracle: /verif/spec/ps34_status.py (transcription of PS3.7 Annex C, PS3.4 B.2.3/C.4.x)',
    ]
    ctx.trusted_base += ['spec/ps34_status.py transcription of the standard status tables']


def audit_add_status(ctx, it, native):
    """Run the real add_status in the interpreter (concrete inputs, range-fill rule active) on the
    grid the native harness used and compare both dictionaries key by key."""
    if 'error' in native or 'observations' not in native:
        return False, 'native harness failed: %r' % (str(native)[:300],)
    st = it.modules['pynetdicom2.statuses']
    dm = it.modules['pynetdicom2.dimsemessages']
    fv = st.attrs['add_status']
    cmd = dm.attrs['CEchoRSPMessage']
    cf = cmd.lookup('command_field')[0]
    p = it.new_path([], 'audit')
    it.p = p
    mismatches = []
    try:
        cache = {}
        for code, end, cname, key, exp_g, exp_s in native['observations']:
            ck = (code, end, cname)
            if ck not in cache:
                ctx.globals.restore()
                it.call(fv, [code, 'Warning', 'probe', end, cmd if cname else None], {})
                cache[ck] = (st.attrs['_general_status_dict'], st.attrs['_status_dict'])
                st.attrs['_general_status_dict'] = cache[ck][0]
            g, s_ = cache[ck]
            got_g = it.dict_get(g, key, None)
            got_s = it.dict_get(s_, (cf, key), None)
            for got, exp, which in ((got_g, exp_g, 'general'), (got_s, exp_s, 'command')):
                gv = list(got.values) if got is not None else None
                if gv != exp:
                    mismatches.append((ck, key, which, gv, exp))
    finally:
        it.p = None
        ctx.globals.restore()
    if mismatches:
        return False, 'interpreter and CPython disagree: %r' % (mismatches[:3],)
    return True, '%d dictionary observations agree' % len(native['observations'])


def after_discharge(ctx):
    fails = getattr(ctx, 'native_failures', None)
    if fails:
        refuted = [o for o in ctx.obligations if o.verdict == 'refuted']
        if not refuted:
            ctx.audits.append(('native-cross-check', False,
                               'contract proved but fails natively (engine/model unsound): %r' % (fails[:3],)))
