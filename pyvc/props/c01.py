"""C01 -- PDU encode/decode round trip for every PDU, item and sub-item.

Obligations never mention the standard: for every class K and every valid value v (fields
symbolic, lists of any length through loop invariants), the real decoder run on the bytes the
real encoder produces (followed by arbitrary further bytes) returns v and stops exactly at the
end of v's encoding; total_length / item_length equal the number of bytes encoded.
"""
from ..values import Obj, ClassVal
from .. import verify, folds
from ..verify import Alt, const
from ..contracts import Contract


LENGTH_MEMBERS = ('total_length', 'item_length', 'pdu_length')


def setup_codec(ctx, it):
    """bind the layouts/validity spec module and declare result types of spec element functions"""
    L = it.load_module('spec.ps38_layouts')
    it.spec_prelude['L'] = L
    types = it.hooks.setdefault('spec_fn_types', {})
    for name in L.attrs:
        if name.startswith('wire_'):
            types['ps38_layouts.' + name] = 'bytes'
        if name.startswith('valid_'):
            types['ps38_layouts.' + name] = 'bool'
    install_fold_lemmas(it)
    install_call_contracts(it)
    return L


def match_head(it, term, ef):
    """term == f(elem) ++ rest for the element function symbol f, following the path's recorded
    defining equations without unfolding f(elem) itself: (elem, rest parts) or None"""
    import z3
    from .. import smt
    f = ef.sym(it)
    rest = []
    t = z3.simplify(term)
    for _ in range(40):
        if z3.is_app(t) and t.decl().eq(f):
            return t.arg(0), rest
        if z3.is_app(t) and t.decl().kind() == z3.Z3_OP_SEQ_CONCAT:
            kids = [t.arg(i) for i in range(t.num_args())]
            rest = kids[1:] + rest
            t = kids[0]
            continue
        d = it.p.defs.get(t.get_id())
        if d is None:
            return None
        t = z3.simplify(d)
    return None


def install_call_contracts(it):
    """Modular use of the item decoders that contain loops: inside the PDU-level decode loop
    UserInformationItem.decode and PresentationContextItemRQ.decode are applied through their
    round-trip contract (proved separately), with the ghost arguments (v, rest) matched against
    the stream content  VarItem.encode(y) ++ rest."""
    from ..values import Packed, bytes_term
    from ..pack import unpack
    from .. import smt
    T = contracts_table()
    cc = it.hooks.setdefault('call_contracts', {})
    for key in ('pdu.UserInformationItem', 'pdu.PresentationContextItemRQ'):
        base = T[key]['decode']
        cls = class_of(it, key)

        def binder(it, bound, cls=cls):
            st = bound.get('stream')
            ef = folds.member_fn(it, 'VarItem', 'encode')
            m = match_head(it, bytes_term(st.rem), ef)
            if m is None:
                return None
            elem, rest = m
            obj = unpack(it, Packed(elem, 'VarItem'))
            if obj.cls is not cls:
                return None
            return {'v': obj, 'rest': smt.concat(rest) if rest else b'', '_consumed': ef.sym(it)(elem)}
        c = Contract(key + '.decode')
        c.requires = list(base.requires)
        c.ghost_binder = binder
        c.result_expr = 'v'
        c.post_effects = ['advance_stream(stream, _consumed, rest)']
        cc[key + '.decode'] = c
        it.mode.by_contract.add(key + '.decode')


def install_fold_lemmas(it):
    """engine-applied inductive facts; their pointwise premises are obligations (see premises())"""
    def m(desc, name):
        return lambda it: folds.member_fn(it, desc, name)

    def s(desc, fname, rdesc):
        def r(it):
            L = it.spec_prelude['L']
            return folds.spec_fn(it, desc, L.attrs[fname], rdesc)
        return r
    lemmas = [
        folds.FoldLemma('len_of_join', 'SubItem', [m('SubItem', 'encode'), m('SubItem', 'total_length')],
                        valid=s('SubItem', 'valid_sub_item', 'bool'), label='len_of_join(SubItem)'),
        folds.FoldLemma('len_of_join', 'pdu.TransferSyntaxSubItem',
                        [m('pdu.TransferSyntaxSubItem', 'encode'), m('pdu.TransferSyntaxSubItem', 'total_length')],
                        valid=s('pdu.TransferSyntaxSubItem', 'valid_transfer_syntax', 'bool'),
                        label='len_of_join(TransferSyntax)'),
        folds.FoldLemma('len_of_join', 'VarItem', [m('VarItem', 'encode'), m('VarItem', 'total_length')],
                        valid=s('VarItem', 'valid_var_item', 'bool'), label='len_of_join(VarItem)'),
        folds.FoldLemma('len_of_join', 'pdu.PresentationDataValueItem',
                        [m('pdu.PresentationDataValueItem', 'encode'),
                         m('pdu.PresentationDataValueItem', 'total_length')],
                        valid=s('pdu.PresentationDataValueItem', 'valid_pdv', 'bool'), label='len_of_join(PDV)'),
        folds.FoldLemma('sum_nonneg', 'SubItem', [m('SubItem', 'total_length')],
                        valid=s('SubItem', 'valid_sub_item', 'bool'), label='sum_nonneg(SubItem)'),
        folds.FoldLemma('sum_nonneg', 'pdu.TransferSyntaxSubItem', [m('pdu.TransferSyntaxSubItem', 'total_length')],
                        valid=s('pdu.TransferSyntaxSubItem', 'valid_transfer_syntax', 'bool'),
                        label='sum_nonneg(TransferSyntax)'),
        folds.FoldLemma('sum_nonneg', 'VarItem', [m('VarItem', 'total_length')],
                        valid=s('VarItem', 'valid_var_item', 'bool'), label='sum_nonneg(VarItem)'),
        folds.FoldLemma('sum_nonneg', 'pdu.PresentationDataValueItem',
                        [m('pdu.PresentationDataValueItem', 'total_length')],
                        valid=s('pdu.PresentationDataValueItem', 'valid_pdv', 'bool'), label='sum_nonneg(PDV)'),
    ]
    it.hooks['_fold_lemmas'] = lemmas
    return lemmas


def std_lemmas(it):
    """C02 only: pointwise  encode(x) == wire(x)  lifts to JOINs (premise = per-class encode#std)"""
    def m(desc, name):
        return lambda it: folds.member_fn(it, desc, name)

    def s(desc, fname, rdesc):
        def r(it):
            L = it.spec_prelude['L']
            return folds.spec_fn(it, desc, L.attrs[fname], rdesc)
        return r
    out = []
    for desc, wire, valid, lab in (('SubItem', 'wire_sub_item', 'valid_sub_item', 'SubItem'),
                                   ('pdu.TransferSyntaxSubItem', 'wire_transfer_syntax', 'valid_transfer_syntax',
                                    'TransferSyntax'),
                                   ('VarItem', 'wire_var_item', 'valid_var_item', 'VarItem'),
                                   ('pdu.PresentationDataValueItem', 'wire_pdv', 'valid_pdv', 'PDV')):
        out.append(folds.FoldLemma('join_ext', desc, [m(desc, 'encode'), s(desc, wire, 'bytes')],
                                   valid=s(desc, valid, 'bool'), label='join_ext(%s)' % lab))
    return out


def lemma_premises(ctx, it, lemmas):
    """Pointwise premises of the fold lemmas as obligations: one exploration per lemma with a
    fresh symbolic element (case split over the family's constructors)."""
    import z3
    res = verify.FunctionResult('lemma:')
    for lem in lemmas:
        label = 'lemma:%s' % lem.label

        def run(p, lem=lem, label=label):
            x = p.fresh('x', it.types.sort_of(lem.desc))
            hyp, goal = lem.premise(it, x)
            p.assume(hyp)
            p.oblige('%s#premise' % label, goal, kind='lemma')
            p.outcome = 'normal'
        ctx.add_exploration(label, run, res)
    return res


def class_of(it, key):
    modname, cname = key.split('.')
    return it.modules['pynetdicom2.' + modname].attrs[cname]


def length_contracts(it, key, owner_key=None):
    """K.total_length / item_length / pdu_length == byte counts of the real encoding"""
    out = []
    cls = class_of(it, key)
    for member in LENGTH_MEMBERS:
        a, owner = cls.lookup(member)
        if owner is None or isinstance(a, int):
            continue
        c = Contract('%s.%s.%s' % (key.split('.')[0], owner.name, member))
        if getattr(a, 'kind', None) == 'staticmethod':
            c.args = []
            c.ghost('self', key)
        else:
            c.args = [('self', [key])]
        valid = contracts_table()[key]['valid']
        c.require(valid.replace('(v)', '(self)') if '(' in valid else '%s(self)' % valid, 'valid')
        c.setup = ['_enc = self.encode()']     # values the encoder rejects are outside the domain
        c.setup_defines_domain = True
        if member == 'total_length':
            c.ensure('result == len(_enc)', 'len')
        elif member == 'item_length':
            c.ensure('result + 4 == len(_enc)', 'len')
        else:
            c.ensure('result + 6 == len(_enc)', 'len')
        out.append(c)
    return out


def contracts_table():
    from contracts import pdu_c
    return pdu_c.CODEC


def run_codec(ctx, it, keys, with_std=False):
    T = contracts_table()
    for key in keys:
        ent = T[key]
        cls = class_of(it, key)
        d = ent['decode']
        is_pdu = 'owner' in ent
        if is_pdu:
            param = 'raw_bytes' if ent['owner'] == 'pdu.AAssociatePDUBase' else 'rawstring'
            d.args = [('cls', [const(cls.name, cls)]), (param, [const('-', None)])]
        else:
            d.args = [('cls', [const(cls.name, cls)]), ('stream', [const('-', None)])]
        ctx.verify(d, tag=key.split('.')[-1] if is_pdu else None)
        for c in length_contracts(it, key):
            ctx.verify(c, tag=key.split('.')[-1] if is_pdu else None)
        if with_std:
            e = ent['encode']
            e.args = [('self', [key])]
            ctx.verify(e, tag=key.split('.')[-1] if is_pdu else None)


LEAF = ['userdataitems.MaximumLengthSubItem', 'userdataitems.ImplementationClassUIDSubItem',
        'userdataitems.ImplementationVersionNameSubItem', 'userdataitems.AsynchronousOperationsWindowSubItem',
        'userdataitems.ScpScuRoleSelectionSubItem', 'userdataitems.SOPClassExtendedNegotiationSubItem',
        'userdataitems.UserIdentityNegotiationSubItem', 'userdataitems.UserIdentityNegotiationSubItemAc',
        'userdataitems.GenericUserDataSubItem', 'pdu.AbstractSyntaxSubItem', 'pdu.TransferSyntaxSubItem',
        'pdu.ApplicationContextItem', 'pdu.PresentationContextItemAC', 'pdu.PresentationDataValueItem',
        'pdu.AAssociateRjPDU', 'pdu.AReleaseRqPDU', 'pdu.AReleaseRpPDU', 'pdu.AAbortPDU']
COMPOSITE = ['pdu.PresentationContextItemRQ', 'pdu.UserInformationItem', 'pdu.PDataTfPDU',
             'pdu.AAssociateRqPDU', 'pdu.AAssociateAcPDU']


def class_for_obligation(name):
    """which class's native bounded search replays an obligation"""
    import re
    m = re.search(r'\{(\w+PDU)\}', name)
    if m:
        return 'pdu.' + m.group(1)
    for pat, key in (('AAssociatePDUBase', 'pdu.AAssociateRqPDU'), ('PDataTfPDU', 'pdu.PDataTfPDU'),
                     ('PresentationContextItemRQ', 'pdu.PresentationContextItemRQ'),
                     ('UserInformationItem', 'pdu.UserInformationItem'),
                     ('(SubItem)', 'pdu.UserInformationItem'), ('(TransferSyntax)', 'pdu.PresentationContextItemRQ'),
                     ('(VarItem)', 'pdu.AAssociateRqPDU'), ('(PDV)', 'pdu.PDataTfPDU'),
                     ('AReleasePDUBase', 'pdu.AReleaseRqPDU')):
        if pat in name:
            return key
    m = re.match(r'(pdu|userdataitems)\.(\w+)\.', name)
    if m:
        return '%s.%s' % (m.group(1), m.group(2))
    return None


def install_replayer(ctx, std):
    from .. import runner, replay

    def replayer(ctx2, ob, model):
        key = class_for_obligation(ob.name)
        if key is None:
            return None
        T = runner.TYPES
        req = {'key': key, 'records': {k: [list(f) for f in r.fields] for k, r in T.records.items()},
               'families': {k: f.members for k, f in T.families.items()}, 'std': std, 'seed': ctx2.seed,
               'limit': 600}
        r = replay.run_native('codec.py', req, timeout=300)
        r['searched_class'] = key
        r['note'] = 'bounded native search over structured values of the class (solver models of uninterpreted ' \
                    'text/sequence sorts are not turned into inputs directly)'
        return r
    ctx.replayers['*'] = replayer


def run(ctx):
    it = ctx.build()
    setup_codec(ctx, it)
    install_replayer(ctx, std=False)
    import os
    keys = LEAF + COMPOSITE
    only = os.environ.get('PYVC_ONLY')
    if only:
        keys = [k for k in keys if only in k]
    run_codec(ctx, it, keys, with_std=False)
    if not only:
        lemma_premises(ctx, it, it.hooks['_fold_lemmas'])
    ctx.assumptions += [
        'struct pack/unpack: be_n/unbe_n uninterpreted with the two inverse lemmas instantiated on ground terms',
        'str.encode/bytes.decode: uninterpreted enc/dec with ASCII lemmas; pydicom.uid.UID is the identity on str',
        'text fields ASCII, AE titles without NUL/space at the ends (quantifier of C01)',
        'object equality is structural over the fields assigned in __init__',
        'structural induction over sequences (fold lemmas, loop invariants) is applied by the engine',
    ]
