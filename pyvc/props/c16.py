"""C16 -- C-FIND returns exactly the matches the SCP produced, in order, then stops.

Provider (qr_find_scp, modality_work_list_scp): loop body verified for an arbitrary match
(d_i, s_i) of an arbitrary finite sequence supplied by the application: exactly one response,
with status int(s_i) and data set encode(d_i), on the request's context; on the loop-exit path
exactly one final response (Success, no data set).  Ownership: send() only queues a lazy encoder,
so every store to a message that may already have been handed to send() is an obligation
(`#owned`).  User (qr_find_scu, modality_work_list_scu): receive loop verified for an arbitrary
response: exactly one (data set or None, Status(status)) pair is yielded per response, iteration
continues only after a pending status and ends at the first non-pending one.
"""
import z3
from ..values import (Obj, ListVal, Raised, Opaque, SeqVal, NamedTupleVal, Builtin)
from .. import verify, smt, ops
from ..services import Harness, sends
from .c17 import fresh16, ext_calls


def run(ctx):
    it = ctx.build(by_contract=['dsutils.decode', 'dsutils.encode', 'dsutils.encode_element'])
    sc = it.modules['pynetdicom2.sopclass']
    dm = it.modules['pynetdicom2.dimsemessages']
    st = it.modules['pynetdicom2.statuses']
    status_cls = st.attrs['Status']
    res = verify.FunctionResult('sopclass.')
    infos = []
    for q in ('sopclass.qr_find_scp', 'sopclass.qr_find_scu', 'sopclass.modality_work_list_scp',
              'sopclass.modality_work_list_scu'):
        fv, _ = verify.lookup_function(it, q)
        infos.append(verify.function_info(it, fv))
    ctx.extra['functions'] = infos

    def new_harness():
        h = Harness(it)
        it.hooks['harness'] = h
        it.hooks['external_call'] = ext_calls(h)
        h.install_ownership_monitor()
        return h

    # ------------------------------------------------------------------ provider
    def scp(p, fn, label):
        h = new_harness()
        asce, c = h.new_asce(), h.new_ctx()
        req = h.new_message(dm.attrs['CFindRQMessage'], message_id=fresh16(it, 'message_id'),
                            sop_class_uid=p.fresh('sop_class_uid', smt.Str))
        req.fields['_data_set'] = p.fresh_bytes('identifier')
        matches = SeqVal(p.fresh('matches', it.types.sort_of('Seq[Tup[int,int]]')), 'Tup[int,int]')
        seen = {}

        def on_find(it2, h2, a):
            seen['query'] = a[1]
            return matches
        h.app['on_receive_find'] = on_find
        try:
            it.call(sc.attrs[fn], [asce, c, req], {})
        except Raised as r:
            p.oblige('%s#noexc' % label, z3.BoolVal(False), kind='noexc', meta={'exception': r.exc.cls.name},
                     assume_after=False)
            p.outcome = 'normal'
            return
        # loop-exit path: what was sent outside the loop iterations
        sent = sends(p, 'asce')
        p.oblige('%s#one-final' % label, z3.BoolVal(len(sent) == 1), kind='ensures',
                 meta={'sent_outside_loop': len(sent)}, assume_after=False)
        if sent:
            f = sent[-1][2]
            p.oblige('%s#final-success' % label, ops.values_equal(it, it.getattr(f, 'status'), 0), kind='ensures',
                     assume_after=False)
            ds = it.getattr(f, 'data_set')
            p.oblige('%s#final-no-dataset' % label, z3.BoolVal(ds is None or ds == b''), kind='ensures',
                     assume_after=False)
            flag = it.getattr(it.getattr(f, 'command_set'), 'CommandDataSetType')
            p.oblige('%s#final-flag' % label, ops.values_equal(it, flag, 0x0101), kind='ensures', assume_after=False)
            p.oblige('%s#final-context' % label, ops.values_equal(it, sent[-1][3], c.get('id')), kind='ensures',
                     assume_after=False)
        q = seen.get('query')
        p.oblige('%s#query-decoded-from-request' % label, z3.BoolVal(isinstance(q, Obj) and q.cls is h.DecodedDataset),
                 kind='ensures', assume_after=False)
        p.outcome = 'normal'
    for fn in ('qr_find_scp', 'modality_work_list_scp'):
        lab = 'sopclass.%s' % fn
        ctx.add_exploration(lab, lambda p, fn=fn, lab=lab: scp(p, fn, lab), res, target=lab)

    # ------------------------------------------------------------------ user
    def scu(p, fn, label):
        h = new_harness()
        asce, c = h.new_asce(), h.new_ctx()

        def receive(it2, h2, a):
            m = h2.new_message(dm.attrs['CFindRSPMessage'], status=fresh16(it2, 'rsp_status'),
                               message_id_being_responded_to=fresh16(it2, 'mid'))
            if it2.p.branch(it2.p.fresh('has_data', smt.Bool)):
                d = it2.p.fresh_bytes('match')
                it2.p.assume(z3.Length(d) > 0)
                m.fields['_data_set'] = d
            it2.p.ghost['current_response'] = m
            it2.p.trace.append(('receive', m))
            return (m, it2.p.fresh_int('pc'))
        h.app['receive'] = receive

        def consumer(v):
            cur = p.ghost.get('current_response')
            p.trace.append(('yield', v))

            def ob(name, goal):
                if isinstance(goal, bool):
                    goal = z3.BoolVal(goal)
                p.oblige('%s#yield:%s' % (label, name), goal, kind='yield', assume_after=False)
            ok = isinstance(v, tuple) and len(v) == 2 and cur is not None
            ob('pair', ok)
            if not ok:
                return
            data, status = v
            has = cur.fields.get('_data_set') is not None
            ob('data', (isinstance(data, Obj) and data.cls is h.DecodedDataset) if has else data is None)
            ob('status-object', isinstance(status, Obj) and status.cls is status_cls)
            if isinstance(status, Obj) and status.cls is status_cls:
                ob('status-code', ops.values_equal(it, status.fields.get('_value'), it.getattr(cur, 'status')))
        gen = it.call(sc.attrs[fn], [asce, c, Opaque('query'), fresh16(it, 'msg_id')], {})
        try:
            it.run_generator(gen, consumer)
        except Raised as r:
            p.oblige('%s#noexc' % label, z3.BoolVal(False), kind='noexc', meta={'exception': r.exc.cls.name},
                     assume_after=False)
            p.outcome = 'normal'
            return
        # exit path: the iteration ended -- the last response must be non-pending and have been yielded once
        recs = [i for i, e in enumerate(p.trace) if e[0] == 'receive']
        if recs:
            after = [e for e in p.trace[recs[-1]:] if e[0] == 'yield']
            p.oblige('%s#final-yielded-once' % label, z3.BoolVal(len(after) == 1), kind='ensures', assume_after=False)
            last = p.trace[recs[-1]][1]
            stv = it.getattr(last, 'status')
            p.oblige('%s#stops-at-non-pending' % label, z3.And(stv != 0xFF00, stv != 0xFF01), kind='ensures',
                     assume_after=False)
        rq = [e for e in sends(p, 'asce')]
        p.oblige('%s#one-request' % label, z3.BoolVal(len(rq) == 1), kind='ensures', assume_after=False)
        p.outcome = 'normal'
    for fn in ('qr_find_scu', 'modality_work_list_scu'):
        lab = 'sopclass.%s' % fn
        ctx.add_exploration(lab, lambda p, fn=fn, lab=lab: scu(p, fn, lab), res, target=lab)

    # ------------------------------------------------------------------ the one-call wrapper c_find
    # ClientAE (sockets, provider thread) is replaced by a recording stub for the duration of the call: the
    # wrapper must configure the C-FIND user service, open one association to the remote entity, look the
    # service up for the requested root, call it with the query, re-yield every result once and unchanged (loop
    # specification in contracts/storagefile_c.py) and leave the association normally (= release, C14).
    def wrapper(p):
        from . import nego
        from ..values import ClassVal, SeqVal
        label = 'pynetdicom2.c_find'
        top = it.modules['pynetdicom2']
        aem = it.modules['pynetdicom2.applicationentity']
        log = []
        results = SeqVal(p.fresh('results', it.types.sort_of('Seq[Tup[int,int]]')), 'Tup[int,int]')
        obj = it.builtins['object']

        def srv(it2, a, kw):
            log.append(('service-called', tuple(a)))
            return results
        service = nego.Builtin('bound C-FIND service', srv)
        asce_cls = ClassVal('AssociationStub', [obj], {
            'get_scu': nego.method(lambda it2, a, kw: (log.append(('get_scu', a[1])), service)[1])}, 'harness')
        asce = Obj(asce_cls)
        cm_cls = ClassVal('RequestAssociationCM', [obj], {
            '__enter__': nego.method(lambda it2, a, kw: (log.append(('enter',)), asce)[1]),
            '__exit__': nego.method(lambda it2, a, kw: (log.append(('exit', a[1])), False)[1])}, 'harness')
        ae_cls = ClassVal('ClientAEStub', [obj], {
            '__init__': nego.method(lambda it2, a, kw: log.append(('ClientAE', a[1]))),
            'add_scu': nego.method(lambda it2, a, kw: (log.append(('add_scu', a[1])), a[0])[1]),
            'request_association': nego.method(lambda it2, a, kw: (log.append(('request_association', a[1])), Obj(cm_cls))[1]),
        }, 'harness')
        real = aem.attrs['ClientAE']
        aem.attrs['ClientAE'] = ae_cls
        remote, aet, query, root = Opaque('remote_ae'), Opaque('local_aet'), Opaque('query'), p.fresh('root', smt.Str)
        count = [0]

        def consumer(v):
            count[0] += 1

        def ob(name, goal):
            if isinstance(goal, bool):
                goal = z3.BoolVal(goal)
            p.oblige('%s#%s' % (label, name), goal, kind='ensures', assume_after=False)
        try:
            gen = it.call(top.attrs['c_find'], [remote, aet, query, root], {})
            it.run_generator(gen, consumer)
        except Raised as r:
            ob('noexc', False)
            p.outcome = 'normal'
            return
        finally:
            aem.attrs['ClientAE'] = real
        kinds = [e[0] for e in log]
        added = [e for e in log if e[0] == 'add_scu']
        ob('configures-the-find-user-service', len(added) == 1 and added[0][1] is sc.attrs['qr_find_scu'])
        ob('one-association-to-the-remote-entity', kinds.count('request_association') == 1 and
           [e for e in log if e[0] == 'request_association'][0][1] is remote and kinds.count('enter') == 1)
        made = [e for e in log if e[0] == 'ClientAE']
        ob('local-ae-title', len(made) == 1 and made[0][1] is aet)
        looked = [e for e in log if e[0] == 'get_scu']
        ob('service-looked-up-for-the-requested-root', len(looked) == 1 and looked[0][1] is root)
        calls = [e for e in log if e[0] == 'service-called']
        ob('query-handed-to-the-service-once', len(calls) == 1 and len(calls[0][1]) >= 1 and calls[0][1][0] is query)
        exits = [e for e in log if e[0] == 'exit']
        ob('association-left-normally-after-the-last-result', len(exits) == 1 and exits[0][1] is None and kinds[-1] == 'exit')
        p.outcome = 'normal'
    ctx.extra.setdefault('functions', []).append(verify.function_info(it, it.modules['pynetdicom2'].attrs['c_find']))
    ctx.add_exploration('pynetdicom2.c_find', wrapper, res, target='pynetdicom2.c_find')

    from ..services import install_native_replayer
    install_native_replayer(ctx)
    ctx.assumptions += [
        'the application yields a finite sequence of (data set, status) pairs; data sets are opaque handles and '
        'dsutils.encode is a deterministic function of the handle',
        'C-FIND user: arbitrary C-FIND-RSP messages are received; pending = FF00 / FF01 (C18 proves the classification)',
        'the c_find convenience wrapper is verified with ClientAE replaced by a recording stub (no sockets): what the '
        'association and the looked-up service do is request_association (C14), get_scu (C11) and qr_find_scu above',
        'send() hands the message to a lazy encoder (asceprovider.Association.send -> dimse_msg.encode generator): '
        'modelled by the ownership monitor of pyvc/services.py',
    ]
