"""C15 -- C-STORE delivers the data set intact end to end; stored files are never clobbered.

The end-to-end statement is assembled from per-function contracts along the path of a C-STORE:

  storage_scu (memory)   the request carries the data set's SOP class / instance UIDs, the caller's message
                         id, the data set encoded in the *negotiated* transfer syntax, on the given context;
                         the status returned is the status of the response received
  storage_scu (file)     the request carries the UIDs of the file meta information (instance UID from the data
                         set when the meta lacks it) and the open file positioned exactly behind the meta
                         group, i.e. at the first byte of the data set
  Association.send / DIMSEMessage.encode / fragment*      C06: every byte of command and data set is sent
  DIMSEDecoder.process / get_file / write_meta            C07: reassembled exactly, in memory or in the file
  storage_scp            the handler gets the received data set (the same object) with the context exactly
                         once, the file is closed afterwards, the response carries the handler's status
                         (CANNOT UNDERSTAND when it raises EventHandlingError), correlated as in C17
  _get_storage_file      (directory-backed entities) the file opened for writing did not exist before
                         (so no stored file is truncated or overwritten and every instance gets its own
                         file); write_meta gets the negotiated transfer syntax; start = position before meta
"""
import z3
from ..values import (Obj, Raised, Opaque, SeqVal, ListVal, Stream, DictVal, SetVal, Builtin, Unsupported,
                      NamedTupleVal, ClassVal, int_term, bytes_term)
from .. import verify, smt, ops, bytesops
from ..contracts import Contract
from ..services import Harness, sends
from .c17 import fresh16


def run(ctx):
    it = ctx.build(by_contract=['dsutils.decode', 'dsutils.encode', 'dsutils.encode_element'])
    sc = it.modules['pynetdicom2.sopclass']
    dm = it.modules['pynetdicom2.dimsemessages']
    st = it.modules['pynetdicom2.statuses']
    exc = it.modules['pynetdicom2.exceptions']
    top = it.modules['pynetdicom2']
    status_cls = st.attrs['Status']
    res = verify.FunctionResult('sopclass.')
    res2 = verify.FunctionResult('pynetdicom2.')
    infos = []
    for q in ('sopclass.storage_scu', 'sopclass.storage_scp'):
        fv, _ = verify.lookup_function(it, q)
        infos.append(verify.function_info(it, fv))
    infos.append(verify.function_info(it, top.attrs['_get_storage_file']))
    ctx.extra['functions'] = infos

    def obl(p, label):
        def ob(name, f, **meta):
            if isinstance(f, bool):
                f = z3.BoolVal(f)
            p.oblige('%s#%s' % (label, name), f, kind='ensures', meta=meta, assume_after=False)
        return ob

    # dsutils.encode with the transfer-syntax flags visible
    ENC = z3.Function('encoded_in_ts', smt.Int, smt.Bool, smt.Bool, smt.Bytes)

    def c15_encode(it2, a, kw):
        ds, imp, little = a
        h = ds.fields.get('_handle') if isinstance(ds, Obj) else None
        if h is None:
            raise Unsupported('dsutils.encode of %r' % (ds,))
        b = lambda v: z3.BoolVal(v) if isinstance(v, bool) else v
        return ENC(h, b(imp), b(little))
    it.spec_prelude['c15_encode'] = Builtin('spec.c15_encode', c15_encode)
    ec = Contract('dsutils.encode')
    ec.abstract = 'return c15_encode(ds, is_implicit_vr, is_little_endian)'
    it.hooks.setdefault('call_contracts', {})['dsutils.encode'] = ec

    def new_harness():
        h = Harness(it)
        it.hooks['harness'] = h
        return h

    def response(p, h):
        rsp = h.new_message(dm.attrs['CStoreRSPMessage'], status=fresh16(it, 'response_status'),
                            message_id_being_responded_to=fresh16(it, 'mid'))
        h.app['receive'] = lambda it2, h2, a: (rsp, it2.p.fresh_int('rsp_pc'))
        return rsp

    # ------------------------------------------------------------------ storage_scu, data set in memory
    def scu_memory(p):
        label = 'sopclass.storage_scu[memory]'
        ob = obl(p, label)
        h = new_harness()
        asce, c = h.new_asce(), h.new_ctx()
        rsp = response(p, h)
        ds = Obj(ClassVal('Dataset', [it.builtins['object']], {}, 'harness'))
        ds.fields.update({'_handle': p.fresh_int('dataset'), 'SOPClassUID': p.fresh('sop_class', smt.Str),
                          'SOPInstanceUID': p.fresh('sop_instance', smt.Str)})
        msg_id = fresh16(it, 'msg_id')
        try:
            r = it.call(sc.attrs['storage_scu'], [asce, c, ds, msg_id], {})
        except Raised as e:
            ob('noexc', False, exception=e.exc.cls.name)
            p.outcome = 'normal'
            return
        sent = sends(p, 'asce')
        ok = len(sent) == 1 and isinstance(sent[0][2], Obj) and sent[0][2].cls is dm.attrs['CStoreRQMessage']
        ob('one-c-store-request', ok)
        if ok:
            m = sent[0][2]
            ts = c.get('supported_ts')
            ob('message-id', ops.values_equal(it, it.getattr(m, 'message_id'), msg_id))
            ob('sop-class-of-the-data-set', ops.values_equal(it, it.getattr(m, 'sop_class_uid'), ds.fields['SOPClassUID']))
            ob('sop-instance-of-the-data-set', ops.values_equal(it, it.getattr(m, 'affected_sop_instance_uid'),
                                                                ds.fields['SOPInstanceUID']))
            want = ENC(ds.fields['_handle'], ts.fields['is_implicit_VR'], ts.fields['is_little_endian'])
            got = it.getattr(m, 'data_set')
            ob('data-set-encoded-in-the-negotiated-transfer-syntax', smt.is_z3(got) and bytes_term(got) == want)
            ob('on-the-given-context', ops.values_equal(it, sent[0][3], c.get('id')))
        good = isinstance(r, Obj) and r.cls is status_cls
        ob('returns-a-status', good)
        if good:
            ob('status-is-the-peers-status', ops.values_equal(it, r.fields.get('_value'), it.getattr(rsp, 'status')))
        p.outcome = 'normal'
    ctx.add_exploration('sopclass.storage_scu[memory]', scu_memory, res, target='sopclass.storage_scu')

    # ------------------------------------------------------------------ storage_scu, data set in a file
    def scu_file(p):
        label = 'sopclass.storage_scu[file]'
        ob = obl(p, label)
        h = new_harness()
        asce, c = h.new_asce(), h.new_ctx()
        rsp = response(p, h)
        meta_bytes, data = p.fresh_bytes('file_meta_group'), p.fresh_bytes('file_data_set')
        import ast
        content = it.binop(ast.Add(), it.binop(ast.Add(), b'\0' * 128 + b'DICM', meta_bytes), data)
        fobj = Stream(b'', content, 'dicom-file')
        opened = []

        def open_hook(it2, a, kw):
            opened.append((a[0], a[1] if len(a) > 1 else 'r'))
            return fobj
        it.hooks['open'] = open_hook
        has_inst = p.fresh('meta_has_instance_uid', smt.Bool)
        meta = Obj(ClassVal('FileMeta', [it.builtins['object']], {}, 'harness'))
        meta.fields['MediaStorageSOPClassUID'] = p.fresh('meta_sop_class', smt.Str)
        inst_meta, inst_ds = p.fresh('meta_sop_instance', smt.Str), p.fresh('dataset_sop_instance', smt.Str)

        def meta_hook(it2, me, name):
            if name == 'MediaStorageSOPInstanceUID':
                if it2.p.branch(has_inst):
                    return inst_meta
                it2.raise_exc('AttributeError', name)
            return Ellipsis
        meta.getattr_hook = meta_hook
        full = Obj(ClassVal('FileDataset', [it.builtins['object']], {}, 'harness'))
        full.fields['SOPInstanceUID'] = inst_ds

        def external(it2, fn, args, kwargs):
            name = fn.name
            if name.endswith('read_preamble'):
                bytesops.stream_read(it2, args[0], 132)
                return None
            if name.endswith('_read_file_meta_info'):
                bytesops.stream_read(it2, args[0], bytesops.blen(it2, meta_bytes))
                return meta
            if name.endswith('dcmread'):
                # reads some amount from wherever the file is positioned; what follows in the code is an
                # absolute seek, whose result depends on the file content only -- modelled as reading to
                # the end (keeps the content term structured)
                bytesops.stream_read(it2, args[0], None)
                return full
            return Ellipsis
        it.hooks['external_call'] = external
        msg_id = fresh16(it, 'msg_id')
        fname = p.fresh('file_name', smt.Str)
        try:
            r = it.call(sc.attrs['storage_scu'], [asce, c, fname, msg_id], {})
        except Raised as e:
            ob('noexc', False, exception=e.exc.cls.name)
            p.outcome = 'normal'
            return
        sent = sends(p, 'asce')
        ok = len(sent) == 1 and isinstance(sent[0][2], Obj) and sent[0][2].cls is dm.attrs['CStoreRQMessage']
        ob('one-c-store-request', ok)
        ob('opens-the-named-file-for-reading', len(opened) == 1 and opened[0][0] is fname and opened[0][1] == 'rb')
        if ok:
            m = sent[0][2]
            ob('message-id', ops.values_equal(it, it.getattr(m, 'message_id'), msg_id))
            ob('sop-class-of-the-file-meta', ops.values_equal(it, it.getattr(m, 'sop_class_uid'),
                                                              meta.fields['MediaStorageSOPClassUID']))
            want_inst = z3.If(has_inst, inst_meta, inst_ds)
            ob('sop-instance-of-the-file', it.getattr(m, 'affected_sop_instance_uid') == want_inst)
            got = m.fields.get('_data_set')
            # (the trace holds the message as it was when send() was called)
            isf = isinstance(got, Stream) and got.name == fobj.name
            ob('data-set-is-the-open-file', isf and not got.closed and not fobj.closed)
            if isf:
                ob('file-positioned-at-the-first-byte-of-the-data-set',
                   z3.And(bytes_term(got.rem) == bytes_term(data),
                          bytes_term(got.before) == z3.Concat(bytes_term(b'\0' * 128 + b'DICM'), bytes_term(meta_bytes))))
            ob('on-the-given-context', ops.values_equal(it, sent[0][3], c.get('id')))
        good = isinstance(r, Obj) and r.cls is status_cls
        ob('returns-a-status', good)
        if good:
            ob('status-is-the-peers-status', ops.values_equal(it, r.fields.get('_value'), it.getattr(rsp, 'status')))
        p.outcome = 'normal'
    ctx.add_exploration('sopclass.storage_scu[file]', scu_file, res, target='sopclass.storage_scu')

    # ------------------------------------------------------------------ storage_scp
    def scp(p, kind):
        label = 'sopclass.storage_scp[%s]' % kind
        ob = obl(p, label)
        h = new_harness()
        asce, c = h.new_asce(), h.new_ctx()
        req = h.new_message(dm.attrs['CStoreRQMessage'], message_id=fresh16(it, 'message_id'),
                            sop_class_uid=p.fresh('sop_class_uid', smt.Str),
                            affected_sop_instance_uid=p.fresh('sop_instance_uid', smt.Str))
        data = Stream(b'', p.fresh_bytes('received'), 'received-file')
        req.fields['_data_set'] = data
        calls = []
        EHE = exc.attrs['EventHandlingError']
        hstatus = fresh16(it, 'handler_status')

        def on_store(it2, h2, a):
            calls.append(tuple(a))
            calls.append(('closed-at-call', data.closed))
            if kind == 'raises':
                raise Raised(it2.instantiate(EHE, ['cannot store'], {}))
            s = Obj(status_cls)
            s.fields['_value'] = hstatus
            return s
        h.app['on_receive_store'] = on_store
        try:
            it.call(sc.attrs['storage_scp'], [asce, c, req], {})
        except Raised as e:
            ob('noexc', False, exception=e.exc.cls.name)
            p.outcome = 'normal'
            return
        args = [x for x in calls if x and x[0] != 'closed-at-call']
        ob('handler-called-exactly-once', len(args) == 1)
        if len(args) == 1:
            ob('handler-gets-context-and-the-received-data-set', args[0][0] is c and args[0][1] is data)
            ob('data-set-open-while-handled', ('closed-at-call', False) in calls)
        ob('received-file-closed-afterwards', bool(data.closed))
        sent = sends(p, 'asce')
        ok = len(sent) == 1 and isinstance(sent[0][2], Obj) and sent[0][2].cls is dm.attrs['CStoreRSPMessage']
        ob('one-response', ok)
        if ok:
            want = 0xC000 if kind == 'raises' else hstatus
            ob('response-status-is-the-handlers', ops.values_equal(it, it.getattr(sent[0][2], 'status'), want))
        p.outcome = 'normal'
    for kind in ('returns', 'raises'):
        lab = 'sopclass.storage_scp[%s]' % kind
        ctx.add_exploration(lab, lambda p, kind=kind: scp(p, kind), res, target='sopclass.storage_scp')

    # ------------------------------------------------------------------ _get_storage_file
    def storage_file(p):
        label = 'pynetdicom2._get_storage_file'
        ob = obl(p, label)
        exists = z3.Function('fs_exists', smt.Str, smt.Bool)
        joinp = z3.Function('os_path_join', smt.Str, smt.Str, smt.Str)
        opened = []
        written = []

        def open_hook(it2, a, kw):
            f = Stream(b'', b'', 'storage-file')
            opened.append((a[0], a[1] if len(a) > 1 else 'r', f))
            return f
        it.hooks['open'] = open_hook

        def sterm(x):
            return it.p.facts.strlit(x) if isinstance(x, str) else x

        def external(it2, fn, args, kwargs):
            name = fn.name
            if name.endswith('path.join'):
                return joinp(sterm(args[0]), sterm(args[1]))
            if name.endswith('path.exists'):
                return exists(sterm(args[0]))
            if name.endswith('write_file_meta_info'):
                written.append(args)
                return None
            if name.endswith('DicomFileLike'):
                return args[0]
            return Ellipsis
        it.hooks['external_call'] = external
        Dataset = it.hooks['Dataset']
        cs = it.instantiate(Dataset, [], {})
        new_elem = it.hooks['new_command_elem']
        it.dict_set(cs.fields['_elems'], (0, 0x0002), new_elem(it, (0, 0x0002), p.fresh('sop_class', smt.Str)))
        it.dict_set(cs.fields['_elems'], (0, 0x1000), new_elem(it, (0, 0x1000), p.fresh('sop_instance', smt.Str)))
        ts = Opaque('negotiated ts')
        c = NamedTupleVal(it.modules['pynetdicom2.asceprovider'].attrs['PContextDef'],
                          (p.fresh_int('pc'), p.fresh('ctx_sop', smt.Str), ts))
        path = p.fresh('storage_dir', smt.Str)
        try:
            r = it.call(top.attrs['_get_storage_file'], [c, cs, path], {})
        except Raised as e:
            ob('noexc', False, exception=e.exc.cls.name)
            p.outcome = 'normal'
            return
        w = [o for o in opened if 'w' in o[1] or 'a' in o[1] or '+' in o[1]]
        ob('one-file-created', len(w) == 1 and len(opened) == 1)
        if len(w) == 1:
            name = w[0][0]
            ob('no-existing-file-is-opened-for-writing', z3.Not(exists(sterm(name))), mode=w[0][1])
            okr = isinstance(r, tuple) and len(r) == 2
            ob('returns-the-created-file', okr and r[0] is w[0][2] and not w[0][2].closed)
            if okr:
                ob('start-is-the-beginning-of-the-dicom-file', ops.values_equal(it, r[1], 0))
        ob('meta-written-once', len(written) == 1)
        if len(written) == 1:
            meta = written[0][1]
            ex = meta.fields.get('_extra', {}) if isinstance(meta, Obj) else {}
            ob('meta-transfer-syntax-is-the-negotiated-one', ex.get('TransferSyntaxUID') is ts)
        p.outcome = 'normal'
    ctx.add_exploration('pynetdicom2._get_storage_file', storage_file, res2, target='pynetdicom2._get_storage_file')

    # ------------------------------------------------------------------ the directory-backed entities' get_file
    # StorageAE.get_file / ClientStorageAE.get_file are what the decoder calls (C07: get_file_cb): they must hand
    # the context, the command set and *their own storage directory* to _get_storage_file and return its result.
    def entity_get_file(p, cls_name):
        from ..values import Builtin
        label = 'pynetdicom2.%s.get_file' % cls_name
        ob = obl(p, label)
        calls = []
        result = (Stream(b'', b'', 'storage-file'), p.fresh_int('start'))

        def recording(it2, a, kw):
            calls.append((tuple(a), dict(kw)))
            return result
        real = top.attrs['_get_storage_file']
        top.attrs['_get_storage_file'] = Builtin('_get_storage_file(stub)', recording)
        me = Obj(top.attrs[cls_name])
        me.fields['storage_dir'] = p.fresh('storage_dir', smt.Str)
        c, cs = Opaque('context'), Opaque('command set')
        try:
            r = it.call(top.attrs[cls_name].lookup('get_file')[0], [me, c, cs], {})
        except Raised as e:
            ob('noexc', False, exception=e.exc.cls.name)
            p.outcome = 'normal'
            return
        finally:
            top.attrs['_get_storage_file'] = real
        ok = len(calls) == 1 and len(calls[0][0]) == 3 and not calls[0][1]
        ob('one-file-per-received-instance', ok)
        if ok:
            a = calls[0][0]
            ob('file-for-this-context-and-command-set', a[0] is c and a[1] is cs)
            ob('file-in-the-entitys-storage-directory', a[2] is me.fields['storage_dir'])
        ob('returns-the-created-file-and-start', r is result)
        p.outcome = 'normal'
    for cls_name in ('StorageAE', 'ClientStorageAE'):
        infos.append(verify.function_info(it, top.attrs[cls_name].lookup('get_file')[0]))
        ctx.add_exploration('pynetdicom2.%s.get_file' % cls_name, lambda p, cls_name=cls_name: entity_get_file(p, cls_name),
                            res2, target='pynetdicom2.%s.get_file' % cls_name)

    from .. import replay as _replay

    def replayer(ctx2, ob, model):
        return _replay.run_native('c15.py', {'obligation': ob.name}, timeout=300)
    ctx.replayers['*'] = replayer
    ctx.native_crosschecks.append(('c15.py', {'obligation': 'sopclass.storage_scu#'}, 'storage user/provider'))
    ctx.native_crosschecks.append(('c15.py', {'obligation': 'pynetdicom2._get_storage_file#'}, 'repeated stores into a scratch directory'))
    ctx.assumptions += [
        'transport of the request and of the response is C06 (fragmentation, both sources) and C07 (reassembly, both '
        'sinks); correlation of the response is C17; the end-to-end statement is the composition of these contracts',
        'pydicom: dsutils.encode(ds, implicit, little) is a function of the data set and the two flags (content '
        'fidelity of pydicom\'s writer/reader is external); read_preamble consumes 132 bytes, _read_file_meta_info '
        'the file meta group; dcmread may read any amount (the code seeks back)',
        'file system: os.path.exists is an arbitrary predicate that does not change between the check and the open '
        '(no concurrent writer into the storage directory); the uniquifying loop terminates (finitely many files)',
        'the handler returns a Status or raises EventHandlingError',
    ]
