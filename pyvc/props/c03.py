"""C03 -- PDU framing is independent of how TCP segments the byte stream.

What the provider recognises is a function of the concatenated stream only, because:

  _check_incoming_pdu    a received chunk d is appended to the buffer unchanged (raw_pdu' == raw_pdu ++ d),
                         nothing else happens; end of stream / socket error produce Evt17 and close the socket
  _process_incoming      for an ARBITRARY buffer B: a frame is taken iff B holds a complete PDU
                         (len(B) >= 6 and len(B) >= 6 + L, L = big-endian length in B[2:6]); then exactly
                         the leading 6 + L bytes go to the decoder of the type in B[0] (or become Evt19),
                         exactly one event is queued and raw_pdu' == B[6+L:]; otherwise NOTHING changes
  _check_network         in every state, for every buffer and every outcome of select()/recv(): at most one
                         event per call and  B ++ d == (frame taken) ++ raw_pdu'  -- no byte is lost,
                         duplicated or reordered whatever the segmentation
  run (loop body)        one event at a time: an event is handed to the state machine together with the
                         primitive that was stored when the event was queued (invariant: at most one event
                         is pending, and its primitive is the current one) -- this is what makes the result
                         independent of whether data is already waiting when the provider starts
By induction over the calls, the sequence of frames is the unique parse of the stream into
length-prefixed PDUs, whatever the chunking (the induction itself is the standard schema).
"""
import z3
from ..values import (Obj, ListVal, Raised, Opaque, ClassVal, Builtin, PathEnd, Unsupported, bytes_term, int_term)
from .. import verify, smt, ops, bytesops
from ..contracts import Contract
from . import c01, c12


ALLOWED = ['struct.error', 'UnicodeDecodeError', 'exceptions.PDUProcessingError']
PRIMITIVE_EVENTS = (1, 3, 4, 6, 7, 8, 9, 10, 11, 12, 13, 14, 15, 16)


def bt(b):
    return bytes_term(b)


def blen(b):
    return z3.IntVal(len(b)) if isinstance(b, bytes) else z3.Length(b)


def install_decoders(it):
    """the seven PDU decoders through their totality contract (proved under C12), with the raw bytes
    they are given recorded on the ghost state"""
    T = c01.contracts_table()
    cc = it.hooks.setdefault('call_contracts', {})
    by_qual = {}
    for key, ent in T.items():
        if 'owner' not in ent:
            continue
        qual = ent['owner'] + '.decode'
        param = 'raw_bytes' if ent['owner'] == 'pdu.AAssociatePDUBase' else 'rawstring'
        c = Contract(qual)
        c.requires = [('observe', 'ghost_set("decoded_from", %s) is None' % param)]
        c.result_expr = 'fresh_instance("%s")' % key
        # one representative of the three exception classes a decoder may raise: the framing code treats
        # them alike (which classes may escape is C12's obligation)
        c.raises = [(ALLOWED[-1], None, False)]
        by_qual.setdefault(qual, {})[c01.class_of(it, key)] = c
    for qual, per_cls in by_qual.items():
        def chooser(it2, fv, args, kwargs, per_cls=per_cls):
            return per_cls.get(args[0])
        cc[qual] = chooser
        it.mode.by_contract.add(qual)


def run(ctx):
    it = ctx.build()
    c01.setup_codec(ctx, it)
    it.mode.by_contract.discard('pdu.UserInformationItem.decode')
    it.mode.by_contract.discard('pdu.PresentationContextItemRQ.decode')
    install_decoders(it)
    register(ctx, it)


def register_run(ctx, it, res):
    """only the run-loop exploration (C05 re-uses it; the PDU decoders must be by contract there too)"""
    install_decoders(it)
    register(ctx, it, only_run=True, res=res)


def register_all(ctx, it, res):
    """every exploration of C03 on another property's interpreter (C05, C13: what is received is handed to
    the protocol machine completely and in order of arrival, end of stream included)"""
    install_decoders(it)
    register(ctx, it, only_run=False, res=res, extend=True)


def register(ctx, it, only_run=False, res=None, extend=False):
    fsm = it.modules['pynetdicom2.fsm']
    dul = it.modules['pynetdicom2.dulprovider']
    States, Events = fsm.attrs['States'], fsm.attrs['Events']
    res = res or verify.FunctionResult('dulprovider.')
    infos = list(ctx.extra.get('functions', [])) if (only_run or extend) else []
    for q in ('dulprovider.DULServiceProvider._process_incoming', 'dulprovider.DULServiceProvider._check_incoming_pdu',
              'dulprovider.DULServiceProvider._check_network', 'dulprovider.DULServiceProvider.run'):
        fv, _ = verify.lookup_function(it, q)
        infos.append(verify.function_info(it, fv))
    ctx.extra['functions'] = infos
    EV = {n: Events.attrs['EVT_%d' % n] for n in range(1, 20)}

    def events_of(provider):
        return provider.fields['event'].fields['items'].items

    def obl(p, label):
        def ob(name, f, **meta):
            if isinstance(f, bool):
                f = z3.BoolVal(f)
            p.oblige('%s#%s' % (label, name), f, kind='ensures', meta=meta, assume_after=False)
        return ob

    def frame_len(B):
        """(complete: Bool term, total frame length term) of a buffer, by the PS3.8 header layout"""
        hdr = bytesops.bytes_slice(it, B, 2, 6)
        L = it.p.facts.unbe(4, bt(hdr))
        full = L + 6
        return z3.And(blen(B) >= 6, blen(B) >= full), full

    def install_io(p, sock, label, state):
        """select() nondeterministic; recv() any chunk / end of stream / error; what was received is
        kept on the ghost state"""
        state['chunk'] = None
        state['closed_by'] = None

        def select(it2, args, kw):
            ready = it2.p.branch(it2.p.fresh('socket_readable', smt.Bool))
            it2.p.ghost['readable'] = ready
            return (ListVal([sock]) if ready else ListVal([]), ListVal([]), ListVal([]))

        def recv(it2, args, kw):
            if not it2.p.ghost.get('readable'):
                raise PathEnd('recv() without select(): the blocking discipline is C12\'s obligation')
            it2.p.ghost['readable'] = False
            kind = it2.p.choose([True, True, True], 'recv outcome')
            if kind == 0:
                d = it2.p.fresh_bytes('chunk')
                it2.p.assume(z3.Length(d) > 0)
                state['chunk'] = d
                return d
            if kind == 1:
                state['closed_by'] = 'eof'
                return b''
            state['closed_by'] = 'error'
            it2.raise_exc('socket.error', 'connection reset')
        it.hooks['select'] = select
        it.hooks['recv'] = recv

    # ------------------------------------------------------------------ _process_incoming
    def process_incoming(p):
        label = 'dulprovider.DULServiceProvider._process_incoming'
        ob = obl(p, label)
        provider, sock = c12.build_provider(it)
        B = p.fresh_bytes('raw_pdu')
        provider.fields['raw_pdu'] = B
        prim0 = Opaque('earlier primitive')
        provider.fields['primitive'] = prim0
        del events_of(provider)[:]
        p.ghost['decoded_from'] = None
        # framing must not depend on the protocol state
        sta = p.choose([True] * 13, 'protocol state') + 1
        provider.fields['state_machine'].fields['current_state'] = States.attrs['STA_%d' % sta]
        try:
            r = it.call(it.getattr(provider, '_process_incoming'), [], {})
        except Raised as e:
            ob('noexc', False, exception=e.exc.cls.name)
            p.outcome = 'normal'
            return
        complete, full = frame_len(B)
        ob('frame-taken-iff-a-complete-pdu-is-buffered', complete if r is True else z3.Not(complete))
        evs = events_of(provider)
        after = provider.fields['raw_pdu']
        if r is True:
            ob('one-event-per-frame', len(evs) == 1)
            rest = bytesops.bytes_slice(it, B, full, None)
            ob('buffer-keeps-exactly-what-follows-the-frame', bt(after) == bt(rest))
            src = p.ghost.get('decoded_from')
            if src is not None:
                frame = bytesops.bytes_slice(it, B, 0, full)
                ob('decoder-gets-exactly-the-frame', bt(src) == bt(frame))
            if evs and evs[0] is not EV[19]:
                ob('primitive-is-the-decoded-pdu', provider.fields['primitive'] is not prim0 and src is not None)
            else:
                ob('invalid-pdu-is-evt19', len(evs) == 1 and evs[0] is EV[19])
        else:
            ob('incomplete-frame-changes-nothing', (after is B or ops.values_equal(it, after, B) is True) and not evs and
               provider.fields['primitive'] is prim0 and r is False)
        p.outcome = 'normal'
    lab = 'dulprovider.DULServiceProvider._process_incoming'
    if not only_run:
        ctx.add_exploration(lab, process_incoming, res, target=lab)

    # ------------------------------------------------------------------ _check_incoming_pdu
    def check_incoming(p):
        label = 'dulprovider.DULServiceProvider._check_incoming_pdu'
        ob = obl(p, label)
        provider, sock = c12.build_provider(it)
        B = p.fresh_bytes('raw_pdu')
        provider.fields['raw_pdu'] = B
        del events_of(provider)[:]
        state = {}
        install_io(p, sock, label, state)
        p.ghost['readable'] = True
        try:
            r = it.call(it.getattr(provider, '_check_incoming_pdu'), [], {})
        except Raised as e:
            ob('noexc', False, exception=e.exc.cls.name)
            p.outcome = 'normal'
            return
        evs = events_of(provider)
        after = provider.fields['raw_pdu']
        if state['chunk'] is not None:
            ob('chunk-appended-unchanged', bt(after) == z3.Concat(bt(B), bt(state['chunk'])))
            ob('nothing-else-happens', not evs and r is False and provider.fields['dul_socket'] is sock)
        else:
            ob('end-of-stream-is-evt17', len(evs) == 1 and evs[0] is EV[17] and r is True)
            ob('socket-closed-and-dropped', provider.fields['dul_socket'] is None and sock.fields.get('closed') is True)
            ob('buffer-untouched', after is B)
        p.outcome = 'normal'
    lab2 = 'dulprovider.DULServiceProvider._check_incoming_pdu'
    if not only_run:
        ctx.add_exploration(lab2, check_incoming, res, target=lab2)

    # ------------------------------------------------------------------ _check_network
    def check_network(p, sta):
        label = 'dulprovider.DULServiceProvider._check_network[Sta%d]' % sta
        ob = obl(p, label)
        provider, sock = c12.build_provider(it)
        sm = provider.fields['state_machine']
        sm.fields['current_state'] = States.attrs['STA_%d' % sta]
        B = p.fresh_bytes('buffered')
        provider.fields['raw_pdu'] = B
        del events_of(provider)[:]
        state = {}
        install_io(p, sock, label, state)
        p.ghost['readable'] = False
        p.ghost['decoded_from'] = None
        # checked at the moment a second event is queued (the primitive slot holds one PDU)
        evq = provider.fields['event']
        real_append = evq.cls.lookup('append')[0]

        def q_append(it2, a, kw):
            if len(events_of(provider)) >= 1:
                ob('at-most-one-event-per-call', False)
                raise PathEnd('a second event was queued in one call: reported, path not followed further')
            return real_append.fn(it2, a, kw)
        evq.cls = ClassVal('deque', [evq.cls], {'append': nego_method(q_append)}, 'harness')
        try:
            r = it.call(it.getattr(provider, '_check_network'), [], {})
        except Raised as e:
            ob('noexc', False, exception=e.exc.cls.name)
            p.outcome = 'normal'
            return
        evs = events_of(provider)
        after = provider.fields['raw_pdu']
        ob('at-most-one-event-per-call', len(evs) <= 1)
        ob('reports-an-event-iff-one-was-queued', (r is True) == (len(evs) == 1))
        pdu_event = bool(evs) and evs[0] not in (EV[2], EV[17], EV[18])
        if state['closed_by'] is not None:
            # the stream has ended: what arrived before the end is handed on before the end is -- a complete
            # PDU still buffered must be recognised by this call, not overtaken (and lost) by Evt17
            complete_b, _f = frame_len(B)
            ob('a-buffered-complete-pdu-is-recognised-before-the-close', z3.Implies(complete_b, z3.BoolVal(pdu_event)))
            p.outcome = 'normal'
            return
        d = state['chunk'] if state['chunk'] is not None else b''
        X = z3.Concat(bt(B), bt(d)) if not (isinstance(d, bytes) and d == b'') else bt(B)
        if sta != 4:
            # in every state in which a connection exists (Sta4: it is just being confirmed), a complete
            # PDU in what has been received so far is recognised -- the protocol machine has a cell for
            # every PDU in every such state, including Sta13 (awaiting the peer's close)
            complete_x, _full = frame_len(X)
            ob('a-complete-pdu-is-always-recognised', z3.Implies(complete_x, z3.BoolVal(pdu_event)))
        if pdu_event:
            complete, full = frame_len(X)
            ob('frame-only-from-a-complete-pdu', complete)
            ob('no-byte-lost-duplicated-or-reordered',
               z3.And(blen(after) == blen(X) - full, z3.Concat(bt(bytesops.bytes_slice(it, X, 0, full)), bt(after)) == X))
        else:
            ob('no-byte-lost-duplicated-or-reordered', bt(after) == X)
        p.outcome = 'normal'
    for sta in (range(1, 14) if not only_run else ()):
        lab3 = 'dulprovider.DULServiceProvider._check_network[Sta%d]' % sta
        ctx.add_exploration(lab3, lambda p, sta=sta: check_network(p, sta), res,
                            target='dulprovider.DULServiceProvider._check_network')

    # ------------------------------------------------------------------ run: one event at a time
    def c03_state(p, provider):
        """an arbitrary provider state at the head of the run loop that satisfies the invariant"""
        g = p.ghost['c03']
        sm = provider.fields['state_machine']
        sta = p.choose([True] * 13, 'protocol state') + 1
        sm.fields['current_state'] = States.attrs['STA_%d' % sta]
        provider.fields['raw_pdu'] = p.fresh_bytes('buffered')
        provider.fields['is_killed'] = False
        provider.fields['dimse_gen'] = None
        if sta == 1 and p.branch(p.fresh('socket_gone', smt.Bool)):
            provider.fields['dul_socket'] = None
        else:
            provider.fields['dul_socket'] = g['sock']
        # user queue: empty or one PDU primitive
        q = provider.fields['from_service_user'].fields['items'].items
        del q[:]
        if p.branch(p.fresh('user_primitive_waiting', smt.Bool)):
            q.append(it.instantiate(it.modules['pynetdicom2.pdu'].attrs['AReleaseRqPDU'], [], {}))
        evs = events_of(provider)
        del evs[:]
        del g['pairs'][:]
        if p.branch(p.fresh('event_pending', smt.Bool)):
            # which event it is does not matter to the polling functions: one that carries no primitive
            # (Evt5), one from the peer (Evt6) and one from the local user (Evt9) stand for all
            k = (5, 6, 9)[p.choose([True] * 3, 'pending event')]
            prim = Opaque('primitive stored with the pending event')
            provider.fields['primitive'] = prim
            evs.append(EV[k])
            g['pairs'].append((EV[k], prim))
        else:
            provider.fields['primitive'] = Opaque('stale primitive')

    def c03_inv(p, provider):
        g = p.ghost['c03']
        evs = events_of(provider)
        ok = len(evs) <= 1
        if len(evs) == 1:
            ok = ok and len(g['pairs']) == 1 and g['pairs'][0][0] is evs[0] and \
                g['pairs'][0][1] is provider.fields['primitive']
        return z3.BoolVal(bool(ok))

    it.spec_prelude['c03_havoc'] = Builtin('spec.c03_havoc', lambda it2, a, kw: c03_state(it2.p, a[0]))
    it.spec_prelude['c03_inv'] = Builtin('spec.c03_inv', lambda it2, a, kw: c03_inv(it2.p, a[0]))

    def run_case(p):
        label = 'dulprovider.DULServiceProvider.run'
        ob = obl(p, label)
        provider, sock = c12.build_provider(it)
        g = {'sock': sock, 'pairs': [], 'handled': []}
        p.ghost['c03'] = g
        state = {}
        install_io(p, sock, label, state)
        p.ghost['readable'] = False
        # the event queue records, with every event, the primitive stored at that moment
        evq = provider.fields['event']
        real_append = evq.cls.lookup('append')[0]

        def q_append(it2, a, kw):
            if events_of(provider):
                ob('one-event-at-a-time', False)
                raise PathEnd('an event was queued while another one is pending: reported, path not followed further')
            g['pairs'].append((a[1], provider.fields.get('primitive')))
            return real_append.fn(it2, a, kw)
        evq.cls = ClassVal('deque', [evq.cls], {'append': nego_method(q_append)}, 'harness')
        # the state machine: every handled event is checked against the pairing
        sm = provider.fields['state_machine']

        def action(it2, a, kw):
            evt = a[1]
            g['handled'].append(evt)
            pair = g['pairs'].pop(0) if g['pairs'] else None
            ob('event-handled-in-queue-order', pair is not None and pair[0] is evt)
            if pair is not None and any(evt is EV[n] for n in PRIMITIVE_EVENTS):
                ob('event-handled-with-its-own-primitive', pair[1] is provider.fields.get('primitive'),
                   event=str(evt))
            provider.fields['is_killed'] = True      # one iteration is examined; leave the loop afterwards
        sm.cls = ClassVal('StateMachine', [sm.cls], {'action': nego_method(action)}, 'harness')
        # entry: the constructor's state (Evt5 queued for an accepted socket, nothing paired with it)
        g['pairs'][:] = [(e, provider.fields.get('primitive')) for e in events_of(provider)]
        try:
            it.call(it.getattr(provider, 'run'), [], {})
        except Raised as e:
            ob('noexc', False, exception=e.exc.cls.name)
        p.outcome = 'normal'
    ctx.add_exploration('dulprovider.DULServiceProvider.run', run_case, res, target='dulprovider.DULServiceProvider.run')

    def replayer(ctx2, ob_, model):
        from .. import replay
        return replay.run_native('c03.py', {'search': 'segmentations'}, timeout=300)   # one search serves them all
    if only_run:
        ctx.replayers['dulprovider.DULServiceProvider.run*'] = replayer
        return
    ctx.replayers['*'] = replayer
    ctx.native_crosschecks.append(('c03.py', {'search': 'segmentations'}, 'every segmentation of three conversations'))
    ctx.assumptions += [
        'recv() returns any non-empty chunk, b"" (peer closed) or raises socket.error; select() is nondeterministic; '
        'a chunk is never longer than asked for (irrelevant to the content clauses)',
        'the seven PDU decoders are seen through the totality contract proved under C12 (instance or one of three '
        'exception classes); what they return for a frame is C01/C02',
        'user primitives waiting in the user queue are PDU objects (a queued DIMSE encoder generator is C06\'s)',
        'induction over the calls of the run loop: the frames taken are the unique parse of the concatenated stream '
        'into length-prefixed PDUs whatever the chunking (standard schema, not machine-checked)',
        'a stop request (is_killed) is only examined at the head of the loop',
    ]


def nego_method(fn):
    b = Builtin(fn.__name__, fn)
    b.is_method = True
    return b
