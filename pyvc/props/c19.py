"""C19 -- retrieve (C-GET / C-MOVE) performs each sub-operation exactly once, true progress.

qr_move_scp: loop body verified for an arbitrary iteration (havoc of the counters and of the
fields of the reused pending response): exactly one sub-operation on the current data set,
exactly one pending response reporting completed = k and remaining = total - k *after* the k-th
sub-operation; on the loop-exit path (and when there is nothing to move) exactly one final
response.  qr_get_scu: receive loop verified for an arbitrary received message: a C-STORE request
is answered exactly once, on the context it arrived on, correlated (clauses of C17), and handed to
the caller at most once; pending C-GET responses are skipped; the final one ends the operation.
"""
import z3
from ..values import (Obj, ListVal, Raised, Opaque, SeqVal, DictVal, SetVal, NamedTupleVal, Stream, Builtin)
from .. import verify, smt, ops
from ..services import Harness, sends
from .c17 import fresh16, install_subassociation, ext_calls


def run(ctx, only_get=False):
    """only_get: just the C-GET user exploration (C17 re-generates it: the C-STORE responses of the C-GET user)"""
    it = ctx.build(by_contract=['dsutils.decode', 'dsutils.encode', 'dsutils.encode_element'])
    sc = it.modules['pynetdicom2.sopclass']
    dm = it.modules['pynetdicom2.dimsemessages']
    st = it.modules['pynetdicom2.statuses']
    exc = it.modules['pynetdicom2.exceptions']
    asc = it.modules['pynetdicom2.asceprovider']
    status_cls = st.attrs['Status']
    EHE = exc.attrs['EventHandlingError']
    res = verify.FunctionResult('sopclass.')
    infos = []
    for q in ('sopclass.qr_move_scp', 'sopclass._send_response', 'sopclass.qr_get_scu'):
        fv, _ = verify.lookup_function(it, q)
        infos.append(verify.function_info(it, fv))
    ctx.extra['functions'] = infos

    def sym_status(it2, name='status'):
        s = Obj(status_cls)
        v = it2.p.fresh_int(name)
        it2.p.assume(z3.And(v >= 0, v <= 0xFFFF))
        s.fields['_value'] = v
        for f in ('is_success', 'is_pending', 'is_failure', 'is_warning', 'is_cancel'):
            s.fields[f] = it2.p.fresh(f, smt.Bool)
        return s

    # ------------------------------------------------------------------ C-MOVE provider
    def move(p, nop_zero, label):
        h = Harness(it)
        it.hooks['harness'] = h
        it.hooks['external_call'] = ext_calls(h)
        h.install_ownership_monitor()      # a message handed to send() must not be written again (lazy encoder)
        asce, c = h.new_asce(), h.new_ctx()
        req = h.new_message(dm.attrs['CMoveRQMessage'], message_id=fresh16(it, 'message_id'),
                            sop_class_uid=p.fresh('sop_class_uid', smt.Str),
                            move_destination=p.fresh('dest', smt.Str))
        req.fields['_data_set'] = p.fresh_bytes('identifier')
        if nop_zero:
            datasets = ListVal([])
            nop = 0
        else:
            datasets = SeqVal(p.fresh('to_move', it.types.sort_of('Seq[harness.AppDataset]')), 'harness.AppDataset')
            nop = p.fresh_int('nop')
            p.assume(nop >= 1)
        remote = Opaque('remote_ae')
        asked = []

        def on_move(it2, h2, a):
            asked.append(list(a))
            return (remote, nop, datasets)
        h.app['on_receive_move'] = on_move
        install_subassociation(it, h, sym_status)
        try:
            it.call(sc.attrs['qr_move_scp'], [asce, c, req], {})
        except Raised as r:
            p.oblige('%s#noexc' % label, z3.BoolVal(False), kind='noexc', meta={'exception': r.exc.cls.name},
                     assume_after=False)
            p.outcome = 'normal'
            return
        # the destination: the application is asked once, with the request's move destination, and the one
        # sub-association goes to the entity it designated
        okq = len(asked) == 1 and len(asked[0]) == 3
        p.oblige('%s#application-asked-once-with-the-move-destination' % label,
                 ops.values_equal(it, asked[0][2], it.getattr(req, 'move_destination')) if okq else z3.BoolVal(False),
                 kind='ensures', assume_after=False)
        reqs = [e for e in p.trace if e[0] == 'sub-association.request']
        if not nop_zero:
            p.oblige('%s#one-association-to-the-designated-destination' % label,
                     z3.BoolVal(len(reqs) == 1 and reqs[0][1] is remote), kind='ensures', assume_after=False)
        else:
            p.oblige('%s#no-other-destination' % label, z3.BoolVal(all(e[1] is remote for e in reqs)), kind='ensures',
                     assume_after=False)
        # loop-exit path: everything sent outside loop iterations is on this trace
        sent = sends(p, 'asce')
        finals = [e for e in sent if is_final(it, e)]
        p.oblige('%s#one-final' % label, z3.BoolVal(len(finals) == 1), kind='ensures',
                 meta={'final_responses': len(finals), 'sent_outside_loop': len(sent)}, assume_after=False)
        if len(finals) >= 1:
            f = finals[-1][2]
            p.oblige('%s#final-is-last' % label, z3.BoolVal(sent[-1] is finals[-1]), kind='ensures',
                     assume_after=False)
            comp = it.getattr(f, 'num_of_completed_sub_ops')
            rem = it.getattr(f, 'num_of_remaining_sub_ops')
            p.oblige('%s#final-progress' % label, ops.values_equal(it, it.binop(__import__('ast').Add(), comp, rem), nop),
                     kind='ensures', assume_after=False)
        opens = [e for e in p.trace if e[0] == 'sub-association.open']
        if nop_zero:
            stores = [e for e in p.trace if e[0] == 'sub-store']
            p.oblige('%s#nothing-stored' % label, z3.BoolVal(len(stores) == 0), kind='ensures', assume_after=False)
        p.outcome = 'normal'

    def is_final(it2, e):
        v = it2.getattr(e[2], 'status')
        return isinstance(v, int) and v == 0
    if not only_get:
        ctx.add_exploration('sopclass.qr_move_scp[nop>0]', lambda p: move(p, False, 'sopclass.qr_move_scp[nop>0]'), res,
                            target='sopclass.qr_move_scp')
        ctx.add_exploration('sopclass.qr_move_scp[nop=0]', lambda p: move(p, True, 'sopclass.qr_move_scp[nop=0]'), res,
                            target='sopclass.qr_move_scp')

    # ------------------------------------------------------------------ C-GET user
    def get(p, label):
        h = Harness(it)
        it.hooks['harness'] = h
        it.hooks['external_call'] = ext_calls(h)
        h.install_ownership_monitor()      # a message handed to send() must not be written again (lazy encoder)
        asce, c = h.new_asce(), h.new_ctx()
        ae = asce.fields['ae']
        # every arrival context id is a negotiated one (acceptor routes only accepted contexts)
        PCD = asc.attrs['PContextDef']
        cdl = DictVal()
        cdl.base = lambda it2, key: (True, NamedTupleVal(PCD, (key, it2.p.fresh('store_sop_class', smt.Str),
                                                                c.get('supported_ts'))))
        ae.fields['context_def_list'] = cdl
        # the decoder hands over a file exactly for the SOP classes configured for file storage
        ae.fields['store_in_file'] = SetVal([], member=lambda it2, x: it2.p.ghost['in_file'])

        def receive(it2, h2, a):
            kind = it2.p.choose([True, True, True], 'received message kind')
            pc = it2.p.fresh_int('arrival_pc_id')
            if kind == 0:
                m = h2.new_message(dm.attrs['CStoreRQMessage'], message_id=fresh16(it2, 'store_message_id'),
                                   sop_class_uid=it2.p.fresh('store_sop_class_uid', smt.Str),
                                   affected_sop_instance_uid=it2.p.fresh('store_instance', smt.Str))
                it2.p.ghost['in_file'] = it2.p.branch(it2.p.fresh('file_backed', smt.Bool))
                if it2.p.ghost['in_file']:
                    m.fields['_data_set'] = Stream(b'', it2.p.fresh_bytes('file_content'), 'received-file')
                else:
                    m.fields['_data_set'] = it2.p.fresh_bytes('data_set')
                it2.p.ghost['current_request'] = m
            elif kind == 1:
                m = h2.new_message(dm.attrs['CGetRSPMessage'], status=fresh16(it2, 'get_status'),
                                   message_id_being_responded_to=fresh16(it2, 'mid'))
            else:
                m = h2.new_message(dm.attrs['CEchoRQMessage'], message_id=fresh16(it2, 'mid'))
            return (m, pc)
        h.app['receive'] = receive

        def on_store(it2, h2, a):
            if it2.p.branch(it2.p.fresh('handler_raises', smt.Bool)):
                it2.p.ghost['expected_status'] = 0xC000
                raise Raised(it2.instantiate(EHE, ['handler failed'], {}))
            s = sym_status(it2, 'handler_status')
            it2.p.ghost['expected_status'] = s.fields['_value']
            return s
        h.app['on_receive_store'] = on_store

        def on_send(it2, h2, m, pc_id, a):
            if a.fields.get('name') != 'asce':
                return
            cur = it2.p.ghost.get('current_request')
            if cur is None:
                return      # the initial C-GET-RQ

            def ob(name, goal):
                if isinstance(goal, bool):
                    goal = z3.BoolVal(goal)
                it2.p.oblige('%s#store-rsp:%s' % (label, name), goal, kind='send-pre', assume_after=False)
            ob('type', isinstance(m, Obj) and m.cls is dm.attrs['CStoreRSPMessage'])
            if isinstance(m, Obj) and m.cls is dm.attrs['CStoreRSPMessage']:
                ob('message-id', ops.values_equal(it2, it2.getattr(m, 'message_id_being_responded_to'),
                                                  it2.getattr(cur, 'message_id')))
                ob('sop-class', ops.values_equal(it2, it2.getattr(m, 'sop_class_uid'), it2.getattr(cur, 'sop_class_uid')))
                ob('sop-instance', ops.values_equal(it2, it2.getattr(m, 'affected_sop_instance_uid'),
                                                    it2.getattr(cur, 'affected_sop_instance_uid')))
                ob('status', ops.values_equal(it2, it2.getattr(m, 'status'), it2.p.ghost.get('expected_status')))
        h.on_send.append(on_send)

        ds = Opaque('query-identifier')
        gen = it.call(sc.attrs['qr_get_scu'], [asce, c, ds, fresh16(it, 'msg_id')], {})

        def consumer(v):
            p.ghost['yield_count'] = p.ghost.get('yield_count', 0) + 1
        try:
            it.run_generator(gen, consumer)
        except Raised as r:
            p.oblige('%s#noexc' % label, z3.BoolVal(False), kind='noexc', meta={'exception': r.exc.cls.name},
                     assume_after=False)
        p.outcome = 'normal'
    ctx.add_exploration('sopclass.qr_get_scu', lambda p: get(p, 'sopclass.qr_get_scu'), res, target='sopclass.qr_get_scu')

    from ..services import install_native_replayer
    install_native_replayer(ctx)
    if only_get:
        return
    ctx.assumptions += [
        'the application supplies a finite sequence of data sets and a count; the destination association and its '
        'storage service are oracles returning an arbitrary status',
        'C-GET user: received messages are arbitrary C-STORE-RQ / C-GET-RSP / other messages on arbitrary context ids '
        'that were negotiated (present in the context table)',
        'send() hands the message to a lazy encoder: every store to a message that may already have been sent is an ownership obligation (#owned)',
        'pydicom Dataset on command sets modelled (pyvc/dsmodel.py); dsutils codecs opaque',
    ]
