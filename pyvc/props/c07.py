"""C07 -- DIMSE reassembly is exact under any PDV grouping; completion is detected exactly.

fsm.DIMSEDecoder.process(p_data) is executed symbolically for an arbitrary P-DATA-TF (any number of
PDVs) arriving at an arbitrary point of a message's fragment stream.  The stream satisfies what C06
proves about the sender (contracts/dimsedecoder_c.py); the decoder starts in an arbitrary state
satisfying the invariant and must re-establish it after every fragment.  From the invariant:

  * the command set is decoded from exactly the transmitted command bytes (obligation at the call
    of dsutils.decode) and the message object is of the class PS3.7 assigns to its Command Field,
    built on that command set, on the stream's presentation context
  * `receiving` becomes False exactly when the last required fragment has been consumed -- never
    earlier (invariant: receiving <=> something outstanding), never later (the loop breaks there)
  * at completion the data set is the transmitted bytes: in memory as one bytes object, or -- when the
    SOP class is configured for file storage -- written behind whatever get_file_cb put into the
    file, which is handed over positioned at the start the callback reported
  * AEBase.get_file / write_meta: preamble, then the file meta information built from the command
    set's SOP class / instance UIDs and the negotiated transfer syntax
"""
import importlib.util
import os
import z3
from ..values import (Obj, Raised, Opaque, SeqVal, ListVal, Stream, DictVal, SetVal, Builtin, Unsupported,
                      NamedTupleVal, int_term, bytes_term)
from .. import verify, smt, ops, bytesops, runner
from ..contracts import Contract
from ..folds import fold_join_seq, reveal_head, elem_at
from ..pack import from_term


def load_spec():
    path = os.path.join(runner.VERIF, 'spec', 'ps37_commands.py')
    sp = importlib.util.spec_from_file_location('ps37_commands', path)
    mod = importlib.util.module_from_spec(sp)
    sp.loader.exec_module(mod)
    return mod


def blen(b):
    return z3.IntVal(len(b)) if isinstance(b, bytes) else z3.Length(b)


def bt(b):
    return bytes_term(b)


def run(ctx):
    it = ctx.build(by_contract=['dsutils.decode', 'dsutils.encode', 'dsutils.encode_element'])
    S = load_spec()
    CLASS_OF = {code: name for name, code in S.COMMAND_FIELD.items()}
    fsm = it.modules['pynetdicom2.fsm']
    pm = it.modules['pynetdicom2.pdu']
    asc = it.modules['pynetdicom2.asceprovider']
    aem = it.modules['pynetdicom2.applicationentity']
    Dec = fsm.attrs['DIMSEDecoder']
    res = verify.FunctionResult('fsm.')
    res2 = verify.FunctionResult('applicationentity.')
    infos = []
    for q in ('fsm.DIMSEDecoder.process', 'fsm.DIMSEDecoder._command_set_to_message', 'fsm.DIMSEDecoder.__init__',
              'applicationentity.AEBase.get_file', 'applicationentity.write_meta'):
        fv, _ = verify.lookup_function(it, q)
        infos.append(verify.function_info(it, fv))
    ctx.extra['functions'] = infos
    Dataset = it.hooks['Dataset']
    new_elem = it.hooks['new_command_elem']

    # ------------------------------------------------------------------ ghost stream state
    def G():
        return it.p.ghost['c07']

    def new_stream(p, mode):
        g = {}
        g['mode'] = mode
        g['C'] = p.fresh_bytes('command_bytes')
        p.assume(z3.Length(g['C']) >= 1)
        flag = p.fresh_int('data_set_type')
        g['has_data'] = flag != S.NO_DATA_SET
        g['D'] = p.fresh_bytes('data_bytes')
        p.assume(z3.If(g['has_data'], z3.Length(g['D']) >= 1, z3.Length(g['D']) == 0))
        g['pc'] = p.fresh_int('pc_id')
        cf = p.fresh_int('command_field')
        p.assume(z3.Or(*[cf == c for c in sorted(CLASS_OF)]))
        g['cf'] = cf
        cs = it.instantiate(Dataset, [], {})
        for tag, v in (((0, 0x0100), cf), ((0, 0x0800), flag), ((0, 0x0002), p.fresh('affected_sop_class', smt.Str)),
                       ((0, 0x1000), p.fresh('affected_sop_instance', smt.Str))):
            it.dict_set(cs.fields['_elems'], tag, new_elem(it, tag, v))
        g['cs'] = cs
        g['prefix'] = p.fresh_bytes('file_meta')
        g['start'] = p.fresh_int('file_start')
        p.assume(z3.And(g['start'] >= 0, g['start'] <= z3.Length(g['prefix'])))
        g['ctx'] = NamedTupleVal(asc.attrs['PContextDef'], (g['pc'], p.fresh('ctx_sop', smt.Str), Opaque('negotiated ts')))
        g['file_calls'] = []
        p.ghost['c07'] = g
        return g

    def seq_of_bytes(p, name, joined):
        sv = SeqVal(p.fresh(name, it.types.sort_of('Seq[bytes]')), 'bytes')
        p.assume(bt(fold_join_seq(it, sv)) == bt(joined))
        return sv

    def empty_seq():
        return SeqVal(z3.Empty(it.types.sort_of('Seq[bytes]')), 'bytes')

    def right_type(m):
        """formula: message object m is of the class PS3.7 assigns to the stream's command field and is
        built on the decoded command set"""
        g = G()
        return z3.BoolVal(isinstance(m, Obj) and m.fields.get('command_set') is g['cs'] and
                          m.fields.get('_typed_by_contract_for') is g['cs'])

    # ------------------------------------------------------------------ arbitrary invariant state
    def havoc_state(p, dec):
        """an arbitrary decoder state reachable while the message is still incomplete"""
        g = G()
        c_done, c_rest = p.fresh_bytes('c_done'), p.fresh_bytes('c_rest')
        p.assume(z3.Concat(c_done, c_rest) == g['C'])
        f = dec.fields
        f['receiving'] = True
        f['data_set_received'] = False
        if p.branch(z3.Length(c_rest) > 0):
            # command phase: nothing of the data set has arrived (command fragments come first)
            g['c_rest'], g['d_rest'] = c_rest, g['D']
            f['_encoded_command_set'] = seq_of_bytes(p, 'buffered_command', c_done)
            f['_encoded_data_set'] = empty_seq()
            f['command_set_received'] = False
            f['msg'] = None
            f['_dataset_fp'] = None
            f['_start'] = 0
            f['pc_id'] = p.fresh_int('earlier_pc_id')
        else:
            # data phase: the command set is complete, the data set is not
            p.assume(g['has_data'])
            d_done, d_rest = p.fresh_bytes('d_done'), p.fresh_bytes('d_rest')
            p.assume(z3.Concat(d_done, d_rest) == g['D'])
            p.assume(z3.Length(d_rest) > 0)
            g['c_rest'], g['d_rest'] = b'', d_rest
            f['_encoded_command_set'] = seq_of_bytes(p, 'buffered_command', g['C'])
            f['command_set_received'] = True
            f['msg'] = g['msg0']
            f['pc_id'] = g['pc']
            if g['mode'] == 'file':
                f['_dataset_fp'] = Stream(it.binop(__import__('ast').Add(), g['prefix'], d_done), b'', 'storage-file')
                f['_start'] = g['start']
                f['_encoded_data_set'] = empty_seq()
            else:
                f['_dataset_fp'] = None
                f['_start'] = 0
                f['_encoded_data_set'] = seq_of_bytes(p, 'buffered_data', d_done)
        g['pending'] = None

    def as_bool(v):
        return z3.BoolVal(v) if isinstance(v, bool) else v

    def invariant(p, dec):
        g = G()
        f = dec.fields
        c_rest, d_rest = g['c_rest'], g['d_rest']
        conj = []
        cmd_done = blen(c_rest) == 0
        outstanding = z3.Or(z3.Not(cmd_done), z3.And(g['has_data'], blen(d_rest) > 0))
        conj.append(as_bool(f['receiving']) == outstanding)
        conj.append(as_bool(f['command_set_received']) == cmd_done)
        conj.append(as_bool(f['data_set_received']) == z3.And(g['has_data'], blen(d_rest) == 0))
        if p.branch(cmd_done):
            # the message exists, is of the right type, on the right context, on the decoded command set
            m = f['msg']
            conj.append(right_type(m))
            conj.append(as_bool(ops.values_equal(it, f['pc_id'], g['pc'])))
        else:
            ecs = f['_encoded_command_set']
            ok = isinstance(ecs, SeqVal)
            conj.append(z3.BoolVal(ok))
            if ok:
                conj.append(z3.Concat(bt(fold_join_seq(it, ecs)), bt(c_rest)) == g['C'])
            conj.append(z3.BoolVal(f['msg'] is None))
        # data bytes: written to the file or buffered
        fp = f['_dataset_fp']
        eds = f['_encoded_data_set']
        if isinstance(fp, Stream):
            conj.append(z3.BoolVal(g['mode'] == 'file'))
            conj.append(z3.Concat(bt(fp.before), bt(fp.rem), bt(d_rest)) == z3.Concat(bt(g['prefix']), bt(g['D'])))
            conj.append(as_bool(ops.values_equal(it, f['_start'], g['start'])))
            conj.append(z3.BoolVal(not fp.closed))
        else:
            conj.append(z3.BoolVal(fp is None))
            if g['mode'] == 'file':
                # the file is opened when the command set is complete and announces a data set
                conj.append(z3.Or(z3.Not(cmd_done), z3.Not(g['has_data'])))
            ok = isinstance(eds, SeqVal)
            conj.append(z3.BoolVal(ok))
            if ok:
                conj.append(z3.Concat(bt(fold_join_seq(it, eds)), bt(d_rest)) == g['D'])
        return z3.And(*conj)

    def step(p, dec, todo):
        """stream contract: the head PDV of the PDU is the next fragment of the message"""
        g = G()
        y = reveal_head(it, todo, [])
        if y is None:
            g['pending'] = None
            return
        o = from_term(it, y.term, y.tdesc)
        from ..pack import unpack
        o = unpack(it, y)
        dv = o.fields['data_value']
        marker = p.fresh_int('control')
        payload = p.fresh_bytes('payload')
        p.assume(bt(dv) == z3.Concat(p.facts.be(1, marker), payload))
        p.assume(z3.And(marker >= 0, marker <= 3, z3.Length(payload) >= 1))
        p.assume(int_term(o.fields['context_id']) == g['pc'])
        c_rest, d_rest = g['c_rest'], g['d_rest']
        if p.branch(blen(c_rest) > 0):
            c2 = p.fresh_bytes('c_rest_after')
            p.assume(bt(c_rest) == z3.Concat(payload, c2))
            p.assume(z3.Or(marker == 1, marker == 3))
            p.assume((marker == 3) == (z3.Length(c2) == 0))
            pend = (c2, d_rest)
        else:
            d2 = p.fresh_bytes('d_rest_after')
            p.assume(bt(d_rest) == z3.Concat(payload, d2))
            p.assume(z3.Or(marker == 0, marker == 2))
            p.assume((marker == 2) == (z3.Length(d2) == 0))
            pend = (c_rest, d2)
        g['pending'] = pend
        complete = z3.And(blen(pend[0]) == 0, z3.Or(z3.Not(g['has_data']), blen(pend[1]) == 0))
        # a PDU ends with the last fragment of the message at the latest
        p.assume(z3.Implies(complete, z3.Length(todo.term) == 1))

    def commit(p):
        g = G()
        if g.get('pending') is not None:
            g['c_rest'], g['d_rest'] = g['pending']
            g['pending'] = None

    pre = it.spec_prelude
    pre['c07_havoc'] = Builtin('spec.c07_havoc', lambda it2, a, kw: havoc_state(it2.p, a[0]))
    pre['c07_invariant'] = Builtin('spec.c07_invariant', lambda it2, a, kw: invariant(it2.p, a[0]))
    pre['c07_step'] = Builtin('spec.c07_step', lambda it2, a, kw: step(it2.p, a[0], a[1]))
    pre['c07_commit'] = Builtin('spec.c07_commit', lambda it2, a, kw: commit(it2.p))

    def c07_decode(it2, a, kw):
        g = G()
        raw = a[0]
        it2.p.oblige('%s#command-set-decoded-from-exactly-the-transmitted-bytes' % it2.p.label,
                     bt(raw) == g['C'], kind='pre', assume_after=False)
        return g['cs']
    pre['c07_decode'] = Builtin('spec.c07_decode', c07_decode)
    dc = Contract('dsutils.decode')
    dc.abstract = 'return c07_decode(rawstr)'
    it.hooks.setdefault('call_contracts', {})['dsutils.decode'] = dc

    # _command_set_to_message is verified for every command field on its own (below); inside process()
    # it is used through that contract: the message PS3.7 assigns to the command field of its argument
    dm = it.modules['pynetdicom2.dimsemessages']

    def c07_message(it2, a, kw):
        m = it2.instantiate(dm.attrs['DIMSEMessage'], [a[0]], {})
        m.fields['_typed_by_contract_for'] = a[0]
        return m
    pre['c07_message'] = Builtin('spec.c07_message', c07_message)
    mc = Contract('fsm.DIMSEDecoder._command_set_to_message')
    mc.abstract = 'return c07_message(command_set)'
    it.hooks['call_contracts']['fsm.DIMSEDecoder._command_set_to_message'] = mc
    it.mode.by_contract.add('fsm.DIMSEDecoder._command_set_to_message')

    def message_type_case(p):
        label = 'fsm.DIMSEDecoder._command_set_to_message'
        g = new_stream(p, 'memory')
        it.mode.by_contract.discard(label)
        try:
            m = it.call(Dec.lookup('_command_set_to_message')[0], [g['cs']], {})
        except Raised as r:
            p.oblige('%s#noexc' % label, z3.BoolVal(False), kind='noexc', meta={'exception': r.exc.cls.name},
                     assume_after=False)
            p.outcome = 'normal'
            return
        finally:
            it.mode.by_contract.add(label)
        ok = isinstance(m, Obj) and m.cls.name in S.COMMAND_FIELD and m.fields.get('command_set') is g['cs']
        p.oblige('%s#message-class-of-the-command-field' % label,
                 (g['cf'] == S.COMMAND_FIELD[m.cls.name]) if ok else z3.BoolVal(False), kind='ensures', assume_after=False)
        p.oblige('%s#built-on-the-given-command-set' % label, z3.BoolVal(bool(ok)), kind='ensures', assume_after=False)
        p.outcome = 'normal'
    ctx.add_exploration('fsm.DIMSEDecoder._command_set_to_message', message_type_case, res,
                        target='fsm.DIMSEDecoder._command_set_to_message')

    # ------------------------------------------------------------------ the exploration
    def process_case(p, mode):
        label = 'fsm.DIMSEDecoder.process[%s]' % mode

        def ob(name, f):
            if isinstance(f, bool):
                f = z3.BoolVal(f)
            p.oblige('%s#%s' % (label, name), f, kind='ensures', assume_after=False)
        g = new_stream(p, mode)
        # environment of the decoder
        accepted = DictVal()
        accepted.base = lambda it2, key: (True, g['ctx']) if it2.p.branch(int_term(key) == g['pc']) else (False, None)
        sif = SetVal([], member=lambda it2, x: mode == 'file', frozen=True)

        def get_file_cb(it2, a, kw):
            g['file_calls'].append(tuple(a))
            fp = Stream(g['prefix'], b'', 'storage-file')
            return (fp, g['start'])
        cb = Builtin('get_file_cb', get_file_cb)
        g['msg0'] = c07_message(it, [g['cs']], {})
        dec = it.instantiate(Dec, [accepted, sif, cb], {})
        # a fresh decoder satisfies the invariant for a stream of which nothing has been delivered
        g['c_rest'], g['d_rest'] = g['C'], g['D']
        for name in ('_encoded_command_set', '_encoded_data_set'):
            fresh_list = dec.fields.get(name)
            ob('fresh-decoder-has-empty-buffers', isinstance(fresh_list, ListVal) and not fresh_list.items)
            dec.fields[name] = empty_seq()      # the empty list, as a sequence value
        # a decoder owns its state: buffers and file slot are instance attributes set by the constructor
        # (state kept on the class would be shared by the decoders of all messages and associations)
        ob('fresh-decoder-owns-its-state', all(n in dec.fields for n in ('_dataset_fp', '_start')) and
           dec.fields.get('_dataset_fp') is None)
        dec.fields.setdefault('_dataset_fp', None)
        dec.fields.setdefault('_start', 0)
        p.oblige('%s#fresh-decoder-satisfies-the-invariant' % label, invariant(p, dec), kind='invariant', assume_after=False)
        # process() is called at an arbitrary point of the stream
        havoc_state(p, dec)
        items = SeqVal(p.fresh('pdvs', it.types.sort_of('Seq[pdu.PresentationDataValueItem]')),
                       'pdu.PresentationDataValueItem')
        pdata = it.instantiate(pm.attrs['PDataTfPDU'], [items], {})
        try:
            it.call(it.getattr(dec, 'process'), [pdata], {})
        except Raised as r:
            p.oblige('%s#noexc' % label, z3.BoolVal(False), kind='noexc',
                     meta={'exception': r.exc.cls.name, 'args': repr(r.exc.fields.get('args'))[:200]}, assume_after=False)
            p.outcome = 'normal'
            return
        # ---- after the call
        f = dec.fields
        c_rest, d_rest = g['c_rest'], g['d_rest']
        complete = z3.And(blen(c_rest) == 0, z3.Or(z3.Not(g['has_data']), blen(d_rest) == 0))
        ob('completion-signalled-exactly-at-the-last-fragment', as_bool(f['receiving']) == z3.Not(complete))
        if p.branch(complete):
            m = f['msg']
            good = isinstance(m, Obj) and m.fields.get('command_set') is g['cs']
            ob('message-of-the-right-type-on-the-decoded-command-set', right_type(m))
            ob('presentation-context', ops.values_equal(it, f['pc_id'], g['pc']))
            if good:
                ds = m.fields.get('_data_set')
                if p.branch(g['has_data']):
                    if mode == 'file':
                        isf = isinstance(ds, Stream)
                        ob('data-set-is-the-storage-file', isf and ds is f['_dataset_fp'])
                        if isf:
                            ob('file-holds-meta-then-exactly-the-transmitted-bytes',
                               z3.Concat(bt(ds.before), bt(ds.rem)) == z3.Concat(bt(g['prefix']), bt(g['D'])))
                            ob('file-positioned-at-the-reported-start', blen(ds.before) == g['start'])
                            ob('file-open', not ds.closed)
                        calls = g['file_calls']
                        ob('file-obtained-at-most-once', len(calls) <= 1)
                        if calls:
                            ob('file-callback-gets-context-and-command-set', calls[0][0] is g['ctx'] and calls[0][1] is g['cs'])
                    else:
                        ob('data-set-bytes-identical', (smt.is_z3(ds) or isinstance(ds, bytes)) and bt(ds) == g['D'])
                else:
                    ob('no-data-set', ds is None or ds == b'')
        p.outcome = 'normal'
    for mode in ('memory', 'file'):
        lab = 'fsm.DIMSEDecoder.process[%s]' % mode
        ctx.add_exploration(lab, lambda p, mode=mode: process_case(p, mode), res, target='fsm.DIMSEDecoder.process')

    # ------------------------------------------------------------------ DT-2 / AR-6: which decoder gets the PDU
    # The clauses above are about one decoder serving one message with the negotiated contexts as its
    # environment.  DT-2 / AR-6 are what makes that true: the P-DATA-TF goes to the decoder of the message
    # under way, or -- for the first fragment of a message -- to a new decoder that works on the association's
    # *current* accepted-contexts table (negotiation re-binds that table after the state machine was built),
    # the configured file-storage set and the application's file callback; a completed message is handed to
    # the user once and its decoder is dropped.  process() itself is a stub here (its contract is above).
    def data_action_case(p, name, first):
        from . import c12, c04, nego
        label = 'fsm.StateMachine.%s[%s]' % (name, 'first fragment of a message' if first else 'message under way')

        def ob(cl, f):
            if isinstance(f, bool):
                f = z3.BoolVal(f)
            p.oblige('%s#%s' % (label, cl), f, kind='ensures', assume_after=False)
        provider, sock = c12.build_provider(it)
        sm = provider.fields['state_machine']
        States = fsm.attrs['States']
        sm.fields['current_state'] = States.attrs['STA_6' if name == 'dt_2' else 'STA_7']
        # negotiation: the association binds the accepted contexts through the provider's property
        table = DictVal()
        table.base = lambda it2, key: (_ for _ in ()).throw(Unsupported('the table is not to be read here'))
        it.setattr(provider, 'accepted_contexts', table)
        under_way = None
        if not first:
            under_way = it.instantiate(Dec, [table, sm.fields['store_in_file'], sm.fields['get_file_cb']], {})
            sm.fields['dimse_decoder'] = under_way
        prim = c04.make_prim(it, 'P-DATA-TF')
        provider.fields['primitive'] = prim
        seen = []
        msg, pcid = Opaque('completed message'), p.fresh_int('pc_id')

        def fake_process(it2, a, kw):
            seen.append((a[0], a[1]))
            how = it2.p.choose([True, True, True], 'decoder outcome')
            if how == 0:
                it2.raise_exc('ValueError', 'fragment cannot be reassembled')
            if how == 1:
                a[0].fields['receiving'] = False
                a[0].fields['msg'] = msg
                a[0].fields['pc_id'] = pcid
            p.ghost['how'] = how
        real = Dec.attrs['process']
        Dec.attrs['process'] = nego.method(fake_process)
        del p.trace[:]
        try:
            it.call(it.getattr(sm, name), [], {})
        except Raised as r:
            ob('noexc', False)
            p.outcome = 'normal'
            return
        finally:
            Dec.attrs['process'] = real
        ob('pdu-goes-to-exactly-one-decoder', len(seen) == 1 and seen[0][1] is prim)
        if len(seen) == 1:
            d = seen[0][0]
            if under_way is not None:
                ob('fragment-goes-to-the-decoder-of-the-message-under-way', d is under_way)
            ob('decoder-works-on-the-negotiated-contexts', isinstance(d, Obj) and d.fields.get('accepted_contexts') is table)
            ob('decoder-has-the-file-storage-configuration', isinstance(d, Obj) and
               d.fields.get('store_in_file') is sm.fields['store_in_file'] and
               d.fields.get('get_file_cb') is sm.fields['get_file_cb'])
            puts = [e for e in p.trace if e[0] == 'put' and e[1] == 'to_service_user']
            how = p.ghost.get('how')
            if how == 1:
                ob('completed-message-handed-over-once', len(puts) == 1 and isinstance(puts[0][2], tuple) and
                   len(puts[0][2]) == 2 and puts[0][2][0] is msg and puts[0][2][1] is pcid)
                ob('decoder-dropped-after-completion', sm.fields['dimse_decoder'] is None)
            elif how == 2:
                ob('nothing-handed-over-before-completion', not puts)
                ob('decoder-kept-while-receiving', sm.fields['dimse_decoder'] is d)
            else:
                # (the abort of the association, AA-8, tells the user: that indication is C04 / C12's clause)
                ob('failed-decoder-dropped', sm.fields['dimse_decoder'] is None and
                   not any(isinstance(e[2], tuple) for e in puts))
        p.outcome = 'normal'
    for name in ('dt_2', 'ar_6'):
        fv, _ = verify.lookup_function(it, 'fsm.StateMachine.' + name)
        ctx.extra.setdefault('functions', []).append(verify.function_info(it, fv))
        for first in (True, False):
            lab = 'fsm.StateMachine.%s[%s]' % (name, 'first fragment of a message' if first else 'message under way')
            ctx.add_exploration(lab, lambda p, name=name, first=first: data_action_case(p, name, first), res,
                                target='fsm.StateMachine.' + name)

    # ------------------------------------------------------------------ get_file / write_meta
    def get_file_case(p):
        label = 'applicationentity.AEBase.get_file'

        def ob(name, f):
            if isinstance(f, bool):
                f = z3.BoolVal(f)
            p.oblige('%s#%s' % (label, name), f, kind='ensures', assume_after=False)
        cs = it.instantiate(Dataset, [], {})
        sop, inst = p.fresh('affected_sop_class', smt.Str), p.fresh('affected_sop_instance', smt.Str)
        it.dict_set(cs.fields['_elems'], (0, 0x0002), new_elem(it, (0, 0x0002), sop))
        it.dict_set(cs.fields['_elems'], (0, 0x1000), new_elem(it, (0, 0x1000), inst))
        ts = Opaque('negotiated ts')
        c = NamedTupleVal(asc.attrs['PContextDef'], (p.fresh_int('pc'), p.fresh('ctx_sop', smt.Str), ts))
        written = []

        def external(it2, fn, args, kwargs):
            name = fn.name
            if name.endswith('write_file_meta_info'):
                written.append(args)
                return None
            if name.endswith('DicomFileLike'):
                return args[0]
            if name.endswith('TemporaryFile'):
                return Stream(b'', b'', 'temporary-file')
            return Ellipsis
        it.hooks['external_call'] = external
        ae = Obj(aem.attrs['AEBase'])
        try:
            r = it.call(aem.attrs['AEBase'].lookup('get_file')[0], [ae, c, cs], {})
        except Raised as e:
            ob('noexc', False)
            p.outcome = 'normal'
            return
        okr = isinstance(r, tuple) and len(r) == 2 and isinstance(r[0], Stream)
        ob('returns-file-and-start', okr)
        if okr:
            fp, start = r
            ob('start-is-the-beginning-of-the-dicom-file', ops.values_equal(it, start, 0))
            pre_ = aem.attrs.get('PREAMBLE')
            ob('preamble-first', isinstance(pre_, bytes) and len(pre_) == 132 and pre_[128:] == b'DICM' and
               pre_[:128] == b'\0' * 128 and ops.values_equal(it, fp.before, pre_) is True)
            ob('file-left-open', not fp.closed)
        ob('meta-written-once', len(written) == 1)
        if len(written) == 1:
            meta = written[0][1]
            ex = meta.fields.get('_extra', {}) if isinstance(meta, Obj) else {}
            ob('meta-sop-class-from-command-set', ex.get('MediaStorageSOPClassUID') is sop)
            ob('meta-sop-instance-from-command-set', ex.get('MediaStorageSOPInstanceUID') is inst)
            ob('meta-transfer-syntax-is-the-negotiated-one', ex.get('TransferSyntaxUID') is ts)
            ob('meta-written-into-the-returned-file', okr and written[0][0] is r[0])
        p.outcome = 'normal'
    ctx.add_exploration('applicationentity.AEBase.get_file', get_file_case, res2,
                        target='applicationentity.AEBase.get_file')

    from .. import replay as _replay

    def replayer(ctx2, ob, model):
        return _replay.run_native('c07.py', {'obligation': ob.name}, timeout=300)
    ctx.replayers['*'] = replayer
    ctx.native_crosschecks.append(('c07.py', {'obligation': ''}, 'every regrouping of the fragments of real messages, memory and file'))
    ctx.assumptions += [
        'fragment stream contract (what C06 proves of the sender): command fragments 1..1,3 then, iff the command set '
        'announces a data set, data fragments 0..0,2; payloads non-empty; one presentation context; a PDU holds '
        'fragments of one message only (it ends with the message\'s last fragment at the latest)',
        'dsutils.decode applied to the transmitted command bytes yields the transmitted command set (pydicom reader, '
        'trusted); the command field is one of the 23 PS3.7 codes',
        'file storage: get_file_cb returns an open file with arbitrary content already in it and a start offset '
        'inside that content; pydicom write_file_meta_info is external (its arguments are checked, not its output)',
        'a decoder object serves one message and works on the association\'s current accepted-contexts table: '
        'obligations on DT-2 / AR-6 (process() stubbed there: raises / completes / goes on receiving)',
        'the whole-stream statement follows from the per-fragment invariant by induction over the fragments '
        '(standard schema, not machine-checked)',
    ]
