"""C08 -- transmitted command sets are well formed (group length, command field, data-set flag).

For each of the 23 message classes the real constructor builds the message, every tag-bound
property is set to an arbitrary value, the Command Data Set Type element is put into an ARBITRARY
state (whatever earlier uses of the same object left behind), then the real `data_set` setter is
run with each kind of value (None, b'', non-empty bytes, file object) and the real set_length():

  init#...            a fresh message says "no data set", has no data set, and its Command Field is
                      the PS3.7 code of its type (spec/ps37_commands.py)
  setter#flag         after `m.data_set = v` (from any earlier state) the flag is 0101H iff no data-set
                      fragments will follow (bool(v) is what DIMSEMessage.encode tests; C06 proves that
                      a non-empty stream is transmitted completely and an absent one not at all)
  set_length#group-length   (0000,0000).value == sum over the OTHER elements e of |encode_element(e)|
  set_length#frame    no other element changes; the flag and the command field keep their values
Association.send calls set_length() before it queues the encoder (obligation shared with C06).

The byte-level reading of "group length = number of bytes that follow" and "ascending tag order"
rests on pydicom's writer (encode = concatenation, in ascending tag order, of encode_element of each
element): assumed, audited natively on every run (replay/c08.py audit), reported as not proved.
"""
import importlib.util
import os
import z3
from ..values import Obj, Raised, Opaque, Stream, ListVal, DictVal, PropertyVal, Unsupported, int_term
from .. import verify, smt, ops, runner, replay


def load_spec():
    path = os.path.join(runner.VERIF, 'spec', 'ps37_commands.py')
    sp = importlib.util.spec_from_file_location('ps37_commands', path)
    mod = importlib.util.module_from_spec(sp)
    sp.loader.exec_module(mod)
    return mod


STR_TAGS = {(0, 0x0002), (0, 0x0003), (0, 0x1000), (0, 0x1001), (0, 0x0600), (0, 0x1030)}


def run(ctx):
    it = ctx.build(by_contract=['dsutils.decode', 'dsutils.encode', 'dsutils.encode_element'])
    S = load_spec()
    dm = it.modules['pynetdicom2.dimsemessages']
    res = verify.FunctionResult('dimsemessages.')
    infos = []
    for q in ('dimsemessages.DIMSEMessage.__init__', 'dimsemessages.DIMSEMessage.set_length',
              'dimsemessages.dimse_property', 'dimsemessages.value_or_none'):
        fv, _ = verify.lookup_function(it, q)
        infos.append(verify.function_info(it, fv))
    ctx.extra['functions'] = infos
    enc_el = it.spec_prelude['encoded_element'].fn

    def elems_of(m):
        cs = m.fields['command_set']
        d = cs.fields['_elems']
        return [(k, it.dict_get(d, k)) for k in it.dict_keys(d)]

    def case(p, K, kind):
        label = 'dimsemessages.%s[data_set=%s]' % (K, kind)

        def ob(name, f):
            if isinstance(f, bool):
                f = z3.BoolVal(f)
            p.oblige('%s#%s' % (label, name), f, kind='ensures', assume_after=False)
        cls = dm.attrs[K]
        try:
            m = it.instantiate(cls, [], {})
        except Raised as r:
            ob('init:noexc', False)
            p.outcome = 'normal'
            return
        cs = m.fields['command_set']
        ob('init:no-data-set', m.fields.get('_data_set') is None and
           ops.values_equal(it, it.getattr(cs, 'CommandDataSetType'), S.NO_DATA_SET))
        ob('init:command-field', ops.values_equal(it, it.getattr(cs, 'CommandField'), S.COMMAND_FIELD[K]))
        tags = [k for k, e in elems_of(m)]
        ob('init:one-group-length-element', tags.count(S.GROUP_LENGTH_TAG) == 1)
        ob('init:command-group-only', all(isinstance(t, tuple) and t[0] == 0 for t in tags))
        # ---- arbitrary field values through the real properties
        seen = set()
        for c in cls.mro:
            for name, a in c.attrs.items():
                if not isinstance(a, PropertyVal) or name in seen or name == 'data_set' or a.fset is None:
                    continue
                seen.add(name)
                is_str = any(s in name for s in ('uid', 'aet', 'destination'))
                v = p.fresh(name, smt.Str) if is_str else p.fresh_int(name)
                try:
                    it.setattr(m, name, v)
                except Raised:
                    pass     # property bound to a tag this message type does not carry
        # ---- whatever earlier uses left in the flag element
        flag_el = it.dict_get(cs.fields['_elems'], (0, 0x0800))
        flag_el.fields['value'] = p.fresh_int('earlier_flag')
        m.fields['_data_set'] = Opaque('earlier data set')
        if kind == 'none':
            v = None
        elif kind == 'empty':
            v = b''
        elif kind == 'bytes':
            v = p.fresh_bytes('data_set')
            p.assume(z3.Length(v) > 0)
        else:
            v = Stream(b'', p.fresh_bytes('file_content'), 'data-set-file')
        try:
            it.setattr(m, 'data_set', v)
        except Raised:
            ob('setter:noexc', False)
            p.outcome = 'normal'
            return
        follows = kind in ('bytes', 'file')
        flag = it.getattr(cs, 'CommandDataSetType')
        ob('setter:flag-says-no-data-set-iff-none-follows',
           ops.values_equal(it, flag, S.NO_DATA_SET) if not follows else ops.neg(ops.values_equal(it, flag, S.NO_DATA_SET)))
        ob('setter:keeps-the-data-set', m.fields.get('_data_set') is v)
        ob('setter:command-field-unchanged', ops.values_equal(it, it.getattr(cs, 'CommandField'), S.COMMAND_FIELD[K]))
        # ---- set_length, from whatever an earlier send of the same object left in the group length
        gl_el = it.dict_get(cs.fields['_elems'], S.GROUP_LENGTH_TAG, None)
        if gl_el is not None and p.branch(p.fresh('sent_before', smt.Bool)):
            gl_el.fields['value'] = p.fresh_int('earlier_group_length')
        before = {k: e.fields.get('value') for k, e in elems_of(m)}
        try:
            it.call(it.getattr(m, 'set_length'), [], {})
        except Raised as r:
            ob('set_length:noexc', False)
            p.outcome = 'normal'
            return
        after = elems_of(m)
        total = z3.IntVal(0)
        for k, e in after:
            if k != S.GROUP_LENGTH_TAG:
                total = total + z3.Length(enc_el(it, [e], {}))
        gl = it.dict_get(cs.fields['_elems'], S.GROUP_LENGTH_TAG).fields['value']
        ob('set_length:group-length', int_term(gl) == z3.simplify(total) if smt.is_z3(gl) or isinstance(gl, int)
           else False)
        same = [k for k, e in after] == list(before)
        for k, e in after:
            if k == S.GROUP_LENGTH_TAG:
                continue
            a, b = e.fields.get('value'), before.get(k)
            same = same and (a is b or ops.values_equal(it, a, b) is True)
        ob('set_length:frame', same)
        p.outcome = 'normal'
    for K in sorted(S.COMMAND_FIELD):
        for kind in ('none', 'empty', 'bytes', 'file'):
            lab = 'dimsemessages.%s[data_set=%s]' % (K, kind)
            ctx.add_exploration(lab, lambda p, K=K, kind=kind: case(p, K, kind), res, target='dimsemessages.' + K)

    # Association.send: set_length() before the encoder is queued (shared with C06)
    from . import c06
    c06.register(ctx, it, only_send=True)

    # ---- the writer model behind "bytes that follow" and "ascending order": audited natively
    a = replay.run_native('c08.py', {'mode': 'audit'}, timeout=300)
    ctx.audits.append(('pydicom writer model (encode = concatenation of encode_element in ascending tag order; '
                       'values() in insertion order); %s' % a.get('bound', ''), bool(a.get('ok')), a))

    def replayer(ctx2, ob, model):
        return replay.run_native('c08.py', {'mode': 'search', 'obligation': ob.name}, timeout=300)
    ctx.replayers['dimsemessages.*'] = replayer
    ctx.native_crosschecks.append(('c08.py', {'mode': 'search', 'obligation': ''}, 'transmitted command sets of all classes, re-sends'))
    ctx.assumptions += [
        'pydicom writer: dsutils.encode(ds, True, True) is the concatenation, in ascending tag order, of '
        'dsutils.encode_element(e, True, True) over the elements of ds; Dataset.values() iterates in insertion order; '
        'encode_element is a function of the element\'s tag and value (assumed; audited natively on every run: '
        '23 classes x UID lengths 1..64 x data set kinds; ascending tag order is NOT proved)',
        'file-backed data sets are non-empty (an encoded data set has at least one element); bool() of a file object '
        'is True, so an EMPTY file would be announced as a data set while no data fragment follows',
        'data-set fragments follow iff bool(message.data_set) (DIMSEMessage.encode tests exactly that; C06 proves a '
        'non-empty stream is transmitted completely)',
        'the same message object sent n times: covered by running the data_set setter and set_length from an '
        'arbitrary earlier state of the flag element and arbitrary field values',
    ]
