"""C02 -- wire format equals the PS3.8 9.3 / PS3.7 Annex D layouts.

(a) For every class K and every valid value v:  K.encode(v) == wire_K(v), the printer
    transcribed from the standard (spec/ps38_layouts.py): field order, widths, big-endian, item
    type codes, and every length field equal to the number of bytes it governs;
    len(encode) == total_length().
(b) Every standard-conformant encoding decodes to the corresponding values: conformant
    encodings are exactly the images wire_K(v) of structured values (any item order, unknown
    sub-item types as generic items), and wire_K(v) == encode(v) by (a), so (b) is the round-trip
    obligation set of C01 -- it is generated and discharged again here, under this property.
List-level equalities (JOIN of element encodings == JOIN of element layouts) are lifted from the
per-class obligations by the engine's fold-extensionality lemma, whose pointwise premise is an
obligation of this check.
"""
from . import c01


def run(ctx, only=None):
    """only: restrict to the classes whose key contains one of these names (dependency phase of C06)"""
    it = ctx.build()
    c01.setup_codec(ctx, it)
    c01.install_replayer(ctx, std=True)
    std = c01.std_lemmas(it)
    it.hooks['_fold_lemmas'] = it.hooks['_fold_lemmas'] + std
    import os
    keys = c01.LEAF + c01.COMPOSITE
    only = only or ([os.environ['PYVC_ONLY']] if os.environ.get('PYVC_ONLY') else None)
    if only:
        keys = [k for k in keys if any(o in k for o in only)]
    c01.run_codec(ctx, it, keys, with_std=True)
    if not only:
        c01.lemma_premises(ctx, it, it.hooks['_fold_lemmas'])
    ctx.assumptions += [
        'oracle: spec/ps38_layouts.py, transcription of PS3.8 9.3.1-9.3.8 and PS3.7 D.3.3.1-D.3.3.7 (DESIGN appendix B)',
        'conformant encodings = images of the transcribed printers over structured values (any item order, generic '
        'sub-items for unknown types)',
        'struct pack/unpack, str encode/decode as in C01; text fields ASCII',
    ]
    ctx.trusted_base += ['spec/ps38_layouts.py transcription of the PDU / item / sub-item layouts']
