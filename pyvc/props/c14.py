"""C14 -- rejection, abort and release are reported faithfully to both sides.

Per function, for all values of the (result, source, reason) / (source, reason) fields:

  AssociationAcceptor._establish   the application's AssociationRejectedError(result, source, diag) produces
                                   exactly one A-ASSOCIATE-RJ with those three values and is re-raised; accept() is
                                   not reached and the association is not marked established
  AssociationAcceptor.handle       on a refused association _loop (the only caller of services) is never entered;
                                   the provider is stopped (finally)
  AssociationAcceptor.reject / abort, AssociationRequester.abort, Association.release
                                   the PDU handed to the provider carries the caller's values; source is 2
                                   (service provider side of the acceptor) resp. 0 (service user)
  Association._handle_errors       A-ASSOCIATE-RJ -> AssociationRejectedError(result, source, reason) unchanged;
                                   A-ABORT -> AssociationAbortedError(source, reason) unchanged;
                                   A-RELEASE-RQ -> AssociationReleasedError; anything else: no error
  Association._get_dul_message     a (message, context) pair is returned as is; a PDU raises as above, any
                                   other PDU raises NetDICOMError
  AssociationRequester._request    an A-ASSOCIATE-RJ reply raises AssociationRejectedError with the reply's values
  AEBase.request_association       leaving the block normally releases the association exactly once and never
                                   aborts; leaving it through an exception aborts it exactly once, never releases,
                                   and re-raises; when the request itself failed the provider is only stopped
The PDUs themselves travel by C01 (codec round trip) and C04 (state machine hands them to the user).
"""
import z3
from ..values import (Obj, Raised, Opaque, ClassVal, DictVal, Builtin, Unsupported, NamedTupleVal, HList, Segment,
                      SeqVal)
from .. import verify, smt, ops
from . import nego


def byte(p, name):
    v = p.fresh_int(name)
    p.assume(z3.And(v >= 0, v <= 255))
    return v


def run(ctx):
    it = ctx.build()
    nego.setup_spec(it)
    asc = it.modules['pynetdicom2.asceprovider']
    aem = it.modules['pynetdicom2.applicationentity']
    pm = it.modules['pynetdicom2.pdu']
    exc = it.modules['pynetdicom2.exceptions']
    res = verify.FunctionResult('asceprovider.')
    res2 = verify.FunctionResult('applicationentity.')
    infos = []
    for q in ('asceprovider.AssociationAcceptor._establish', 'asceprovider.AssociationAcceptor.reject',
              'asceprovider.AssociationAcceptor.handle', 'asceprovider.AssociationAcceptor.abort',
              'asceprovider.AssociationRequester.abort', 'asceprovider.Association.release',
              'asceprovider.Association._handle_errors', 'asceprovider.Association._get_dul_message',
              'applicationentity.AEBase.request_association'):
        fv, _ = verify.lookup_function(it, q)
        infos.append(verify.function_info(it, fv))
    ctx.extra['functions'] = infos
    Acc, Req, Base = asc.attrs['AssociationAcceptor'], asc.attrs['AssociationRequester'], asc.attrs['Association']
    REJ, ABO, REL = (exc.attrs['AssociationRejectedError'], exc.attrs['AssociationAbortedError'],
                     exc.attrs['AssociationReleasedError'])

    def obl(p, label):
        def ob(name, f, **meta):
            if isinstance(f, bool):
                f = z3.BoolVal(f)
            p.oblige('%s#%s' % (label, name), f, kind='ensures', meta=meta, assume_after=False)
        return ob

    def eq(a, b):
        return ops.values_equal(it, a, b)

    def with_methods(obj, **methods):
        """subclass the object's class with harness methods (stubs of collaborators)"""
        obj.cls = ClassVal(obj.cls.name + 'UnderTest', [obj.cls],
                           {k: nego.method(v) for k, v in methods.items()}, 'harness')
        return obj

    # ------------------------------------------------------------------ acceptor: refusal
    def establish(p, refuse):
        label = 'asceprovider.AssociationAcceptor._establish[%s]' % ('refused' if refuse else 'accepted')
        ob = obl(p, label)
        cfg = nego.install_cfg(it)
        rq = Opaque('A-ASSOCIATE-RQ')
        me = nego.new_acceptor(it, cfg, 16384)
        me.fields['dul'] = nego.new_dul(it, [rq])
        triple = (byte(p, 'result'), byte(p, 'source'), byte(p, 'diagnostic'))
        seen = []

        def on_request(it2, a, kw):
            seen.append(tuple(a[1:]))
            if refuse:
                raise Raised(it2.instantiate(REJ, list(triple), {}))
        me.fields['ae'].cls = ClassVal('AEUnderTest', [me.fields['ae'].cls],
                                       {'on_association_request': nego.method(on_request)}, 'harness')
        accepted = []
        with_methods(me, accept=lambda it2, a, kw: accepted.append(a[1]))
        raised = None
        try:
            it.call(Acc.lookup('_establish')[0], [me], {})
        except Raised as r:
            raised = r.exc
        sent = nego.dul_sends(p)
        ob('application-consulted-once-with-the-request', len(seen) == 1 and seen[0][0] is me and seen[0][1] is rq)
        if refuse:
            ok = len(sent) == 1 and isinstance(sent[0], Obj) and sent[0].cls.name == 'AAssociateRjPDU'
            ob('one-a-associate-rj', ok)
            if ok:
                ob('rj-result', eq(sent[0].fields['result'], triple[0]))
                ob('rj-source', eq(sent[0].fields['source'], triple[1]))
                ob('rj-reason', eq(sent[0].fields['reason_diag'], triple[2]))
            ob('refusal-propagates', raised is not None and raised.cls is REJ)
            ob('accept-not-reached', not accepted)
            ob('not-established', me.fields['association_established'] is False)
        else:
            ob('no-error', raised is None)
            ob('accepted-once', len(accepted) == 1 and accepted[0] is rq)
            ob('nothing-but-the-acceptance-sent', len(sent) == 0)
            ob('established', me.fields['association_established'] is True)
        p.outcome = 'normal'
    for refuse in (True, False):
        lab = 'asceprovider.AssociationAcceptor._establish[%s]' % ('refused' if refuse else 'accepted')
        ctx.add_exploration(lab, lambda p, refuse=refuse: establish(p, refuse), res,
                            target='asceprovider.AssociationAcceptor._establish')

    def handle(p, outcome):
        label = 'asceprovider.AssociationAcceptor.handle[%s]' % outcome
        ob = obl(p, label)
        cfg = nego.install_cfg(it)
        me = nego.new_acceptor(it, cfg, 16384)
        calls = []

        def _establish(it2, a, kw):
            calls.append('establish')
            if outcome == 'refused':
                raise Raised(it2.instantiate(REJ, [1, 1, 1], {}))

        def _loop(it2, a, kw):
            calls.append('loop')
            if outcome == 'released':
                raise Raised(it2.instantiate(REL, [], {}))
            if outcome == 'aborted':
                raise Raised(it2.instantiate(ABO, [byte(it2.p, 's'), byte(it2.p, 'r')], {}))
        with_methods(me, _establish=_establish, _loop=_loop, kill=lambda it2, a, kw: calls.append('kill'))
        raised = None
        try:
            it.call(Acc.lookup('handle')[0], [me], {})
        except Raised as r:
            raised = r.exc
        sent = nego.dul_sends(p)
        ob('provider-stopped-exactly-once', calls.count('kill') == 1 and calls[-1] == 'kill')
        if outcome == 'refused':
            ob('no-service-on-a-refused-association', 'loop' not in calls)
        else:
            ob('serves-after-establishment', calls[:2] == ['establish', 'loop'])
        if outcome == 'released':
            ok = len(sent) == 1 and isinstance(sent[0], Obj) and sent[0].cls.name == 'AReleaseRpPDU'
            ob('release-is-confirmed', ok and raised is None)
        if outcome == 'aborted':
            ob('peer-abort-ends-quietly', raised is None and not sent)
        p.outcome = 'normal'
    for outcome in ('refused', 'released', 'aborted'):
        lab = 'asceprovider.AssociationAcceptor.handle[%s]' % outcome
        ctx.add_exploration(lab, lambda p, outcome=outcome: handle(p, outcome), res,
                            target='asceprovider.AssociationAcceptor.handle')

    # ------------------------------------------------------------------ what each side puts on the wire
    def wire(p, which):
        label = 'asceprovider.%s' % which
        ob = obl(p, label)
        cfg = nego.install_cfg(it)
        killed = []
        if which.startswith('AssociationAcceptor'):
            me = nego.new_acceptor(it, cfg, 16384)
        else:
            me = nego.new_requester(it, cfg, 16384, [], DictVal(), DictVal())
        reply = Opaque('A-RELEASE-RP')
        me.fields['dul'] = nego.new_dul(it, [reply])
        with_methods(me, kill=lambda it2, a, kw: killed.append(len(nego.dul_sends(it2.p))))
        v = [byte(p, 'a'), byte(p, 'b'), byte(p, 'c')]
        name = which.split('.')[1]
        try:
            if name == 'reject':
                it.call(it.getattr(me, 'reject'), v, {})
            elif name == 'abort':
                it.call(it.getattr(me, 'abort'), v[:1], {})
            else:
                r = it.call(it.getattr(me, 'release'), [], {})
        except Raised as e:
            ob('noexc', False, exception=e.exc.cls.name)
            p.outcome = 'normal'
            return
        sent = nego.dul_sends(p)
        kind = {'reject': 'AAssociateRjPDU', 'abort': 'AAbortPDU', 'release': 'AReleaseRqPDU'}[name]
        ok = len(sent) == 1 and isinstance(sent[0], Obj) and sent[0].cls.name == kind
        ob('one-pdu-of-the-right-kind', ok)
        if ok and name == 'reject':
            ob('values', z3.And(eq(sent[0].fields['result'], v[0]), eq(sent[0].fields['source'], v[1]),
                                eq(sent[0].fields['reason_diag'], v[2])))
        if ok and name == 'abort':
            ob('reason', eq(sent[0].fields['reason_diag'], v[0]))
            ob('source', eq(sent[0].fields['source'], 2 if which.startswith('AssociationAcceptor') else 0))
        if name in ('abort', 'release'):
            ob('provider-stopped-after-the-pdu-was-handed-over', killed == [1])
        if name == 'release':
            ob('returns-the-confirmation', r is reply)
        p.outcome = 'normal'
    for which in ('AssociationAcceptor.reject', 'AssociationAcceptor.abort', 'AssociationRequester.abort',
                  'AssociationRequester.release'):
        lab = 'asceprovider.%s' % which
        tgt = 'asceprovider.Association.release' if which.endswith('release') else lab
        ctx.add_exploration(lab, lambda p, which=which: wire(p, which), res, target=tgt)

    # ------------------------------------------------------------------ what each side makes of a received PDU
    def pdu_of(p, kind):
        if kind == 'rj':
            v = [byte(p, 'result'), byte(p, 'source'), byte(p, 'reason')]
            return it.instantiate(pm.attrs['AAssociateRjPDU'], v, {}), v
        if kind == 'abort':
            v = [byte(p, 'source'), byte(p, 'reason')]
            return it.instantiate(pm.attrs['AAbortPDU'], v, {}), v
        if kind == 'release-rq':
            return it.instantiate(pm.attrs['AReleaseRqPDU'], [], {}), []
        if kind == 'release-rp':
            return it.instantiate(pm.attrs['AReleaseRpPDU'], [], {}), []
        return it.instantiate(pm.attrs['AAssociateAcPDU'], [], {'called_ae_title': 'A', 'calling_ae_title': 'B',
                                                               'variable_items': []}), []

    def check_error(ob, raised, kind, v):
        if kind == 'rj':
            ok = raised is not None and raised.cls is REJ
            ob('rejection-error', ok)
            if ok:
                ob('rejection-values-unchanged', z3.And(eq(raised.fields['result'], v[0]), eq(raised.fields['source'], v[1]),
                                                        eq(raised.fields['diagnostic'], v[2])))
        elif kind == 'abort':
            ok = raised is not None and raised.cls is ABO
            ob('abort-error', ok)
            if ok:
                ob('abort-values-unchanged', z3.And(eq(raised.fields['source'], v[0]), eq(raised.fields['reason_diag'], v[1])))
        elif kind == 'release-rq':
            ob('release-error', raised is not None and raised.cls is REL)

    def handle_errors(p, kind):
        label = 'asceprovider.Association._handle_errors[%s]' % kind
        ob = obl(p, label)
        pdu_, v = pdu_of(p, kind)
        raised = None
        try:
            it.call(Base.lookup('_handle_errors')[0], [pdu_], {})
        except Raised as r:
            raised = r.exc
        check_error(ob, raised, kind, v)
        if kind in ('release-rp', 'ac'):
            ob('no-error-for-other-pdus', raised is None)
        p.outcome = 'normal'

    def get_dul_message(p, kind):
        label = 'asceprovider.Association._get_dul_message[%s]' % kind
        ob = obl(p, label)
        cfg = nego.install_cfg(it)
        me = nego.new_requester(it, cfg, 16384, [], DictVal(), DictVal())
        if kind == 'message':
            item, v = (Opaque('message'), p.fresh_int('pc')), []
        else:
            item, v = pdu_of(p, kind)
        me.fields['dul'] = nego.new_dul(it, [item])
        raised, r = None, None
        try:
            r = it.call(it.getattr(me, 'receive'), [], {})
        except Raised as e:
            raised = e.exc
        if kind == 'message':
            ob('message-returned-as-received', raised is None and r is item)
        else:
            ob('never-returns-a-pdu-as-a-message', raised is not None)
            check_error(ob, raised, kind, v)
            if kind in ('release-rp', 'ac'):
                ob('unexpected-pdu-is-a-library-error', raised is not None and raised.cls is exc.attrs['NetDICOMError'])
        p.outcome = 'normal'
    for kind in ('rj', 'abort', 'release-rq', 'release-rp', 'ac'):
        lab = 'asceprovider.Association._handle_errors[%s]' % kind
        ctx.add_exploration(lab, lambda p, kind=kind: handle_errors(p, kind), res,
                            target='asceprovider.Association._handle_errors')
    for kind in ('message', 'rj', 'abort', 'release-rq', 'release-rp'):
        lab = 'asceprovider.Association._get_dul_message[%s]' % kind
        ctx.add_exploration(lab, lambda p, kind=kind: get_dul_message(p, kind), res,
                            target='asceprovider.Association._get_dul_message')

    def request_rejected(p, kind):
        label = 'asceprovider.AssociationRequester._request[%s reply]' % kind
        ob = obl(p, label)
        cfg = nego.install_cfg(it)
        table, items, tsseq = nego.context_table(it, cfg)
        pdu_, v = pdu_of(p, kind)
        remote = DictVal([('key', 'aet', p.fresh('remote_aet', smt.Str)), ('key', 'address', p.fresh('address', smt.Str)),
                          ('key', 'port', p.fresh_int('port'))])
        local = DictVal([('key', 'aet', p.fresh('local_aet', smt.Str))])
        me = nego.new_requester(it, cfg, 16384, [pdu_], table, remote)
        raised = None
        try:
            it.call(Req.lookup('_request')[0], [me, local, remote], {})
        except Raised as e:
            raised = e.exc
        check_error(ob, raised, kind, v)
        ob('no-context-becomes-usable', not me.fields['accepted_contexts'].entries and
           not me.fields['sop_classes_as_scu'].entries)
        p.outcome = 'normal'
    for kind in ('rj', 'abort'):
        lab = 'asceprovider.AssociationRequester._request[%s reply]' % kind
        ctx.add_exploration(lab, lambda p, kind=kind: request_rejected(p, kind), res,
                            target='asceprovider.AssociationRequester._request')

    # ------------------------------------------------------------------ the requesting context manager
    def request_association(p, scenario):
        label = 'applicationentity.AEBase.request_association[%s]' % scenario
        ob = obl(p, label)
        calls = []
        EX = it.builtins['Exception']
        state = {}

        def a_init(it2, a, kw):
            me = a[0]
            me.fields['association_established'] = False
            state['assoc'] = me
            calls.append(('new', a[1], a[2], a[3]))

        def a_request(it2, a, kw):
            calls.append('request')
            if scenario == 'request-fails':
                raise Raised(it2.instantiate(REJ, [1, 1, 1], {}))
            a[0].fields['association_established'] = True

        def rec(name):
            return lambda it2, a, kw: calls.append(name)
        stub = ClassVal('AssociationRequester', [it.builtins['object']],
                        {'__init__': nego.method(a_init), 'request': nego.method(a_request),
                         'release': nego.method(rec('release')), 'abort': nego.method(rec('abort')),
                         'kill': nego.method(rec('kill'))}, 'harness')
        real_requester = Req
        asc.attrs['AssociationRequester'] = stub      # restored below: module state is shared between paths
        ae = Obj(aem.attrs['AEBase'])
        ae.fields['max_pdu_length'] = p.fresh_int('max')
        remote = Opaque('remote_ae')
        body_ran = []

        def body(v):
            body_ran.append(v)
            if scenario == 'body-raises':
                raise Raised(it.instantiate(EX, ['application error'], {}))
            if scenario == 'peer-aborts-in-body':
                raise Raised(it.instantiate(ABO, [byte(p, 's'), byte(p, 'r')], {}))
            if scenario == 'released-in-body':
                # the application released the association itself
                state['assoc'].fields['association_established'] = False
        raised = None
        try:
            cm = it.call(aem.attrs['AEBase'].lookup('request_association')[0], [ae, remote], {})
            it.run_generator(cm, body)
        except Raised as e:
            raised = e.exc
        finally:
            asc.attrs['AssociationRequester'] = real_requester
        fin = [c for c in calls if c in ('release', 'abort', 'kill')]
        new = [c for c in calls if isinstance(c, tuple)]
        ob('one-association-for-this-entity-and-peer', len(new) == 1 and new[0][1] is ae and new[0][3] is remote and
           new[0][2] is ae.fields['max_pdu_length'])
        if scenario == 'normal':
            ob('block-entered-with-the-association', body_ran == [state.get('assoc')])
            ob('normal-exit-releases-exactly-once', fin == ['release'] and raised is None)
        elif scenario in ('body-raises', 'peer-aborts-in-body'):
            ob('error-exit-aborts-exactly-once', fin == ['abort'])
            ob('error-is-re-raised', raised is not None and
               raised.cls is (EX if scenario == 'body-raises' else ABO))
        elif scenario == 'released-in-body':
            ob('already-released-association-is-only-stopped', fin == ['kill'] and raised is None)
        else:
            ob('block-not-entered', not body_ran)
            ob('failed-request-is-only-stopped', fin == ['kill'])
            ob('refusal-reaches-the-caller', raised is not None and raised.cls is REJ)
        p.outcome = 'normal'
    for scenario in ('normal', 'body-raises', 'peer-aborts-in-body', 'released-in-body', 'request-fails'):
        lab = 'applicationentity.AEBase.request_association[%s]' % scenario
        ctx.add_exploration(lab, lambda p, scenario=scenario: request_association(p, scenario), res2,
                            target='applicationentity.AEBase.request_association')

    from .. import replay as _replay

    def replayer(ctx2, ob, model):
        return _replay.run_native('c14.py', {'obligation': ob.name}, timeout=300)
    ctx.replayers['*'] = replayer
    ctx.native_crosschecks.append(('c14.py', {'obligation': ''}, 'rejection / abort values and context-manager scenarios'))
    ctx.assumptions += [
        'the PDUs travel by the codec (C01: decode(encode(v)) == v for all field values) and the state machine (C04: '
        'A-ASSOCIATE-RJ, A-ABORT and A-RELEASE PDUs are handed to the local user in the states where the standard '
        'says so); this property composes them with the clauses here',
        'collaborators are stubbed per function (provider queue, application callbacks, the association class inside '
        'request_association): each function is checked against the contracts of what it calls',
        'field values range over 0..255 (one byte on the wire)',
        'the order "PDU handed to the provider, then provider stopped" is checked; that the provider thread transmits '
        'the queued PDU before it honours the stop request is a scheduling matter (C13 / C20, not claimed)',
    ]
