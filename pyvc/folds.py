"""Symbolic sequences of packed elements: indexing, skolemised slices, and the MAP / JOIN / SUM
combinators (uninterpreted per mapped function) with ground lemma instances."""
import ast
import z3
from . import smt
from .values import (Unsupported, Obj, ListVal, SeqVal, Packed, IterSource, FuncVal, PropertyVal,
                     BoundMethod, int_term, is_intlike)
from .pack import to_term, from_term


def list_to_seq(it, lv, elem):
    return SeqVal(to_term(it, lv, 'Seq[%s]' % elem), elem)


def seq_len(sv):
    n = smt.as_concrete_int(z3.Length(sv.term))
    return n if n is not None else z3.Length(sv.term)


def seq_index(it, sv, i):
    p = it.p
    ln = z3.Length(sv.term)
    ti = int_term(i)
    if isinstance(i, int) and i < 0:
        idx = ln + i
    elif smt.is_z3(i):
        idx = z3.If(ti < 0, ln + ti, ti)
    else:
        idx = ti
    idx = z3.simplify(idx)
    if p.branch(z3.Or(idx < 0, idx >= ln)):
        it.raise_exc('IndexError', 'list index out of range')
    el = z3.simplify(sv.term[idx])
    return from_term(it, el, sv.elem)


def seq_split(it, sv, n):
    """(h, r): sv == h ++ r, |h| == clamp(n, 0, |sv|); registers fold lemmas for the split."""
    p = it.p
    st = sv.term
    nt = int_term(n)
    cache = p.ghost.setdefault('_seqsplits', {})
    key = (st.get_id(), z3.simplify(nt).get_id())
    if key in cache:
        return cache[key]
    cn = smt.as_concrete_int(nt)
    if cn is not None and cn <= 0:
        res = (SeqVal(z3.Empty(st.sort()), sv.elem), sv)
        cache[key] = res
        return res
    h = p.fresh('sh', st.sort())
    r = p.fresh('sr', st.sort())
    ln = z3.Length(st)
    p.assume(st == z3.Concat(h, r))
    p.assume(z3.Length(h) == z3.If(nt <= 0, 0, z3.If(nt <= ln, nt, ln)))
    p.ghost.setdefault('_seq_decomps', []).append((st, h, r))
    for fold in list(p.ghost.get('_folds', {}).values()):
        fold.instantiate_split(it, st, h, r)
    res = (SeqVal(h, sv.elem), SeqVal(r, sv.elem))
    cache[key] = res
    return res


def seq_slice(it, sv, lo, hi):
    p = it.p
    ln = z3.Length(sv.term)

    def norm(x):
        if x is None:
            return None
        if isinstance(x, int):
            return x if x >= 0 else z3.If(ln + x < 0, 0, ln + x)
        t = int_term(x)
        if p.must(t >= 0):
            return t
        return z3.If(t < 0, z3.If(ln + t < 0, 0, ln + t), t)
    lo_, hi_ = norm(lo), norm(hi)
    rest = sv
    if lo_ is not None and not (isinstance(lo_, int) and lo_ == 0):
        _, rest = seq_split(it, sv, lo_)
    if hi_ is None:
        return rest
    if lo_ is None or (isinstance(lo_, int) and lo_ == 0):
        width = hi_
    else:
        width = z3.simplify(int_term(hi_) - z3.If(int_term(lo_) <= ln, int_term(lo_), ln))
    h, _ = seq_split(it, rest, width)
    return h


# ----------------------------------------------------------------------- method symbols
def member_attr(it, rec, name):
    a, owner = rec.cls.lookup(name)
    if owner is None:
        raise Unsupported('%s has no attribute %s' % (rec.key, name))
    return a


def method_result_desc(it, desc, name):
    res = None
    for rec in it.types.members_of(desc):
        a = member_attr(it, rec, name)
        fv = a.fget if isinstance(a, PropertyVal) else a
        if not isinstance(fv, FuncVal):
            raise Unsupported('%s.%s is not a method/property' % (rec.key, name))
        c = it.contracts.get(fv.qualname)
        d = c.result_type if c is not None else None
        if d is None:
            d = it.hooks.get('default_result_types', {}).get(name)
        if d is None:
            raise Unsupported('no result type declared for %s (needed for fold over %s)' % (fv.qualname, desc))
        if res is not None and res != d:
            raise Unsupported('result types of %s differ within %s' % (name, desc))
        res = d
    return res


def method_symbol(it, desc, name):
    key = (desc, name)
    syms = it.p.fn_symbols
    if key not in syms:
        rdesc = method_result_desc(it, desc, name)
        f = z3.Function('%s.%s' % (desc.split('.')[-1], name), it.types.sort_of(desc), it.types.sort_of(rdesc))
        syms[key] = (f, rdesc)
    return syms[key]


def call_member(it, obj, name):
    """obj.name or obj.name() depending on whether name is a property"""
    a, owner = obj.cls.lookup(name)
    if isinstance(a, PropertyVal):
        return it.call(a.fget, [obj], {})
    return it.call(BoundMethod(obj, a), [], {})


def expand_app(it, desc, name, elem_term):
    """Assume  f(elem) == <value of the real member on the unpacked element> (case split)."""
    f, rdesc = method_symbol(it, desc, name)
    done = it.p.ghost.setdefault('_expanded', set())
    key = (desc, name, elem_term.get_id())
    if key in done:
        return
    done.add(key)
    from .pack import unpack
    obj = unpack(it, Packed(elem_term, desc))
    val = call_member(it, obj, name)
    it.p.assume(f(elem_term) == to_term(it, val, rdesc))


class Fold(object):
    """JOIN / SUM of an uninterpreted per-element function over a sequence."""

    def __init__(self, it, kind, desc, name):
        self.kind = kind
        self.desc = desc
        self.name = name
        self.f, self.rdesc = method_symbol(it, desc, name)
        seq_sort = z3.SeqSort(it.types.sort_of(desc))
        if kind == 'JOIN':
            if self.rdesc != 'bytes':
                raise Unsupported('JOIN over non-bytes member %s' % name)
            self.F = z3.Function('JOIN_%s.%s' % (desc.split('.')[-1], name), seq_sort, smt.Bytes)
        elif kind == 'SUM':
            if self.rdesc != 'int':
                raise Unsupported('SUM over non-int member %s' % name)
            self.F = z3.Function('SUM_%s.%s' % (desc.split('.')[-1], name), seq_sort, smt.Int)
        else:
            raise Unsupported('fold kind %s' % kind)
        self.applied = []

    def neutral(self):
        return z3.Empty(smt.Bytes) if self.kind == 'JOIN' else z3.IntVal(0)

    def combine(self, a, b):
        return z3.Concat(a, b) if self.kind == 'JOIN' else a + b

    def apply(self, it, st):
        t = self.F(st)
        p = it.p
        key = st.get_id()
        if key in [x.get_id() for x in self.applied]:
            return t
        self.applied.append(st)
        ln = z3.Length(st)
        p.facts.add(z3.Implies(ln == 0, t == self.neutral()))
        p.facts.add(z3.Implies(ln == 1, t == self.f(st[0])))
        if self.kind == 'SUM':
            pass
        # syntactic concat / unit
        s = z3.simplify(st)
        if z3.is_app(s) and s.decl().kind() == z3.Z3_OP_SEQ_CONCAT:
            parts = [s.arg(i) for i in range(s.num_args())]
            acc = None
            for part in parts:
                ft = self.apply(it, part)
                acc = ft if acc is None else self.combine(acc, ft)
            p.facts.add(t == acc)
        elif z3.is_app(s) and s.decl().kind() == z3.Z3_OP_SEQ_UNIT:
            p.facts.add(t == self.f(s.arg(0)))
        elif z3.is_app(s) and s.decl().kind() == z3.Z3_OP_SEQ_EMPTY:
            p.facts.add(t == self.neutral())
        for (whole, h, r) in p.ghost.get('_seq_decomps', []):
            if whole.get_id() == st.get_id():
                self.instantiate_split(it, whole, h, r)
        return t

    def instantiate_split(self, it, whole, h, r):
        if whole.get_id() not in [x.get_id() for x in self.applied]:
            return
        p = it.p
        fh = self.apply(it, h)
        fr = self.apply(it, r)
        p.facts.add(self.F(whole) == self.combine(fh, fr))


def get_fold(it, kind, desc, name):
    folds = it.p.ghost.setdefault('_folds', {})
    key = (kind, desc, name)
    if key not in folds:
        folds[key] = Fold(it, kind, desc, name)
    return folds[key]


def _elt_member(node):
    """elt of a comprehension must be VAR.member or VAR.member(): returns member name"""
    g = node.generators[0]
    if len(node.generators) != 1 or g.ifs or not isinstance(g.target, ast.Name):
        raise Unsupported('comprehension over a symbolic sequence must be a plain single generator')
    var = g.target.id
    e = node.elt
    if isinstance(e, ast.Call) and not e.args and not e.keywords:
        e = e.func
    if isinstance(e, ast.Attribute) and isinstance(e.value, ast.Name) and e.value.id == var:
        return e.attr
    raise Unsupported('comprehension element over a symbolic sequence must be VAR.member[()]')


def map_over_seq(it, node, seqv, sub):
    name = _elt_member(node)
    return IterSource('seqmap', (node, seqv, sub, name))


def _seqmap_parts(src):
    node, seqv, sub = src.data[0], src.data[1], src.data[2]
    name = src.data[3] if len(src.data) > 3 else _elt_member(node)
    return seqv, name


def fold_sum(it, src):
    seqv, name = _seqmap_parts(src)
    return get_fold(it, 'SUM', seqv.elem, name).apply(it, seqv.term)


def fold_join(it, src):
    seqv, name = _seqmap_parts(src)
    return get_fold(it, 'JOIN', seqv.elem, name).apply(it, seqv.term)


def fold_join_seq(it, sv):
    raise Unsupported('join over a sequence of bytes values')


def seqmap_to_seq(it, src):
    raise Unsupported('materialising a mapped symbolic sequence')
