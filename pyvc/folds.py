"""Symbolic sequences of packed elements: indexing, skolemised slices, and the JOIN / SUM / ALL
combinators over an *element function* (a method or property of the element classes, or a
spec function), each an uninterpreted symbol with ground lemma instances:

    F([]) = neutral      F([x]) = f(x)      F(a ++ b) = F(a) (+) F(b)

f(x) itself is unfolded on demand (`expand_app`): case split over the element's constructor,
then the real member / spec function is evaluated on the unpacked element.
"""
import ast
import z3
from . import smt
from .values import (Unsupported, Obj, ListVal, SeqVal, Packed, IterSource, FuncVal, PropertyVal,
                     BoundMethod, int_term, is_intlike, bytes_term)
from .pack import to_term, from_term


def list_to_seq(it, lv, elem):
    return SeqVal(to_term(it, lv, 'Seq[%s]' % elem), elem)


def seq_len(sv):
    n = smt.as_concrete_int(z3.Length(sv.term))
    return n if n is not None else z3.Length(sv.term)


def seq_index(it, sv, i):
    p = it.p
    ln = z3.Length(sv.term)
    ti = int_term(i)
    if isinstance(i, int) and i < 0:
        idx = ln + i
    elif smt.is_z3(i):
        idx = z3.If(ti < 0, ln + ti, ti)
    else:
        idx = ti
    idx = z3.simplify(idx)
    if p.branch(z3.Or(idx < 0, idx >= ln)):
        it.raise_exc('IndexError', 'list index out of range')
    return from_term(it, elem_at(it, sv, idx), sv.elem)


def elem_at(it, sv, idx):
    """element term at a valid index, introduced by a skolemised decomposition (no seq.nth)"""
    p = it.p
    cache = p.ghost.setdefault('_elem_at', {})
    key = (sv.term.get_id(), z3.simplify(idx).get_id())
    if key in cache:
        return cache[key]
    s = z3.simplify(sv.term)
    ci = smt.as_concrete_int(idx)
    # literal sequences: pick the unit directly
    if ci is not None:
        units = _units(s)
        if units is not None and 0 <= ci < len(units):
            cache[key] = units[ci]
            return units[ci]
    e = p.fresh('el', sv.term.sort().basis())
    if ci == 0:
        head, rest = seq_split(it, sv, 1)
        p.assume(head.term == z3.Unit(e))
    else:
        a, b = seq_split(it, sv, idx)
        h2, _ = seq_split(it, b, 1)
        p.assume(h2.term == z3.Unit(e))
    cache[key] = e
    return e


def _units(s):
    """[elements] if s is syntactically a concatenation of units / a unit / empty, else None"""
    if z3.is_app(s) and s.decl().kind() == z3.Z3_OP_SEQ_UNIT:
        return [s.arg(0)]
    if z3.is_app(s) and s.decl().kind() == z3.Z3_OP_SEQ_EMPTY:
        return []
    if z3.is_app(s) and s.decl().kind() == z3.Z3_OP_SEQ_CONCAT:
        out = []
        for i in range(s.num_args()):
            u = _units(s.arg(i))
            if u is None:
                return None
            out.extend(u)
        return out
    return None


def seq_split(it, sv, n):
    """(h, r): sv == h ++ r, |h| == clamp(n, 0, |sv|); registers fold lemmas for the split."""
    p = it.p
    st = sv.term
    nt = int_term(n)
    cache = p.ghost.setdefault('_seqsplits', {})
    key = (st.get_id(), z3.simplify(nt).get_id())
    if key in cache:
        return cache[key]
    cn = smt.as_concrete_int(nt)
    if cn is not None and cn <= 0:
        res = (SeqVal(z3.Empty(st.sort()), sv.elem), sv)
        cache[key] = res
        return res
    h = p.fresh('sh', st.sort())
    r = p.fresh('sr', st.sort())
    ln = z3.Length(st)
    p.assume(st == z3.Concat(h, r))
    p.assume(z3.Length(h) == z3.If(nt <= 0, 0, z3.If(nt <= ln, nt, ln)))
    p.ghost.setdefault('_seq_decomps', []).append((st, h, r))
    for fold in list(p.ghost.get('_folds', {}).values()):
        fold.instantiate_split(it, st, h, r)
    res = (SeqVal(h, sv.elem), SeqVal(r, sv.elem))
    cache[key] = res
    return res


def seq_slice(it, sv, lo, hi):
    p = it.p
    ln = z3.Length(sv.term)

    def norm(x):
        if x is None:
            return None
        if isinstance(x, int):
            return x if x >= 0 else z3.If(ln + x < 0, 0, ln + x)
        t = int_term(x)
        if p.must(t >= 0):
            return t
        return z3.If(t < 0, z3.If(ln + t < 0, 0, ln + t), t)
    lo_, hi_ = norm(lo), norm(hi)
    rest = sv
    if lo_ is not None and not (isinstance(lo_, int) and lo_ == 0):
        _, rest = seq_split(it, sv, lo_)
    if hi_ is None:
        return rest
    if lo_ is None or (isinstance(lo_, int) and lo_ == 0):
        width = hi_
    else:
        width = z3.simplify(int_term(hi_) - z3.If(int_term(lo_) <= ln, int_term(lo_), ln))
    h, _ = seq_split(it, rest, width)
    return h


# ----------------------------------------------------------------------- element functions
class ElemFn(object):
    """A function of one element of a record/family: member ('encode') or spec function."""

    def __init__(self, desc, name, rdesc, spec_fn=None):
        self.desc = desc
        self.name = name
        self.rdesc = rdesc
        self.spec_fn = spec_fn   # FuncVal for spec functions, None for members
        self.symbol = None

    @property
    def key(self):
        return (self.desc, self.name)

    def sym(self, it):
        syms = it.p.fn_symbols
        if self.key not in syms:
            syms[self.key] = z3.Function('%s.%s' % (self.desc.split('.')[-1], self.name.lstrip('@')),
                                         it.types.sort_of(self.desc), it.types.sort_of(self.rdesc))
        return syms[self.key]

    def evaluate(self, it, obj):
        if self.spec_fn is not None:
            return it.call(self.spec_fn, [obj], {})
        a, owner = obj.cls.lookup(self.name)
        if owner is None:
            raise Unsupported('%s has no member %s' % (obj.cls.name, self.name))
        if isinstance(a, PropertyVal):
            return it.call(a.fget, [obj], {})
        return it.call(BoundMethod(obj, a), [], {})


DEFAULT_RESULT = {'encode': 'bytes', 'total_length': 'int', 'item_length': 'int', 'pdu_length': 'int'}


def member_fn(it, desc, name):
    reg = it.hooks.setdefault('_elem_fns', {})
    key = (desc, name)
    if key not in reg:
        rdesc = None
        for rec in it.types.members_of(desc):
            a, owner = rec.cls.lookup(name)
            if owner is None:
                raise Unsupported('%s has no attribute %s' % (rec.key, name))
            fv = a.fget if isinstance(a, PropertyVal) else a
            c = it.contracts.get(fv.qualname) if isinstance(fv, FuncVal) else None
            d = c.result_type if c is not None and c.result_type else DEFAULT_RESULT.get(name)
            if d is None:
                raise Unsupported('no result type known for member %s of %s' % (name, rec.key))
            if rdesc is not None and rdesc != d:
                raise Unsupported('result types of %s differ within %s' % (name, desc))
            rdesc = d
        reg[key] = ElemFn(desc, name, rdesc)
    return reg[key]


def spec_fn(it, desc, fv, rdesc):
    reg = it.hooks.setdefault('_elem_fns', {})
    key = (desc, '@' + fv.qualname)
    if key not in reg:
        reg[key] = ElemFn(desc, '@' + fv.qualname, rdesc, fv)
    return reg[key]


def expand_app(it, ef, elem_term):
    """Assume  f(elem) == <value of the real member / spec function on the unpacked element>."""
    f = ef.sym(it)
    done = it.p.ghost.setdefault('_expanded', set())
    key = (ef.key, elem_term.get_id())
    if key in done:
        return
    done.add(key)
    from .pack import unpack
    obj = unpack(it, Packed(elem_term, ef.desc))
    from .values import Raised
    try:
        val = ef.evaluate(it, obj)
    except Raised as r:
        # the real function is partial: where it raises nothing is learnt about f(elem)
        import os
        if os.environ.get('PYVC_DEBUG'):
            print('expand_app: %s raised %s %r' % (ef.name, r.exc.cls.name, r.exc.fields.get('args')))
        if ef.spec_fn is None:
            # f = a real member (encode, total_length): a fold F[f](xs) over a sequence containing
            # this element was computed by real code, which would have raised as well -- such
            # sequences are outside the domain of the values that can be built and encoded
            from .values import PathEnd
            raise PathEnd('element function %s raises %s here: outside the domain' % (ef.name, r.exc.cls.name))
        raise Unsupported('spec function %s raised %s' % (ef.name, r.exc.cls.name))
    if ef.rdesc == 'bool':
        t = z3.BoolVal(val) if isinstance(val, bool) else val
    else:
        t = to_term(it, val, ef.rdesc)
    it.p.assume(f(elem_term) == t)


class Fold(object):
    def __init__(self, it, kind, ef):
        self.kind = kind
        self.ef = ef
        self.f = ef.sym(it)
        seq_sort = z3.SeqSort(it.types.sort_of(ef.desc))
        want = {'JOIN': 'bytes', 'SUM': 'int', 'ALL': 'bool'}[kind]
        if ef.rdesc != want:
            raise Unsupported('%s over a %s-valued element function %s' % (kind, ef.rdesc, ef.name))
        rsort = {'JOIN': smt.Bytes, 'SUM': smt.Int, 'ALL': smt.Bool}[kind]
        self.F = z3.Function('%s_%s.%s' % (kind, ef.desc.split('.')[-1], ef.name.lstrip('@')), seq_sort, rsort)
        self.applied = {}

    def neutral(self):
        return {'JOIN': z3.Empty(smt.Bytes), 'SUM': z3.IntVal(0), 'ALL': z3.BoolVal(True)}[self.kind]

    def combine(self, a, b):
        if self.kind == 'JOIN':
            return z3.Concat(a, b)
        if self.kind == 'SUM':
            return a + b
        return z3.And(a, b)

    def apply(self, it, st):
        t = self.F(st)
        p = it.p
        key = st.get_id()
        if key in self.applied:
            return t
        self.applied[key] = st
        ln = z3.Length(st)
        p.facts.add(z3.Implies(ln == 0, t == self.neutral()))
        p.facts.add(z3.Implies(ln == 1, t == self.f(st[0])))
        s = z3.simplify(st)
        if z3.is_app(s) and s.decl().kind() == z3.Z3_OP_SEQ_CONCAT:
            acc = None
            for i in range(s.num_args()):
                ft = self.apply(it, s.arg(i))
                acc = ft if acc is None else self.combine(acc, ft)
            p.facts.add(t == acc)
        elif z3.is_app(s) and s.decl().kind() == z3.Z3_OP_SEQ_UNIT:
            p.facts.add(t == self.f(s.arg(0)))
        elif z3.is_app(s) and s.decl().kind() == z3.Z3_OP_SEQ_EMPTY:
            p.facts.add(t == self.neutral())
        for (whole, h, r) in p.ghost.get('_seq_decomps', []):
            if whole.get_id() == key:
                self.instantiate_split(it, whole, h, r)
        for lem in it.hooks.get('_fold_lemmas', []):
            lem.on_apply(it, self, st)
        return t

    def instantiate_split(self, it, whole, h, r):
        if whole.get_id() not in self.applied:
            return
        fh = self.apply(it, h)
        fr = self.apply(it, r)
        eq = self.F(whole) == self.combine(fh, fr)
        it.p.facts.add(eq)
        if self.kind == 'JOIN':
            it.p.note_def(eq)


def get_fold(it, kind, ef):
    folds = it.p.ghost.setdefault('_folds', {})
    key = (kind,) + ef.key
    if key not in folds:
        folds[key] = Fold(it, kind, ef)
    return folds[key]


def reveal_head(it, sv, efs):
    """Case split on `sv` empty / non-empty; in the non-empty case split off the head element,
    instantiate every fold on the decomposition and unfold the given element functions on the
    head.  Returns the head as a Packed value (or None when empty)."""
    p = it.p
    if p.branch(z3.Length(sv.term) == 0):
        for fold in list(p.ghost.get('_folds', {}).values()):
            if fold.ef.desc == sv.elem:
                fold.apply(it, sv.term)
        return None
    head, rest = seq_split(it, sv, 1)
    y = elem_at(it, sv, z3.IntVal(0))
    for fold in list(p.ghost.get('_folds', {}).values()):
        if fold.ef.desc == sv.elem:
            fold.apply(it, sv.term)
            fold.apply(it, head.term)
            fold.apply(it, rest.term)
            fold.instantiate_split(it, sv.term, head.term, rest.term)
            # head == [y]:  F(head) = f(y)
            unit_eq = fold.F(head.term) == fold.f(y)
            p.facts.add(unit_eq)
            if fold.kind == 'JOIN':
                p.note_def(unit_eq, force=True)
    for ef in efs:
        expand_app(it, ef, y)
    return Packed(y, sv.elem)


# ----------------------------------------------------------------------- comprehensions
def _elt_member(node):
    g = node.generators[0]
    if len(node.generators) != 1 or g.ifs or not isinstance(g.target, ast.Name):
        raise Unsupported('comprehension over a symbolic sequence must be a plain single generator')
    var = g.target.id
    e = node.elt
    if isinstance(e, ast.Call) and not e.args and not e.keywords:
        e = e.func
    if isinstance(e, ast.Attribute) and isinstance(e.value, ast.Name) and e.value.id == var:
        return e.attr
    raise Unsupported('comprehension element over a symbolic sequence must be VAR.member[()]')


def map_over_seq(it, node, seqv, sub):
    try:
        name = _elt_member(node)
    except Unsupported:
        # not a plain VAR.member projection: a pointwise-defined sequence
        return seqmap_to_seq(it, IterSource('genexpr0', (node, seqv, sub)))
    return IterSource('seqmap', (node, seqv, sub, name))


def _seqmap_parts(src):
    node, seqv = src.data[0], src.data[1]
    name = src.data[3] if len(src.data) > 3 else _elt_member(node)
    return seqv, name


def fold_sum(it, src):
    seqv, name = _seqmap_parts(src)
    return get_fold(it, 'SUM', member_fn(it, seqv.elem, name)).apply(it, seqv.term)


def fold_join(it, src):
    seqv, name = _seqmap_parts(src)
    return get_fold(it, 'JOIN', member_fn(it, seqv.elem, name)).apply(it, seqv.term)


class _IdentityBytesFn(object):
    """element function of b''.join(xs) over a sequence of bytes values: the element itself"""
    desc = 'bytes'
    name = '@identity'
    rdesc = 'bytes'
    spec_fn = None
    key = ('bytes', '@identity')

    def sym(self, it):
        return lambda t: t


def fold_join_seq(it, sv):
    """b''.join(xs) for a symbolic sequence xs of bytes values: the JOIN fold with the identity as
    element function (JOINB([]) = b'', JOINB([x]) = x, JOINB(a ++ b) = JOINB(a) ++ JOINB(b))"""
    if sv.elem != 'bytes':
        raise Unsupported('join over a sequence of %s values' % sv.elem)
    return get_fold(it, 'JOIN', _IdentityBytesFn()).apply(it, sv.term)


def seqmap_to_seq(it, src):
    """[elt(x) for x in xs] / list(elt(x) for x in xs) over a symbolic sequence xs: a fresh sequence
    ys with |ys| == |xs|, defined pointwise -- ys[i] == elt(xs[i]) is assumed for the indices a
    specification asks about (`map_instance`).  The element type of ys is found by evaluating
    elt once on an arbitrary sample element."""
    node, xs, sub = src.data[0], src.data[1], src.data[2]
    g = node.generators[0]
    if len(node.generators) != 1 or g.ifs:
        raise Unsupported('materialising a filtered / nested comprehension over a symbolic sequence')
    p = it.p
    sample = from_term(it, p.fresh('sample', it.types.sort_of(xs.elem)), xs.elem)
    fr = it.comp_frame(sub)
    it.assign(g.target, sample, fr)
    v = it.eval(node.elt, fr)
    if isinstance(v, Obj):
        rec = it.types.record_of_class(v.cls)
        if rec is None:
            raise Unsupported('mapped sequence of %s objects (no record type)' % v.cls.name)
        elem = rec.key
    elif smt.is_str_term(v) or isinstance(v, str):
        elem = 'str'
    elif is_intlike(v):
        elem = 'int'
    elif smt.is_bytes_term(v) or isinstance(v, bytes):
        elem = 'bytes'
    else:
        raise Unsupported('mapped sequence of %r' % (v,))
    ys = SeqVal(p.fresh('mapped', it.types.sort_of('Seq[%s]' % elem)), elem)
    p.assume(z3.Length(ys.term) == z3.Length(xs.term))
    p.ghost.setdefault('_mapped', {})[ys.term.get_id()] = (ys, node, xs, sub)
    return ys


def map_instance(it, ys, i):
    """for a sequence produced by seqmap_to_seq and an index 0 <= i < |ys| (the caller's
    obligation): evaluate the comprehension's element expression on xs[i], assume it is ys[i]
    and return (xs[i], the evaluated element)"""
    ent = it.p.ghost.get('_mapped', {}).get(ys.term.get_id())
    if ent is None:
        raise Unsupported('map_instance: not a mapped sequence')
    _, node, xs, sub = ent
    g = node.generators[0]
    x = from_term(it, elem_at(it, xs, int_term(i)), xs.elem)
    fr = it.comp_frame(sub)
    it.assign(g.target, x, fr)
    v = it.eval(node.elt, fr)
    it.p.assume(elem_at(it, ys, int_term(i)) == to_term(it, v, ys.elem))
    return x, v


# ----------------------------------------------------------------------- lemma schemas
class FoldLemma(object):
    """Inductive facts about folds, applied by the engine (structural induction over the
    sequence is part of the trusted base); the pointwise premise is a proof obligation
    generated by `premise_obligations`.

    kind 'len_of_join':  ALL[valid](xs) => SUM[g](xs) == |JOIN[f](xs)|     premise: valid(x) => g(x) == |f(x)|
    kind 'join_ext':     ALL[valid](xs) => JOIN[f1](xs) == JOIN[f2](xs)    premise: valid(x) => f1(x) == f2(x)
    kind 'sum_nonneg':   SUM[g](xs) >= 0                                    premise: g(x) >= 0
    """

    def __init__(self, kind, desc, names, valid=None, label=None):
        self.kind = kind
        self.desc = desc
        self.names = names      # element function keys (resolved lazily through resolver callables)
        self.valid = valid
        self.label = label or '%s(%s)' % (kind, ','.join(str(n) for n in names))

    def resolve(self, it):
        return [r(it) for r in self.names], (self.valid(it) if self.valid else None)

    def on_apply(self, it, fold, st):
        efs, valid = self.resolve(it)
        keys = [ef.key for ef in efs]
        if fold.ef.key not in keys:
            return
        p = it.p
        done = p.ghost.setdefault('_lemma_inst', set())
        k = (self.label, st.get_id())
        if k in done:
            return
        done.add(k)
        guard = z3.BoolVal(True)
        if valid is not None:
            guard = get_fold(it, 'ALL', valid).apply(it, st)
        if self.kind == 'len_of_join':
            f, g = efs
            J = get_fold(it, 'JOIN', f).apply(it, st)
            S = get_fold(it, 'SUM', g).apply(it, st)
            p.facts.add(z3.Implies(guard, S == z3.Length(J)))
        elif self.kind == 'join_ext':
            f1, f2 = efs
            J1 = get_fold(it, 'JOIN', f1).apply(it, st)
            J2 = get_fold(it, 'JOIN', f2).apply(it, st)
            p.facts.add(z3.Implies(guard, J1 == J2))
        elif self.kind == 'sum_nonneg':
            g, = efs
            S = get_fold(it, 'SUM', g).apply(it, st)
            p.facts.add(z3.Implies(guard, S >= 0))

    def premise(self, it, x_term):
        """the pointwise premise as a formula about element term x (after expansion)"""
        efs, valid = self.resolve(it)
        for ef in efs:
            expand_app(it, ef, x_term)
        hyp = z3.BoolVal(True)
        if valid is not None:
            expand_app(it, valid, x_term)
            hyp = valid.sym(it)(x_term)
        if self.kind == 'len_of_join':
            f, g = efs
            goal = g.sym(it)(x_term) == z3.Length(f.sym(it)(x_term))
        elif self.kind == 'join_ext':
            f1, f2 = efs
            goal = f1.sym(it)(x_term) == f2.sym(it)(x_term)
        else:
            g, = efs
            goal = g.sym(it)(x_term) >= 0
        return hyp, goal
