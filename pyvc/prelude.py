"""Spec prelude: names visible in contract expressions (spec mode only).  Each is a model
function over interpreter values; the executable twins used by native replay live in
/verif/spec/native_prelude.py."""
import ast
import z3
from . import smt, ops, dicts, bytesops
from .values import (Builtin, DictVal, Unsupported, Stream, SeqVal, ListVal, Obj, Packed,
                     int_term, bytes_term, is_intlike)


def install(it):
    pre = it.spec_prelude

    def reg(name):
        def deco(fn):
            pre[name] = Builtin('spec.' + name, fn)
            return fn
        return deco

    @reg('implies')
    def implies(it, args, kw):
        a, b = args
        fa = z3.BoolVal(a) if isinstance(a, bool) else a
        fb = z3.BoolVal(b) if isinstance(b, bool) else b
        if a is False or b is True:
            return True
        return z3.Implies(fa, fb)

    @reg('iff')
    def iff(it, args, kw):
        a, b = args
        fa = z3.BoolVal(a) if isinstance(a, bool) else a
        fb = z3.BoolVal(b) if isinstance(b, bool) else b
        return fa == fb

    @reg('exactly_one')
    def exactly_one(it, args, kw):
        terms = [int_term(z3.BoolVal(a) if isinstance(a, bool) else a) for a in args]
        return z3.Sum(*terms) == 1 if len(terms) > 1 else terms[0] == 1

    @reg('dict_range_update')
    def dict_range_update(it, args, kw):
        d, prefix, lo, hi, v = args
        dicts.dict_range_update(it, d, prefix, lo, hi, v)

    @reg('range_updated')
    def range_updated(it, args, kw):
        d, prefix, lo, hi, v = args
        n = d.copy()
        dicts.dict_range_update(it, n, prefix, lo, hi, v)
        return n

    @reg('dict_assign')
    def dict_assign(it, args, kw):
        """make dictionary object `d` hold exactly the bindings of `src` (same identity)"""
        d, src = args
        d.entries = list(src.entries)
        d.base = src.base
        d.cindex = None

    @reg('dict_copy')
    def dict_copy(it, args, kw):
        return args[0].copy()

    @reg('dict_equiv')
    def dict_equiv(it, args, kw):
        """extensional equality at a fresh (skolem) key of the given shape:
        dict_equiv(d1, d2, key) with key built from fresh symbols by the caller"""
        d1, d2, key = args
        f1, v1 = dicts.lookup(it, d1, key)
        f2, v2 = dicts.lookup(it, d2, key)
        if f1 != f2:
            return False
        if not f1:
            return True
        return ops.values_equal(it, v1, v2)

    @reg('fresh_int')
    def fresh_int(it, args, kw):
        return it.p.fresh_int(args[0] if args else 'k')

    @reg('fresh_bool')
    def fresh_bool(it, args, kw):
        return it.p.fresh(args[0] if args else 'b', smt.Bool)

    @reg('opaque_value')
    def opaque_value(it, args, kw):
        from .values import Opaque
        it.p.counter += 1
        return Opaque('%s!%d' % (args[0] if args else 'opaque', it.p.counter))

    @reg('byte_at')
    def byte_at(it, args, kw):
        b, i = args
        if isinstance(b, bytes):
            return b[i]
        return it.p.facts.byte_at(b, int_term(i))

    @reg('rem')
    def rem(it, args, kw):
        return args[0].rem

    @reg('consumed')
    def consumed(it, args, kw):
        return args[0].before

    @reg('pos')
    def pos(it, args, kw):
        return bytesops.blen(it, args[0].before)

    @reg('be1')
    def be1(it, args, kw):
        return it.p.facts.be(1, args[0])

    @reg('be2')
    def be2(it, args, kw):
        return it.p.facts.be(2, args[0])

    @reg('be4')
    def be4(it, args, kw):
        return it.p.facts.be(4, args[0])

    @reg('unbe1')
    def unbe1(it, args, kw):
        return it.p.facts.unbe(1, bytes_term(args[0]))

    @reg('unbe2')
    def unbe2(it, args, kw):
        return it.p.facts.unbe(2, bytes_term(args[0]))

    @reg('unbe4')
    def unbe4(it, args, kw):
        return it.p.facts.unbe(4, bytes_term(args[0]))

    @reg('is_ascii')
    def is_ascii(it, args, kw):
        v = args[0]
        if isinstance(v, str):
            return all(ord(c) < 128 for c in v)
        if isinstance(v, bytes):
            return all(c < 128 for c in v)
        if smt.is_str_term(v):
            return smt.ASCII_S(v)
        return smt.ASCII_B(v)

    @reg('stream_of')
    def stream_of(it, args, kw):
        return bytesops.new_stream(it, args[0], 'spec-stream')

    @reg('trace')
    def trace(it, args, kw):
        return tuple(it.p.trace)

    # ---- folds over symbolic sequences --------------------------------------------------
    def elem_fn(it, fn, sv):
        from . import folds
        from .values import FuncVal
        if isinstance(fn, str):
            return folds.member_fn(it, sv.elem, fn)
        if isinstance(fn, FuncVal):
            rd = it.hooks.get('spec_fn_types', {}).get(fn.qualname)
            if rd is None:
                raise Unsupported('spec function %s has no declared result type (elem_fn_type)' % fn.qualname)
            return folds.spec_fn(it, sv.elem, fn, rd)
        raise Unsupported('element function %r' % (fn,))
    it.elem_fn = elem_fn

    def as_seq(it, v, elem=None):
        from . import folds
        if isinstance(v, SeqVal):
            return v
        if isinstance(v, ListVal):
            if elem is None:
                raise Unsupported('fold over a concrete list needs the element type')
            return folds.list_to_seq(it, v, elem)
        raise Unsupported('fold over %r' % (v,))

    def fold_call(kind):
        def f(it, args, kw):
            from . import folds
            fn, seq = args[0], args[1]
            sv = as_seq(it, seq, kw.get('elem'))
            ef = elem_fn(it, fn, sv)
            return folds.get_fold(it, kind, ef).apply(it, sv.term)
        return f
    pre['join_map'] = Builtin('spec.join_map', fold_call('JOIN'))
    pre['sum_map'] = Builtin('spec.sum_map', fold_call('SUM'))
    pre['all_map'] = Builtin('spec.all_map', fold_call('ALL'))

    @reg('reveal_head')
    def reveal_head(it, args, kw):
        from . import folds
        sv = args[0]
        efs = [elem_fn(it, fn, sv) for fn in args[1:]]
        return folds.reveal_head(it, sv, efs)

    @reg('find_join_arg')
    def find_join_arg(it, args, kw):
        """ghost witness: (xs, rest) with  b == JOIN[fn](xs) ++ rest, found syntactically"""
        from . import folds
        fn, b, elem = args
        ef = folds.member_fn(it, elem, fn) if isinstance(fn, str) else \
            folds.spec_fn(it, elem, fn, it.hooks.get('spec_fn_types', {}).get(fn.qualname))
        fold = folds.get_fold(it, 'JOIN', ef)
        if isinstance(b, bytes):
            if b == b'':
                return SeqVal(z3.Empty(z3.SeqSort(it.types.sort_of(elem))), elem), b''
            raise Unsupported('find_join_arg on concrete bytes')
        s = z3.simplify(b)

        def is_F(t):
            return z3.is_app(t) and t.decl().eq(fold.F)
        if is_F(s):
            return SeqVal(s.arg(0), elem), b''
        if z3.is_app(s) and s.decl().kind() == z3.Z3_OP_SEQ_CONCAT and is_F(s.arg(0)):
            rest = [s.arg(i) for i in range(1, s.num_args())]
            return SeqVal(s.arg(0).arg(0), elem), smt.concat(rest)
        # semantic fallback: any applied sequence whose JOIN provably equals b
        for st in fold.applied.values():
            if it.p.must(b == fold.F(st)):
                return SeqVal(st, elem), b''
        raise Unsupported('find_join_arg: %s is not of the form JOIN[%s](xs) ++ rest' % (str(s)[:120], ef.name))

    @reg('copy_stream')
    def copy_stream(it, args, kw):
        st = args[0]
        n = Stream(st.before, st.rem, st.name + '-copy')
        n.closed = st.closed
        return n

    @reg('advance_stream')
    def advance_stream(it, args, kw):
        """effect of a decoder seen through its contract: `consumed` bytes move behind the
        position, `rest` remains"""
        import ast
        st, consumed, rest = args
        st.before = it.binop(ast.Add(), st.before, consumed)
        st.rem = rest
        st.last_read = None

    @reg('havoc_elem')
    def havoc_elem(it, args, kw):
        """loop havoc of a command-set element value: msg.command_set[<keyword>].value := fresh"""
        from .dsmodel import COMMAND_KEYWORDS
        from .pack import fresh_value
        msg, keyword, desc = args
        cs = msg.fields['command_set']
        e = it.dict_get(cs.fields['_elems'], COMMAND_KEYWORDS[keyword], None)
        if e is None:
            raise Unsupported('havoc_elem: message has no %s element' % keyword)
        e.fields['value'] = fresh_value(it, keyword, desc)

    @reg('havoc_attr')
    def havoc_attr(it, args, kw):
        from .pack import fresh_value
        o, name, desc = args
        o.fields[name] = fresh_value(it, name, desc)

    @reg('new_decoded_dataset')
    def new_decoded_dataset(it, args, kw):
        h = it.hooks.get('harness')
        if h is None:
            raise Unsupported('decoded data set without a service harness')
        it.p.counter += 1
        return h.new_decoded('decoded!%d' % it.p.counter)

    ENCDS = z3.Function('encoded_dataset', smt.Int, smt.Bytes)

    @reg('encoded_dataset')
    def encoded_dataset(it, args, kw):
        """dsutils.encode: a deterministic function of the data set; data sets handed out by the
        application oracle are integer handles, anything else gets a fresh byte string per object"""
        ds = args[0]
        if is_intlike(ds):
            return ENCDS(int_term(ds))
        cache = it.p.ghost.setdefault('_encoded', {})
        if id(ds) not in cache:
            cache[id(ds)] = (ds, it.p.fresh_bytes('encoded_ds'))
        return cache[id(ds)][1]

    @reg('encoded_element')
    def encoded_element(it, args, kw):
        """dsutils.encode_element: the byte string pydicom's writer produces for one element is a
        function of its tag and value (assumed; audited natively).  One fresh byte string per
        (tag, value) -- the same element with the same value always gives the same bytes."""
        e = args[0]
        if not isinstance(e, Obj) or 'tag' not in e.fields:
            raise Unsupported('encoded_element(%r)' % (e,))
        v = e.fields.get('value')
        vk = ('t', v.get_id()) if smt.is_z3(v) else ('c', repr(v))
        key = (repr(e.fields['tag']), vk)
        cache = it.p.ghost.setdefault('_encoded_elems', {})
        if key not in cache:
            b = it.p.fresh_bytes('element_bytes')
            it.p.assume(z3.Length(b) >= 8)      # tag (4) + length (4) + value
            cache[key] = (v, b)
        return cache[key][1]

    @reg('loop_havoc_sent')
    def loop_havoc_sent(it, args, kw):
        """sends inside a havoc'd loop are not counted by the `answered` clause (conservative)"""
        return None

    @reg('trace_len')
    def trace_len(it, args, kw):
        return len(it.p.trace)

    @reg('events_since')
    def events_since(it, args, kw):
        """trace events of a kind recorded since position n (as a tuple)"""
        n, kind = args[0], args[1]
        return tuple(e for e in it.p.trace[n:] if e[0] == kind)

    @reg('oblige')
    def oblige(it, args, kw):
        """ghost assertion inside a loop specification / setup: a named proof obligation"""
        label, cond = args[0], args[1]
        if isinstance(cond, bool):
            cond = z3.BoolVal(cond)
        it.p.oblige('%s#%s' % (it.p.label, label), cond, kind='ghost-assert', assume_after=False)

    @reg('sent_field')
    def sent_field(it, args, kw):
        """field of a message recorded by send(): sent_field(event, 'status')"""
        ev, name = args
        return it.getattr(ev[2], name)

    @reg('havoc_moved')
    def havoc_moved(it, args, kw):
        """loop havoc: whether the message bound here was already handed to send() in an earlier
        iteration is unknown (the invariant claims nothing about it)"""
        h = it.hooks.get('harness')
        if h is None:
            raise Unsupported('havoc_moved without a service harness')
        h.set_moved(args[0], it.p.fresh('moved', smt.Bool))

    @reg('ghost_get')
    def ghost_get(it, args, kw):
        return it.p.ghost.get(args[0], args[1] if len(args) > 1 else None)

    @reg('ghost_set')
    def ghost_set(it, args, kw):
        it.p.ghost[args[0]] = args[1]

    @reg('fresh_instance')
    def fresh_instance(it, args, kw):
        """an arbitrary instance of a record class (what a decoder returns on arbitrary input)"""
        from .pack import fresh_value
        return fresh_value(it, 'decoded', args[0])

    @reg('consume_some')
    def consume_some(it, args, kw):
        """a decoder that returns has consumed at least one byte of the stream"""
        st = args[0]
        old = bytes_term(st.rem)
        h = it.p.fresh_bytes('consumed')
        r = it.p.fresh_bytes('rem')
        it.p.assume(old == z3.Concat(h, r), note=False)
        it.p.assume(z3.Length(h) >= 1)
        it.p.facts.add(z3.And(z3.Length(r) >= 0, z3.Length(old) == z3.Length(h) + z3.Length(r)))
        import ast
        st.before = it.binop(ast.Add(), st.before, h)
        st.rem = r
        st.last_read = None

    @reg('empty_seq')
    def empty_seq(it, args, kw):
        elem = args[0]
        return SeqVal(z3.Empty(z3.SeqSort(it.types.sort_of(elem))), elem)

    @reg('seq_len')
    def seq_len_(it, args, kw):
        from . import folds
        return folds.seq_len(args[0])

    # ---- lists with known elements and dictionaries written by a loop body ---------------
    @reg('list_mark')
    def list_mark(it, args, kw):
        """number of parts of a list (known elements and symbolic segments): a position to
        compare against after the loop body"""
        from .values import HList
        v = args[0]
        if isinstance(v, ListVal):
            return len(v.items)
        if isinstance(v, HList):
            return len(v.parts)
        raise Unsupported('list_mark of %r' % (v,))

    @reg('list_since')
    def list_since(it, args, kw):
        """the elements appended after position `mark` (a tuple of objects)"""
        from .values import HList, Segment
        v, m = args
        parts = v.items if isinstance(v, ListVal) else v.parts
        new = parts[m:]
        if any(isinstance(x, Segment) for x in new):
            # something was inserted in front of the part of the list that was there before: the
            # list did not simply grow at its end
            return None
        return tuple(new)

    @reg('havoc_dict_attr')
    def havoc_dict_attr(it, args, kw):
        """loop havoc of a dictionary held in obj.attr: arbitrary contents at the loop head (an
        uninterpreted background), no recorded writes"""
        from .values import DictVal
        o, attr = args
        d = o.fields.get(attr)
        if not isinstance(d, DictVal):
            raise Unsupported('havoc_dict_attr: %s is not a dictionary' % attr)
        it.p.counter += 1
        has = z3.Function('has_%s!%d' % (attr, it.p.counter), smt.Int, smt.Bool)
        d.entries = []
        d.cindex = None

        def base(it2, key, has=has, attr=attr):
            from .values import int_term, is_intlike, Opaque
            if isinstance(key, str) or smt.is_str_term(key):
                hs = z3.Function(has.name() + '_s', smt.Str, smt.Bool)
                k = it2.p.facts.strlit(key) if isinstance(key, str) else key
                if it2.p.branch(hs(k)):
                    return True, Opaque('%s[...] from an earlier iteration' % attr)
                return False, None
            if not is_intlike(key):
                raise Unsupported('lookup of %r in a havoc\'d dictionary' % (key,))
            if it2.p.branch(has(int_term(key))):
                return True, Opaque('%s[...] from an earlier iteration' % attr)
            return False, None
        d.base = base

    @reg('dict_mark')
    def dict_mark(it, args, kw):
        return len(args[0].entries)

    @reg('dict_writes_since')
    def dict_writes_since(it, args, kw):
        """(key, value) pairs stored into the dictionary after position `mark`"""
        d, m = args
        out = []
        for kind, k, v in d.entries[m:]:
            if kind != 'key':
                raise Unsupported('range binding among the writes of a loop body')
            out.append((k, v))
        return tuple(out)

    @reg('cfg_served')
    def cfg_served(it, args, kw):
        """configuration predicate: the application entity serves this abstract syntax as SCP"""
        return it.hooks['cfg']['served'](it.p.facts.strlit(args[0]) if isinstance(args[0], str) else args[0])

    @reg('cfg_proposed')
    def cfg_proposed(it, args, kw):
        """the requester's presentation-context table has an entry for this id"""
        return it.hooks['cfg']['proposed'](int_term(args[0]))

    @reg('cfg_proposed_sop')
    def cfg_proposed_sop(it, args, kw):
        """abstract syntax the requester's table holds under this id"""
        return it.hooks['cfg']['proposed_sop'](int_term(args[0]))

    @reg('cfg_supported_ts')
    def cfg_supported_ts(it, args, kw):
        """configuration predicate: this transfer syntax is in AE.supported_ts"""
        return it.hooks['cfg']['supported_ts'](it.p.facts.strlit(args[0]) if isinstance(args[0], str) else args[0])

    @reg('same')
    def same(it, args, kw):
        """equality that also covers None on either side"""
        a, b = args
        if a is None or b is None:
            return a is None and b is None
        from .values import Opaque
        for x in (a, b):
            if isinstance(x, Opaque) and 'from an earlier iteration' in x.name:
                # a value the loop frame rule made arbitrary (a container filled in earlier iterations): whether it
                # equals the required value is unknown, so the clause cannot be proved from the loop head
                it.p.counter += 1
                return z3.Bool('same_unknown!%d' % it.p.counter)
        return ops.values_equal(it, a, b)

    @reg('utf8_ok')
    def utf8_ok(it, args, kw):
        b = args[0]
        if isinstance(b, bytes):
            try:
                b.decode('utf8')
                return True
            except UnicodeDecodeError:
                return False
        return smt.UTF8_OK(b)

    @reg('nonul_ends')
    def nonul_ends(it, args, kw):
        b = args[0]
        if isinstance(b, bytes):
            return b == b.strip(b'\0')
        return smt.NONUL_ENDS(b)

    @reg('enc')
    def enc(it, args, kw):
        s = args[0]
        if isinstance(s, str):
            return s.encode('utf8')
        return it.p.facts.enc(s)

    @reg('kind_of')
    def kind_of(it, args, kw):
        """class name of an element (case split over the family's constructors if packed)"""
        x = args[0]
        if isinstance(x, Packed):
            from .pack import unpack
            x = unpack(it, x)
        if isinstance(x, Obj):
            return x.cls.name
        raise Unsupported('kind_of(%r)' % (x,))

    @reg('no_pad_at_ends')
    def no_pad_at_ends(it, args, kw):
        """AE title without padding characters (NUL, space) at either end"""
        s = args[0]
        if isinstance(s, str):
            return s == s.strip('\0 ')
        return smt.NONUL_ENDS(it.p.facts.enc(s))

    @reg('ae_title_field')
    def ae_title_field(it, args, kw):
        """PS3.8 9.3.2: 16 characters, padded with trailing spaces"""
        s = args[0]
        if isinstance(s, str):
            return s.encode('ascii').ljust(16, b' ')[:16]
        b = it.p.facts.enc(s)
        t = it.p.facts.spad16(b)
        # a NUL-padded field differs from the space-padded one whenever padding is needed
        it.p.facts.add(z3.Implies(z3.Length(b) < 16, t != smt.PAD16(b)))
        return t

    it.model_modules['spec_prelude'] = __import__('pyvc.values', fromlist=['ModuleVal']).ModuleVal(
        'spec_prelude', pre)

    @reg('isinstance_of')
    def isinstance_of(it, args, kw):
        return it.call(it.builtins['isinstance'], list(args), {})
