"""Spec prelude: names visible in contract expressions (spec mode only).  Each is a model
function over interpreter values; the executable twins used by native replay live in
/verif/spec/native_prelude.py."""
import ast
import z3
from . import smt, ops, dicts, bytesops
from .values import (Builtin, DictVal, Unsupported, Stream, SeqVal, ListVal, Obj, Packed,
                     int_term, bytes_term, is_intlike)


def install(it):
    pre = it.spec_prelude

    def reg(name):
        def deco(fn):
            pre[name] = Builtin('spec.' + name, fn)
            return fn
        return deco

    @reg('implies')
    def implies(it, args, kw):
        a, b = args
        fa = z3.BoolVal(a) if isinstance(a, bool) else a
        fb = z3.BoolVal(b) if isinstance(b, bool) else b
        if a is False or b is True:
            return True
        return z3.Implies(fa, fb)

    @reg('iff')
    def iff(it, args, kw):
        a, b = args
        fa = z3.BoolVal(a) if isinstance(a, bool) else a
        fb = z3.BoolVal(b) if isinstance(b, bool) else b
        return fa == fb

    @reg('exactly_one')
    def exactly_one(it, args, kw):
        terms = [int_term(z3.BoolVal(a) if isinstance(a, bool) else a) for a in args]
        return z3.Sum(*terms) == 1 if len(terms) > 1 else terms[0] == 1

    @reg('dict_range_update')
    def dict_range_update(it, args, kw):
        d, prefix, lo, hi, v = args
        dicts.dict_range_update(it, d, prefix, lo, hi, v)

    @reg('range_updated')
    def range_updated(it, args, kw):
        d, prefix, lo, hi, v = args
        n = d.copy()
        dicts.dict_range_update(it, n, prefix, lo, hi, v)
        return n

    @reg('dict_assign')
    def dict_assign(it, args, kw):
        """make dictionary object `d` hold exactly the bindings of `src` (same identity)"""
        d, src = args
        d.entries = list(src.entries)
        d.base = src.base
        d.cindex = None

    @reg('dict_copy')
    def dict_copy(it, args, kw):
        return args[0].copy()

    @reg('dict_equiv')
    def dict_equiv(it, args, kw):
        """extensional equality at a fresh (skolem) key of the given shape:
        dict_equiv(d1, d2, key) with key built from fresh symbols by the caller"""
        d1, d2, key = args
        f1, v1 = dicts.lookup(it, d1, key)
        f2, v2 = dicts.lookup(it, d2, key)
        if f1 != f2:
            return False
        if not f1:
            return True
        return ops.values_equal(it, v1, v2)

    @reg('fresh_int')
    def fresh_int(it, args, kw):
        return it.p.fresh_int(args[0] if args else 'k')

    @reg('fresh_bool')
    def fresh_bool(it, args, kw):
        return it.p.fresh(args[0] if args else 'b', smt.Bool)

    @reg('opaque_value')
    def opaque_value(it, args, kw):
        from .values import Opaque
        it.p.counter += 1
        return Opaque('%s!%d' % (args[0] if args else 'opaque', it.p.counter))

    @reg('byte_at')
    def byte_at(it, args, kw):
        b, i = args
        if isinstance(b, bytes):
            return b[i]
        return it.p.facts.byte_at(b, int_term(i))

    @reg('rem')
    def rem(it, args, kw):
        return args[0].rem

    @reg('consumed')
    def consumed(it, args, kw):
        return args[0].before

    @reg('pos')
    def pos(it, args, kw):
        return bytesops.blen(it, args[0].before)

    @reg('be1')
    def be1(it, args, kw):
        return it.p.facts.be(1, args[0])

    @reg('be2')
    def be2(it, args, kw):
        return it.p.facts.be(2, args[0])

    @reg('be4')
    def be4(it, args, kw):
        return it.p.facts.be(4, args[0])

    @reg('unbe1')
    def unbe1(it, args, kw):
        return it.p.facts.unbe(1, bytes_term(args[0]))

    @reg('unbe2')
    def unbe2(it, args, kw):
        return it.p.facts.unbe(2, bytes_term(args[0]))

    @reg('unbe4')
    def unbe4(it, args, kw):
        return it.p.facts.unbe(4, bytes_term(args[0]))

    @reg('is_ascii')
    def is_ascii(it, args, kw):
        v = args[0]
        if isinstance(v, str):
            return all(ord(c) < 128 for c in v)
        if isinstance(v, bytes):
            return all(c < 128 for c in v)
        if smt.is_str_term(v):
            return smt.ASCII_S(v)
        return smt.ASCII_B(v)

    @reg('stream_of')
    def stream_of(it, args, kw):
        return bytesops.new_stream(it, args[0], 'spec-stream')

    @reg('trace')
    def trace(it, args, kw):
        return tuple(it.p.trace)

    @reg('isinstance_of')
    def isinstance_of(it, args, kw):
        return it.call(it.builtins['isinstance'], list(args), {})
