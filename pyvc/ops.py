"""Binary operators, comparisons and structural equality on interpreter values."""
import ast
import z3
from . import smt
from .values import (Unsupported, Obj, ListVal, NamedTupleVal, DictVal, SetVal, SeqVal, Packed,
                     ClassVal, FuncVal, Opaque, Stream, is_intlike, is_byteslike, is_strlike,
                     int_term, bytes_term, NamedTupleClass, ModuleVal, BoundMethod, Builtin)


def _both_concrete(a, b):
    return not smt.is_z3(a) and not smt.is_z3(b)


def str_term(it, v):
    if isinstance(v, str):
        return it.p.facts.strlit(v)
    return v


def binop(it, op, a, b, node=None):
    p = it.p
    # ---- integers
    if is_intlike(a) and is_intlike(b):
        if _both_concrete(a, b):
            a_, b_ = int(a), int(b)
            if isinstance(op, ast.Add):
                return a_ + b_
            if isinstance(op, ast.Sub):
                return a_ - b_
            if isinstance(op, ast.Mult):
                return a_ * b_
            if isinstance(op, ast.FloorDiv):
                if b_ == 0:
                    it.raise_exc('ZeroDivisionError')
                return a_ // b_
            if isinstance(op, ast.Mod):
                if b_ == 0:
                    it.raise_exc('ZeroDivisionError')
                return a_ % b_
            if isinstance(op, ast.BitAnd):
                return a_ & b_
            if isinstance(op, ast.BitOr):
                return a_ | b_
            if isinstance(op, ast.LShift):
                return a_ << b_
            if isinstance(op, ast.RShift):
                return a_ >> b_
            if isinstance(op, ast.Pow):
                return a_ ** b_
            raise Unsupported('int operator %s' % op.__class__.__name__)
        ta, tb = int_term(a), int_term(b)
        if isinstance(op, ast.Add):
            return ta + tb
        if isinstance(op, ast.Sub):
            return ta - tb
        if isinstance(op, ast.Mult):
            return ta * tb
        if isinstance(op, (ast.FloorDiv, ast.Mod)):
            if p.branch(tb == 0):
                it.raise_exc('ZeroDivisionError')
            # Python floor semantics; z3 div/mod are Euclidean: equal for positive divisor
            if p.must(tb > 0):
                return ta / tb if isinstance(op, ast.FloorDiv) else ta % tb
            raise Unsupported('division by possibly negative symbolic divisor')
        if isinstance(op, ast.BitAnd):
            # x & (2^k - 1) == x mod 2^k for every Python int x (two's complement semantics)
            for x, m in ((a, b), (b, a)):
                if isinstance(m, int) and not isinstance(m, bool) and m >= 0 and (m & (m + 1)) == 0:
                    return int_term(x) % (m + 1)
                # x & ~(2^k - 1)  (mask = -(2^k)) clears the k low bits:  x - (x mod 2^k)
                if isinstance(m, int) and not isinstance(m, bool) and m < 0 and ((-m) & (-m - 1)) == 0:
                    return int_term(x) - (int_term(x) % (-m))
        raise Unsupported('symbolic int operator %s' % op.__class__.__name__)
    # ---- bytes
    if is_byteslike(a) and is_byteslike(b):
        if isinstance(op, ast.Add):
            if _both_concrete(a, b):
                return a + b
            if isinstance(a, bytes) and len(a) == 0:
                return b
            if isinstance(b, bytes) and len(b) == 0:
                return a
            return z3.Concat(bytes_term(a), bytes_term(b))
    if is_byteslike(a) and is_intlike(b) and isinstance(op, ast.Mult) and _both_concrete(a, b):
        return a * b
    # ---- str
    if is_strlike(a) and is_strlike(b) and isinstance(op, ast.Add):
        if _both_concrete(a, b):
            return a + b
        return it.opaque_str('concat')
    if isinstance(a, str) and isinstance(op, ast.Mod):
        return it.opaque_str('format')
    # ---- lists / tuples
    if isinstance(a, ListVal) and isinstance(b, ListVal) and isinstance(op, ast.Add):
        return ListVal(a.items + b.items)
    if isinstance(a, tuple) and isinstance(b, tuple) and isinstance(op, ast.Add):
        return a + b
    if isinstance(a, ListVal) and isinstance(b, SeqVal) and isinstance(op, ast.Add):
        from .folds import list_to_seq
        return SeqVal(z3.Concat(list_to_seq(it, a, b.elem).term, b.term), b.elem)
    if isinstance(a, SeqVal) and isinstance(b, ListVal) and isinstance(op, ast.Add):
        from .folds import list_to_seq
        return SeqVal(z3.Concat(a.term, list_to_seq(it, b, a.elem).term), a.elem)
    if isinstance(a, SeqVal) and isinstance(b, SeqVal) and isinstance(op, ast.Add):
        return SeqVal(z3.Concat(a.term, b.term), a.elem)
    raise Unsupported('binary operator %s on %r and %r' % (op.__class__.__name__, a, b))


def compare(it, op, a, b, node=None):
    p = it.p
    if isinstance(op, ast.Eq):
        return values_equal(it, a, b)
    if isinstance(op, ast.NotEq):
        r = values_equal(it, a, b)
        return (not r) if isinstance(r, bool) else z3.Not(r)
    if isinstance(op, ast.Is):
        return identical(it, a, b)
    if isinstance(op, ast.IsNot):
        r = identical(it, a, b)
        return (not r) if isinstance(r, bool) else z3.Not(r)
    if isinstance(op, (ast.Lt, ast.LtE, ast.Gt, ast.GtE)):
        if is_intlike(a) and is_intlike(b):
            if _both_concrete(a, b):
                a_, b_ = int(a), int(b)
                return {ast.Lt: a_ < b_, ast.LtE: a_ <= b_, ast.Gt: a_ > b_, ast.GtE: a_ >= b_}[op.__class__]
            ta, tb = int_term(a), int_term(b)
            return {ast.Lt: ta < tb, ast.LtE: ta <= tb, ast.Gt: ta > tb, ast.GtE: ta >= tb}[op.__class__]
        if a is None or b is None:
            it.raise_exc('TypeError', 'ordering comparison with None')
        raise Unsupported('ordering comparison on %r, %r' % (a, b))
    if isinstance(op, (ast.In, ast.NotIn)):
        r = contains(it, b, a)
        if isinstance(op, ast.NotIn):
            return (not r) if isinstance(r, bool) else z3.Not(r)
        return r
    raise Unsupported('comparison %s' % op.__class__.__name__)


def identical(it, a, b):
    if a is None or b is None:
        if a is None and b is None:
            return True
        other = b if a is None else a
        if smt.is_z3(other) or isinstance(other, (int, bytes, str, tuple, Obj, ListVal, DictVal,
                                                   Stream, SeqVal, Packed, NamedTupleVal, SetVal,
                                                   FuncVal, ClassVal, BoundMethod, Builtin)):
            return False
        if isinstance(other, Opaque):
            return False
        raise Unsupported('is None on %r' % (other,))
    if isinstance(a, bool) and isinstance(b, bool):
        return a == b
    if isinstance(a, bool) or isinstance(b, bool):
        # `x is False` with x a symbolic bool
        sym, con = (a, b) if smt.is_bool_term(a) else (b, a)
        if smt.is_bool_term(sym) and isinstance(con, bool):
            return sym if con else z3.Not(sym)
        return False
    if isinstance(a, Packed) and isinstance(b, Packed):
        # elements of a symbolic sequence: the same element term denotes the same object
        if a.term.eq(b.term):
            return True
        return z3.simplify(a.term == b.term)
    if isinstance(a, (Obj, ListVal, DictVal, Stream, ClassVal, FuncVal, ModuleVal)):
        return a is b
    if isinstance(a, int) and isinstance(b, int):
        return a == b
    raise Unsupported('is-comparison on %r, %r' % (a, b))


def contains(it, container, x):
    p = it.p
    if isinstance(container, (tuple, ListVal)):
        items = container if isinstance(container, tuple) else container.items
        conds = []
        for y in items:
            e = values_equal(it, x, y)
            if e is True:
                return True
            if e is not False:
                conds.append(e)
        if not conds:
            return False
        return z3.Or(*conds)
    if isinstance(container, DictVal):
        return it.dict_contains(container, x)
    if isinstance(container, SetVal):
        if container.member is not None:
            return container.member(it, x)
        return contains(it, tuple(container.items), x)
    if isinstance(container, NamedTupleVal):
        return contains(it, container.values, x)
    if isinstance(container, (bytes, str)) and not smt.is_z3(x):
        return x in container
    raise Unsupported('membership test in %r' % (container,))


def values_equal(it, a, b):
    """Python == on values: bool or z3 BoolRef."""
    if a is None or b is None:
        return a is None and b is None
    # pydicom BaseTag: an int that also compares equal to the (group, element) pair
    ta, tb = getattr(a, 'is_dicom_tag', False), getattr(b, 'is_dicom_tag', False)
    if ta or tb:
        def as_int(x):
            if isinstance(x, tuple) and len(x) == 2 and all(isinstance(y, int) for y in x):
                return (x[0] << 16) | x[1]
            return int(x) if isinstance(x, int) else None
        ia, ib = as_int(a), as_int(b)
        if ia is not None and ib is not None:
            return ia == ib
    if isinstance(a, bool) and isinstance(b, bool):
        return a == b
    if is_intlike(a) and is_intlike(b):
        if _both_concrete(a, b):
            return int(a) == int(b)
        return int_term(a) == int_term(b)
    if (smt.is_bool_term(a) or isinstance(a, bool)) and (smt.is_bool_term(b) or isinstance(b, bool)):
        ta = z3.BoolVal(a) if isinstance(a, bool) else a
        tb = z3.BoolVal(b) if isinstance(b, bool) else b
        return z3.simplify(ta == tb)
    if is_byteslike(a) and is_byteslike(b):
        if _both_concrete(a, b):
            return a == b
        # comparison with b'' decided structurally when a part has a known positive length
        for x, y in ((a, b), (b, a)):
            if isinstance(y, bytes) and len(y) == 0 and it.p is not None:
                from . import bytesops
                parts = bytesops._flatten(bytes_term(x), it.p.defs)
                if not parts:
                    return True
                if any((bytesops.static_len(it, q) or 0) > 0 for q in parts):
                    return False
                # x == b''  <=>  |x| == 0   (arithmetic: decidable without the sequence solver)
                lx = z3.Length(bytes_term(x))
                it.p.facts.add(lx >= 0)
                return lx == 0
        return bytes_term(a) == bytes_term(b)
    if is_strlike(a) and is_strlike(b):
        if _both_concrete(a, b):
            return a == b
        return str_term(it, a) == str_term(it, b)
    if isinstance(a, tuple) and isinstance(b, tuple):
        if len(a) != len(b):
            return False
        return conj([values_equal(it, x, y) for x, y in zip(a, b)])
    if isinstance(a, NamedTupleVal) and isinstance(b, NamedTupleVal):
        return values_equal(it, a.values, b.values)
    if isinstance(a, NamedTupleVal) and isinstance(b, tuple):
        return values_equal(it, a.values, b)
    if isinstance(a, tuple) and isinstance(b, NamedTupleVal):
        return values_equal(it, a, b.values)
    if isinstance(a, ListVal) and isinstance(b, ListVal):
        if len(a.items) != len(b.items):
            return False
        return conj([values_equal(it, x, y) for x, y in zip(a.items, b.items)])
    if isinstance(a, (SeqVal, ListVal)) and isinstance(b, (SeqVal, ListVal)):
        from .folds import list_to_seq
        elem = a.elem if isinstance(a, SeqVal) else b.elem
        ta = a.term if isinstance(a, SeqVal) else list_to_seq(it, a, elem).term
        tb = b.term if isinstance(b, SeqVal) else list_to_seq(it, b, elem).term
        return ta == tb
    if isinstance(a, (Obj, Packed)) and isinstance(b, (Obj, Packed)):
        return objects_equal(it, a, b)
    if isinstance(a, (ClassVal, FuncVal, ModuleVal, NamedTupleClass)) or isinstance(b, (ClassVal, FuncVal, ModuleVal, NamedTupleClass)):
        return a is b
    # different kinds: unequal in Python
    kinds = (kind_of(a), kind_of(b))
    if None not in kinds and kinds[0] != kinds[1]:
        return False
    raise Unsupported('== on %r and %r' % (a, b))


def kind_of(v):
    if v is None:
        return 'none'
    if isinstance(v, bool) or smt.is_bool_term(v):
        return 'int'
    if is_intlike(v):
        return 'int'
    if is_byteslike(v):
        return 'bytes'
    if is_strlike(v):
        return 'str'
    if isinstance(v, (tuple, NamedTupleVal)):
        return 'tuple'
    if isinstance(v, (ListVal, SeqVal)):
        return 'list'
    if isinstance(v, DictVal):
        return 'dict'
    if isinstance(v, (Obj, Packed)):
        return 'obj'
    return None


def objects_equal(it, a, b):
    """Structural equality over instance fields (what comparing __dict__ observes).
    Note: real `==` on these classes is identity; this is the *spec-level* equality used by
    contracts. Program-level == on objects without __eq__ is identity (handled by callers)."""
    from .pack import to_term
    if isinstance(a, Packed) and isinstance(b, Packed):
        return a.term == b.term
    if isinstance(a, Obj) and isinstance(b, Obj):
        if a.cls is not b.cls:
            return False
        if set(a.fields) != set(b.fields):
            return False
        return conj([values_equal(it, a.fields[k], b.fields[k]) for k in sorted(a.fields)])
    # mixed: pack the exploded one
    pa = a if isinstance(a, Packed) else None
    pb = b if isinstance(b, Packed) else None
    packed = pa or pb
    other = b if pa is not None else a
    t = to_term(it, other, packed.tdesc)
    return packed.term == t


def conj(parts):
    out = []
    for x in parts:
        if x is False:
            return False
        if x is True:
            continue
        out.append(x)
    if not out:
        return True
    if len(out) == 1:
        return out[0]
    return z3.And(*out)


def disj(parts):
    out = []
    for x in parts:
        if x is True:
            return True
        if x is False:
            continue
        out.append(x)
    if not out:
        return False
    if len(out) == 1:
        return out[0]
    return z3.Or(*out)


def neg(x):
    if isinstance(x, bool):
        return not x
    return z3.Not(x)
