"""Per-path context (path condition, lemma instances, decisions, obligations) and the
re-execution explorer: every path is a fresh deterministic run of the same function driven
by a decision prefix, so no interpreter state ever has to be copied."""
import time
import z3
from . import smt
from .values import PathEnd, Unsupported

FEAS_TIMEOUT_MS = 3000
MUST_TIMEOUT_MS = 3001
FEAS_RLIMIT = 1500000      # deterministic budgets (z3 resource units; ~0.5-1.5 s)
MUST_RLIMIT = 3000000


class Obligation(object):
    def __init__(self, name, hyps, goal, kind='ensures', meta=None):
        self.name = name
        self.hyps = hyps
        self.goal = goal
        self.kind = kind
        self.meta = meta or {}
        self.verdict = None
        self.detail = None

    def formula(self):
        """unsat iff the obligation holds"""
        return list(self.hyps) + [z3.Not(self.goal)]


_light_cache = {}


def _is_light(f):
    """no sequence-sorted subterm (and no string-theory predicate)"""
    k = f.get_id()
    r = _light_cache.get(k)
    if r is not None:
        return r
    seen = set()
    stack = [f]
    ok = True
    while stack:
        t = stack.pop()
        i = t.get_id()
        if i in seen:
            continue
        seen.add(i)
        c = _light_cache.get(i)
        if c is False:
            ok = False
            break
        if c is True:
            continue
        try:
            if t.sort().kind() == z3.Z3_SEQ_SORT:
                ok = False
                break
        except z3.Z3Exception:
            ok = False
            break
        if z3.is_quantifier(t):
            ok = False
            break
        if z3.is_app(t):
            stack.extend(t.children())
    _light_cache[k] = ok
    if len(_light_cache) > 400000:
        _light_cache.clear()
    return ok


_abs_cache = {}      # id -> (original term kept alive, abstraction, only_measures)


def _abstract(f):
    """Sound weakening for the light solver: every maximal non-sequence-sorted subterm that has a
    sequence-sorted child (|x|, SUM(xs), x == y on sequences, byte extraction ...) is replaced by
    a fresh constant of its sort (the same constant for the same term).  Returns
    (abstraction, only_measures) where only_measures says that only length / SUM terms were
    abstracted (no content-sensitive term)."""
    k = f.get_id()
    hit = _abs_cache.get(k)
    if hit is not None:
        return hit[1], hit[2]
    only = True
    if not z3.is_app(f) or z3.is_quantifier(f):
        res = z3.Const('abs!%d' % k, f.sort())
        only = False
    else:
        kids = f.children()
        if any(c.sort().kind() == z3.Z3_SEQ_SORT for c in kids):
            res = z3.Const('abs!%d' % k, f.sort())
            d = f.decl()
            dk = d.kind()
            if not (dk == z3.Z3_OP_SEQ_LENGTH or (dk == z3.Z3_OP_UNINTERPRETED and d.name().startswith('SUM_'))):
                only = False
        elif not kids:
            res = f
        else:
            new = []
            changed = False
            for c in kids:
                a, o = _abstract(c)
                only = only and o
                changed = changed or (a is not c)
                new.append(a)
            if changed:
                try:
                    dk = f.decl().kind()
                    if dk == z3.Z3_OP_AND:
                        res = z3.And(*new)
                    elif dk == z3.Z3_OP_OR:
                        res = z3.Or(*new)
                    elif dk == z3.Z3_OP_ADD:
                        res = z3.Sum(*new)
                    elif dk == z3.Z3_OP_MUL:
                        res = z3.Product(*new)
                    elif dk == z3.Z3_OP_DISTINCT:
                        res = z3.Distinct(*new)
                    else:
                        res = f.decl()(*new)
                except (z3.Z3Exception, Exception):
                    res = z3.Const('abs!%d' % k, f.sort())
                    only = False
            else:
                res = f
    _abs_cache[k] = (f, res, only)
    return res, only


def _is_atom(t):
    """constant or application of an uninterpreted function (be/unbe/enc are not atoms)"""
    if not z3.is_app(t):
        return False
    d = t.decl()
    if d.kind() != z3.Z3_OP_UNINTERPRETED:
        return False
    name = d.name()
    return not (name.startswith('be') or name.startswith('le') or name in ('enc', 'pad16', 'spad16', 'strip0'))


class Path(object):
    def __init__(self, prefix, label=''):
        self.defs = {}
        self.prefix = list(prefix)
        self.taken = []
        self.alternatives = []
        self.pc = []
        self.facts = smt.Facts()
        self._pushed = 0
        self.solver = smt.mk_solver()
        self.light = smt.mk_solver()
        self._light_pc = 0
        self._light_facts = 0
        self.n_full = 0
        self.n_light = 0
        self._must_idx = 0
        self.shared_cache = None
        self._emitted = {}
        self.counter = 0
        self.obligations = []
        self.trace = []
        self.ghost = {}
        self.label = label
        self.notes = []
        self.solver_time = 0.0
        self.fn_symbols = {}

    # -- symbols ---------------------------------------------------------
    def fresh(self, name, sort):
        self.counter += 1
        return z3.Const('%s!%d' % (name, self.counter), sort)

    def fresh_int(self, name='i'):
        return self.fresh(name, smt.Int)

    def fresh_bytes(self, name='b'):
        return self.fresh(name, smt.Bytes)

    # -- assumptions -----------------------------------------------------
    def _sync(self):
        pass

    def assume(self, cond, note=True):
        if isinstance(cond, bool):
            if not cond:
                raise PathEnd('assumed False')
            return
        c = z3.simplify(cond)
        if z3.is_true(c):
            return
        if z3.is_false(c):
            raise PathEnd('assumed false')
        self.pc.append(cond)
        if note:
            self.note_def(cond)

    def note_def(self, cond, force=False):
        """remember equalities  atom == <structured bytes term>  so that later splits can
        follow them syntactically (they are assumed facts of this path)"""
        try:
            if force and z3.is_app(cond) and cond.decl().kind() == z3.Z3_OP_EQ:
                self.defs.setdefault(cond.arg(0).get_id(), cond.arg(1))
                return
            if not (z3.is_app(cond) and cond.decl().kind() == z3.Z3_OP_EQ):
                if z3.is_app(cond) and cond.decl().kind() == z3.Z3_OP_AND:
                    for i in range(cond.num_args()):
                        self.note_def(cond.arg(i))
                return
            a, b = cond.arg(0), cond.arg(1)
            if a.sort() != smt.Bytes:
                return
            for lhs, rhs in ((a, b), (b, a)):
                if _is_atom(lhs) and not _is_atom(rhs):
                    self.defs.setdefault(lhs.get_id(), rhs)
                    return
            for lhs, rhs in ((a, b), (b, a)):
                # constant == application (e.g. havoc'd stream content == JOIN(todo))
                if _is_atom(lhs) and lhs.num_args() == 0 and _is_atom(rhs) and rhs.num_args() > 0:
                    self.defs.setdefault(lhs.get_id(), rhs)
                    return
        except z3.Z3Exception:
            return

    def _check(self, extra, timeout):
        """Full check of pc /\\ facts /\\ extra with a *fresh* solver: z3's incremental core
        (check with assumptions on a long-lived solver) is 10-50x slower on these sequence
        problems than a one-shot solve.  The budget is a deterministic resource limit (rlimit),
        not wall time, so answers do not depend on machine load."""
        s = z3.Solver()
        s.set('rlimit', FEAS_RLIMIT if timeout == FEAS_TIMEOUT_MS else MUST_RLIMIT)
        for f in self.pc:
            s.add(f)
        for f in self.facts.items:
            s.add(f)
        for e in extra:
            s.add(e)
        t0 = time.time()
        r = s.check()
        self.solver_time += time.time() - t0
        self.n_full += 1
        return r

    # The *light* solver holds only the hypotheses that mention no sequence-sorted term.  It has
    # fewer hypotheses than the path, so whatever it refutes / proves, the path refutes / proves;
    # it answers in microseconds and spares most calls of the sequence solver.
    def _sync_light(self):
        while self._light_pc < len(self.pc):
            f = self.pc[self._light_pc]
            self._light_pc += 1
            self.light.add(_abstract(f)[0])
        items = self.facts.items
        while self._light_facts < len(items):
            f = items[self._light_facts]
            self._light_facts += 1
            self.light.add(_abstract(f)[0])

    def _check_light(self, extra):
        """returns (result, exact): exact = the extra conditions lost nothing but length/SUM terms"""
        self._sync_light()
        ab = []
        exact = True
        for e in extra:
            a, only = _abstract(e)
            ab.append(a)
            exact = exact and only
        self.light.set('rlimit', 1000000)
        t0 = time.time()
        r = self.light.check(*ab)
        self.solver_time += time.time() - t0
        self.n_light += 1
        return r, exact

    def feasible(self, cond=None):
        """False only if pc /\\ cond is unsat; unknown counts as feasible."""
        extra = []
        if cond is not None:
            if isinstance(cond, bool):
                if not cond:
                    return False
            else:
                c = z3.simplify(cond)
                if z3.is_false(c):
                    return False
                if not z3.is_true(c):
                    extra = [cond]
        lr, exact = self._check_light(extra)
        if lr == z3.unsat:
            return False
        if lr == z3.sat and extra and exact:
            # a sequence-free condition consistent with all sequence-free hypotheses: explore it
            # (if the sequence facts do exclude it, its obligations are vacuous -- sound, and
            # much cheaper than asking the sequence solver about arithmetic)
            return True
        return self._check(extra, FEAS_TIMEOUT_MS) != z3.unsat

    def must(self, cond):
        """True only if pc entails cond (proved by the solver)."""
        if isinstance(cond, bool):
            return cond
        c = z3.simplify(cond)
        if z3.is_true(c):
            return True
        if z3.is_false(c):
            return False
        if self._check_light([z3.Not(cond)])[0] == z3.unsat:
            return True
        # Re-execution is deterministic: the k-th entailment query after the same decisions is
        # the same query on every path sharing that prefix -- answer it once per exploration.
        self._must_idx += 1
        key = (self._must_idx, tuple(self.taken))
        cache = self.shared_cache
        if cache is not None and key in cache:
            return cache[key]
        r = self._check([z3.Not(cond)], MUST_TIMEOUT_MS) == z3.unsat
        if cache is not None:
            cache[key] = r
        return r

    def must_light(self, cond):
        """entailment decided by the light solver only (cheap, incomplete)"""
        if isinstance(cond, bool):
            return cond
        c = z3.simplify(cond)
        if z3.is_true(c):
            return True
        if z3.is_false(c):
            return False
        return self._check_light([z3.Not(cond)])[0] == z3.unsat

    # -- decisions -------------------------------------------------------
    def choose(self, conds, what=''):
        """conds: list of conditions (bool or BoolRef), exhaustive and treated in order.
        Returns the index of the alternative followed on this path and assumes it."""
        simp = []
        for c in conds:
            if isinstance(c, bool):
                simp.append(c)
            else:
                s = z3.simplify(c)
                simp.append(True if z3.is_true(s) else False if z3.is_false(s) else c)
        live = [i for i, c in enumerate(simp) if c is not False]
        if not live:
            raise PathEnd('no alternative')
        if len(live) == 1 and simp[live[0]] is True:
            return live[0]
        idx = len(self.taken)
        if idx < len(self.prefix):
            pick = self.prefix[idx]
        else:
            feas = [i for i in live if self.feasible(simp[i])]
            if not feas:
                raise PathEnd('infeasible')
            pick = feas[0]
            for other in feas[1:]:
                self.alternatives.append(self.taken + [other])
        self.taken.append(pick)
        c = simp[pick]
        if c is not True:
            self.assume(conds[pick])
        return pick

    def branch(self, cond, what=''):
        if isinstance(cond, bool):
            return cond
        v = smt.as_concrete_bool(cond)
        if v is not None:
            return v
        return self.choose([cond, z3.Not(cond)], what) == 0

    # -- obligations -----------------------------------------------------
    def oblige(self, name, goal, kind='ensures', meta=None, assume_after=True):
        if isinstance(goal, bool):
            goal = z3.BoolVal(goal)
        self._sync()
        ob = Obligation(name, list(self.pc) + list(self.facts.items), goal, kind, meta)
        ob.meta.setdefault('path', list(self.taken))
        ob.at = tuple(self.taken)     # decisions taken when the obligation was emitted
        occ = self._emitted.get((name, ob.at), 0)
        self._emitted[(name, ob.at)] = occ + 1
        if occ:
            ob.name = '%s~%d' % (name, occ)
        self.obligations.append(ob)
        if assume_after:
            try:
                self.assume(goal)
            except PathEnd:
                # goal is literally false: keep the obligation (it will be refuted), stop the path
                raise
        return ob


class Explorer(object):
    """Runs fn(path) once per feasible decision sequence."""

    def __init__(self, max_paths=4000):
        self.max_paths = max_paths
        self.paths = []
        self.solver_time = 0.0

    def run(self, fn, label=''):
        work = [[]]
        n = 0
        while work:
            prefix = work.pop()
            n += 1
            if n > self.max_paths:
                raise Unsupported('path explosion in %s (> %d paths)' % (label, self.max_paths))
            p = Path(prefix, label)
            p.index = n - 1
            try:
                fn(p)
                p.ended = 'done'
            except PathEnd as e:
                p.ended = 'cut: %s' % (e,)
            self.solver_time += p.solver_time
            work.extend(reversed(p.alternatives))
            self.paths.append(p)
        return self.paths
