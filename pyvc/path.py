"""Per-path context (path condition, lemma instances, decisions, obligations) and the
re-execution explorer: every path is a fresh deterministic run of the same function driven
by a decision prefix, so no interpreter state ever has to be copied."""
import time
import z3
from . import smt
from .values import PathEnd, Unsupported

FEAS_TIMEOUT_MS = 3000
MUST_TIMEOUT_MS = 3000


class Obligation(object):
    def __init__(self, name, hyps, goal, kind='ensures', meta=None):
        self.name = name
        self.hyps = hyps
        self.goal = goal
        self.kind = kind
        self.meta = meta or {}
        self.verdict = None
        self.detail = None

    def formula(self):
        """unsat iff the obligation holds"""
        return list(self.hyps) + [z3.Not(self.goal)]


class Path(object):
    def __init__(self, prefix, label=''):
        self.prefix = list(prefix)
        self.taken = []
        self.alternatives = []
        self.pc = []
        self.facts = smt.Facts()
        self._pushed = 0
        self.solver = smt.mk_solver()
        self.counter = 0
        self.obligations = []
        self.trace = []
        self.ghost = {}
        self.label = label
        self.notes = []
        self.solver_time = 0.0
        self.fn_symbols = {}

    # -- symbols ---------------------------------------------------------
    def fresh(self, name, sort):
        self.counter += 1
        return z3.Const('%s!%d' % (name, self.counter), sort)

    def fresh_int(self, name='i'):
        return self.fresh(name, smt.Int)

    def fresh_bytes(self, name='b'):
        return self.fresh(name, smt.Bytes)

    # -- assumptions -----------------------------------------------------
    def _sync(self):
        items = self.facts.items
        while self._pushed < len(items):
            self.solver.add(items[self._pushed])
            self._pushed += 1

    def assume(self, cond):
        if isinstance(cond, bool):
            if not cond:
                raise PathEnd('assumed False')
            return
        c = z3.simplify(cond)
        if z3.is_true(c):
            return
        if z3.is_false(c):
            raise PathEnd('assumed false')
        self.pc.append(cond)
        self.solver.add(cond)

    def _check(self, extra, timeout):
        self._sync()
        self.solver.set('timeout', timeout)
        t0 = time.time()
        r = self.solver.check(*extra)
        self.solver_time += time.time() - t0
        return r

    def feasible(self, cond=None):
        """False only if pc /\\ cond is unsat; unknown counts as feasible."""
        extra = []
        if cond is not None:
            if isinstance(cond, bool):
                if not cond:
                    return False
            else:
                c = z3.simplify(cond)
                if z3.is_false(c):
                    return False
                if not z3.is_true(c):
                    extra = [cond]
        return self._check(extra, FEAS_TIMEOUT_MS) != z3.unsat

    def must(self, cond):
        """True only if pc entails cond (proved by the solver)."""
        if isinstance(cond, bool):
            return cond
        c = z3.simplify(cond)
        if z3.is_true(c):
            return True
        if z3.is_false(c):
            return False
        return self._check([z3.Not(cond)], MUST_TIMEOUT_MS) == z3.unsat

    # -- decisions -------------------------------------------------------
    def choose(self, conds, what=''):
        """conds: list of conditions (bool or BoolRef), exhaustive and treated in order.
        Returns the index of the alternative followed on this path and assumes it."""
        simp = []
        for c in conds:
            if isinstance(c, bool):
                simp.append(c)
            else:
                s = z3.simplify(c)
                simp.append(True if z3.is_true(s) else False if z3.is_false(s) else c)
        live = [i for i, c in enumerate(simp) if c is not False]
        if not live:
            raise PathEnd('no alternative')
        if len(live) == 1 and simp[live[0]] is True:
            return live[0]
        idx = len(self.taken)
        if idx < len(self.prefix):
            pick = self.prefix[idx]
        else:
            feas = [i for i in live if self.feasible(simp[i])]
            if not feas:
                raise PathEnd('infeasible')
            pick = feas[0]
            for other in feas[1:]:
                self.alternatives.append(self.taken + [other])
        self.taken.append(pick)
        c = simp[pick]
        if c is not True:
            self.assume(conds[pick])
        return pick

    def branch(self, cond, what=''):
        if isinstance(cond, bool):
            return cond
        v = smt.as_concrete_bool(cond)
        if v is not None:
            return v
        return self.choose([cond, z3.Not(cond)], what) == 0

    # -- obligations -----------------------------------------------------
    def oblige(self, name, goal, kind='ensures', meta=None, assume_after=True):
        if isinstance(goal, bool):
            goal = z3.BoolVal(goal)
        self._sync()
        ob = Obligation(name, list(self.pc) + list(self.facts.items), goal, kind, meta)
        ob.meta.setdefault('path', list(self.taken))
        self.obligations.append(ob)
        if assume_after:
            try:
                self.assume(goal)
            except PathEnd:
                # goal is literally false: keep the obligation (it will be refuted), stop the path
                raise
        return ob


class Explorer(object):
    """Runs fn(path) once per feasible decision sequence."""

    def __init__(self, max_paths=4000):
        self.max_paths = max_paths
        self.paths = []
        self.solver_time = 0.0

    def run(self, fn, label=''):
        work = [[]]
        n = 0
        while work:
            prefix = work.pop()
            n += 1
            if n > self.max_paths:
                raise Unsupported('path explosion in %s (> %d paths)' % (label, self.max_paths))
            p = Path(prefix, label)
            p.index = n - 1
            try:
                fn(p)
                p.ended = 'done'
            except PathEnd as e:
                p.ended = 'cut: %s' % (e,)
            self.solver_time += p.solver_time
            work.extend(reversed(p.alternatives))
            self.paths.append(p)
        return self.paths
