"""Conversion between exploded objects (Obj with a field dict) and z3 datatype terms, creation
of fresh symbolic values from type descriptors, and write-back of mutated list elements."""
import z3
from . import smt
from .values import (Unsupported, Obj, ListVal, SeqVal, Packed, is_intlike, is_byteslike,
                     is_strlike, int_term, bytes_term)


def to_term(it, v, desc):
    """value -> z3 term of the sort of `desc`"""
    te = it.types
    desc = desc.strip()
    if desc == 'int':
        if not is_intlike(v):
            raise Unsupported('expected int for %s, got %r' % (desc, v))
        return int_term(v)
    if desc == 'bool':
        return z3.BoolVal(v) if isinstance(v, bool) else v
    if desc == 'bytes':
        if not is_byteslike(v):
            raise Unsupported('expected bytes, got %r' % (v,))
        return bytes_term(v)
    if desc == 'str':
        if isinstance(v, str):
            return it.p.facts.strlit(v)
        if not smt.is_str_term(v):
            raise Unsupported('expected str, got %r' % (v,))
        return v
    if desc.startswith('Seq['):
        inner = desc[4:-1]
        if isinstance(v, SeqVal):
            return v.term
        if isinstance(v, (ListVal, tuple)):
            items = v.items if isinstance(v, ListVal) else v
            if not items:
                return z3.Empty(te.sort_of(desc))
            units = [z3.Unit(to_term(it, x, inner)) for x in items]
            return units[0] if len(units) == 1 else z3.Concat(*units)
        raise Unsupported('expected list for %s, got %r' % (desc, v))
    if desc.startswith('Tup['):
        sort, ctor, accs, comps = te.tuple_info(desc)
        if isinstance(v, ListVal):
            v = tuple(v.items)
        if not isinstance(v, tuple) or len(v) != len(comps):
            raise Unsupported('expected %d-tuple for %s, got %r' % (len(comps), desc, v))
        return ctor(*[to_term(it, x, c) for x, c in zip(v, comps)])
    recs = te.members_of(desc)
    if recs:
        if isinstance(v, Packed):
            return v.term
        if isinstance(v, Obj):
            rec = te.record_of_class(v.cls)
            if rec is None or rec not in recs:
                raise Unsupported('object of class %s is not a %s' % (v.cls.name, desc))
            args = []
            for f, d in rec.fields:
                if f not in v.fields:
                    raise Unsupported('object of %s lacks field %s' % (v.cls.name, f))
                args.append(to_term(it, v.fields[f], d))
            return rec.ctor(*args)
        raise Unsupported('expected %s, got %r' % (desc, v))
    raise Unsupported('unknown descriptor %r' % desc)


def from_term(it, t, desc):
    te = it.types
    desc = desc.strip()
    if desc in ('int', 'bool', 'bytes', 'str'):
        return t
    if desc.startswith('Seq['):
        return SeqVal(t, desc[4:-1])
    if desc.startswith('Tup['):
        sort, ctor, accs, comps = te.tuple_info(desc)
        st = z3.simplify(t)
        if z3.is_app(st) and st.decl().eq(ctor):
            return tuple(from_term(it, st.arg(i), c) for i, c in enumerate(comps))
        return tuple(from_term(it, a(t), c) for a, c in zip(accs, comps))
    if te.members_of(desc):
        return Packed(t, desc)
    raise Unsupported('unknown descriptor %r' % desc)


def fresh_value(it, name, desc, explode=True):
    """fresh symbolic value of a descriptor; records are exploded into Obj by default"""
    te = it.types
    p = it.p
    desc = desc.strip()
    if desc == 'none':
        return None
    if desc in ('int', 'bool', 'bytes', 'str'):
        return p.fresh(name, te.sort_of(desc))
    if desc.startswith('Seq['):
        return SeqVal(p.fresh(name, te.sort_of(desc)), desc[4:-1])
    if desc.startswith('Tup['):
        sort, ctor, accs, comps = te.tuple_info(desc)
        return tuple(fresh_value(it, '%s.%d' % (name, i), c) for i, c in enumerate(comps))
    recs = te.members_of(desc)
    if recs:
        if explode and len(recs) == 1 and desc in te.records:
            rec = recs[0]
            o = Obj(rec.cls)
            for f, d in rec.fields:
                o.fields[f] = fresh_value(it, '%s.%s' % (name, f), d, explode=True)
            return o
        return Packed(p.fresh(name, te.sort_of(desc)), desc)
    raise Unsupported('unknown descriptor %r' % desc)


def unpack(it, pk):
    """Packed -> Obj (case split over the family's constructors when needed)"""
    te = it.types
    recs = te.members_of(pk.tdesc)
    t = pk.term
    cached = it.p.ghost.setdefault('_unpacked', {})
    key = t.get_id()
    if key in cached:
        return cached[key]
    if len(recs) == 1:
        rec = recs[0]
    else:
        rec = None
        st = z3.simplify(t)
        if z3.is_app(st):
            for r in recs:
                if st.decl().eq(r.ctor):
                    rec = r
                    t = st
        if rec is None:
            idx = it.p.choose([r.recog(t) for r in recs], 'constructor of %s' % pk.tdesc)
            rec = recs[idx]
    o = Obj(rec.cls)
    st = z3.simplify(t)
    direct = z3.is_app(st) and st.decl().eq(rec.ctor)
    for i, (f, d) in enumerate(rec.fields):
        ft = st.arg(i) if direct else rec.accs[i](t)
        o.fields[f] = from_term(it, ft, d)
    cached[key] = o
    return o


def write_back(it, obj):
    """obj was unpacked from a container element and has been mutated: store it back."""
    parent, accessor = obj.origin
    accessor(it, obj)
