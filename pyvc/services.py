"""Harness for the service-class providers and users (sopclass.py): stubs of the association
(`asce`), the application entity callbacks (`asce.ae`), decoded data sets and sub-associations.
Everything a provider *sends* is recorded (snapshot at the moment of the call) on the path's
ghost trace; the message object itself is marked as handed over (the real send() only queues a
lazy generator that reads the object later), so a later store to it is detectable.
"""
import ast
import z3
from . import smt
from .values import (Unsupported, Builtin, ClassVal, Obj, DictVal, ListVal, Opaque, NamedTupleVal,
                     BoundMethod, SeqVal, ExcVal, Raised, PathEnd, int_term)
from .contracts import snapshot


def method(fn):
    b = Builtin(fn.__name__, fn)
    b.is_method = True
    return b


class Harness(object):
    def __init__(self, it):
        self.it = it
        obj = it.builtins['object']
        self.on_send = []          # callbacks(it, harness, msg, pc_id, who)
        self.app = {}              # callback name -> function(it, harness, args) -> value (may raise Raised)
        self.optional_attrs = set()   # data-set attributes that may be absent (probed with hasattr)
        h = self

        # ---- decoded data set: attributes are opaque, existence nondeterministic
        def dd_hook(it, me, name):
            if name.startswith('_') or name in me.fields:
                return Ellipsis
            cache = me.fields.setdefault('_attrs', {})
            if name not in cache:
                present = it.p.fresh('has_' + name, smt.Bool)
                cache[name] = (present, Opaque('%s.%s' % (me.fields.get('_name', 'ds'), name)))
            present, val = cache[name]
            # well-formed information objects carry their mandatory attributes; only the
            # attributes the code itself probes with hasattr() may be absent
            if name not in h.optional_attrs or it.p.branch(present):
                return val
            it.raise_exc('AttributeError', name)
        self.DecodedDataset = ClassVal('DecodedDataset', [obj], {}, 'harness')
        self.dd_hook = dd_hook

        # ---- association stub
        def a_send(it, args, kw):
            me, msg, pc_id = args[0], args[1], args[2]
            h.record_send(me, msg, pc_id)

        def a_receive(it, args, kw):
            fn = h.app.get('receive')
            if fn is None:
                raise Unsupported('asce.receive() without an inbox model')
            return fn(it, h, args)

        def a_get_scu(it, args, kw):
            fn = h.app.get('get_scu')
            if fn is None:
                raise Unsupported('assoc.get_scu() without a model')
            return fn(it, h, args)
        self.Asce = ClassVal('AssociationStub', [obj], {'send': method(a_send), 'receive': method(a_receive),
                                                        'get_scu': method(a_get_scu)}, 'harness')

        # ---- application entity stub: every on_* callback goes to the app oracle
        def make_cb(name):
            def cb(it, args, kw):
                fn = h.app.get(name)
                if fn is None:
                    raise Unsupported('application callback %s without an oracle' % name)
                return fn(it, h, args[1:])
            return method(cb)
        cbs = {n: make_cb(n) for n in ('on_receive_echo', 'on_receive_store', 'on_receive_find',
                                       'on_receive_move', 'on_commitment_request', 'on_commitment_response',
                                       'request_association')}
        self.Ae = ClassVal('AEStub', [obj], cbs, 'harness')

    # ------------------------------------------------------------------
    def new_asce(self, name='asce'):
        it = self.it
        a = Obj(self.Asce)
        a.fields['name'] = name
        ae = Obj(self.Ae)
        ae.fields['local_ae'] = DictVal([('key', 'aet', it.p.fresh('local_aet', smt.Str))])
        ae.fields['context_def_list'] = DictVal()
        ae.fields['store_in_file'] = it.call(it.builtins['set'], [], {})
        a.fields['ae'] = ae
        a.fields['remote_ae'] = it.p.fresh('remote_aet', smt.Str)
        return a

    def new_ctx(self, name='ctx'):
        it = self.it
        asc = it.modules['pynetdicom2.asceprovider']
        ts = Obj(ClassVal('TransferSyntaxUID', [it.builtins['object']], {}, 'harness'))
        ts.fields['is_implicit_VR'] = it.p.fresh('implicit_vr', smt.Bool)
        ts.fields['is_little_endian'] = it.p.fresh('little_endian', smt.Bool)
        return NamedTupleVal(asc.attrs['PContextDef'],
                             (it.p.fresh_int(name + '.id'), it.p.fresh(name + '.sop_class', smt.Str), ts))

    def new_decoded(self, name):
        d = Obj(self.DecodedDataset)
        d.fields['_name'] = name
        d.getattr_hook = self.dd_hook
        return d

    def new_message(self, cls, **fields):
        """a received message: built by the real constructor, then filled with symbolic values"""
        it = self.it
        m = it.instantiate(cls, [], {})
        for k, v in fields.items():
            it.setattr(m, k, v)
        return m

    # ------------------------------------------------------------------
    def record_send(self, asce, msg, pc_id):
        it = self.it
        snap = snapshot(msg)
        it.p.trace.append(('send', asce.fields.get('name'), snap, pc_id))
        it.p.ghost['sent_count'] = it.p.ghost.get('sent_count', 0) + 1
        # the real send() only queues a lazy generator that reads command_set and data_set when the
        # provider thread gets to it: from now on the message belongs to the encoder
        self.set_moved(msg, True)
        for cb in self.on_send:
            cb(it, self, msg, pc_id, asce)

    def set_moved(self, msg, flag):
        """mark a message, its command set and every command element as handed over (flag may be
        a symbolic Bool when a loop havocs it)"""
        msg.fields['_moved'] = flag
        cs = msg.fields.get('command_set')
        if isinstance(cs, Obj):
            cs.fields['_moved'] = flag
            elems = cs.fields.get('_elems')
            for kind, key, e in (elems.entries if elems is not None else []):
                if isinstance(e, Obj):
                    e.fields['_moved'] = flag

    def install_ownership_monitor(self):
        """every store to a handed-over message (data set, command set, a command element's value)
        is a proof obligation `not moved`"""
        it = self.it
        dm = it.modules['pynetdicom2.dimsemessages']
        base = dm.attrs['DIMSEMessage']
        de = it.hooks.get('DataElement')
        ds = it.hooks.get('Dataset')

        def on_setattr(it2, obj, name, v):
            m = obj.fields.get('_moved')
            if m is None or m is False:
                return
            if obj.cls.is_subclass(base):
                if name not in ('_data_set', 'command_set'):
                    return
                what = 'message.%s' % name
            elif obj.cls is de:
                if name != 'value':
                    return
                what = 'command element %r' % (obj.fields.get('tag'),)
            elif obj.cls is ds:
                what = 'command set attribute %s' % name
            else:
                return
            goal = z3.BoolVal(False) if m is True else z3.Not(m)
            it2.p.oblige('%s#owned' % it2.p.label, goal, kind='ownership', meta={'store_to': what},
                         assume_after=False)
        it.hooks['on_setattr'] = on_setattr

    def watch(self, msg):
        """after send(): any store to the message (or to its command-set elements) is an
        ownership violation, reported through ghost 'stores_after_send'"""
        it = self.it
        if getattr(msg, '_watched', False):
            return
        msg._watched = True
        log = it.p.ghost.setdefault('stores_after_send', [])
        cs = msg.fields.get('command_set')
        prev_hook = getattr(msg, 'setattr_hook', None)

        def msg_hook(it2, me, name, v):
            if name in ('_data_set', 'command_set'):
                log.append(('message.%s' % name, me))
            return prev_hook(it2, me, name, v) if prev_hook else False
        msg.setattr_hook = msg_hook
        if cs is not None:
            elems = cs.fields.get('_elems')
            for kind, key, e in (elems.entries if elems is not None else []):
                if isinstance(e, Obj):
                    def ehook(it2, me, name, v, key=key, msg=msg):
                        if name == 'value':
                            log.append(('command_set[%r].value' % (key,), msg))
                        return False
                    e.setattr_hook = ehook


def sends(p, who=None):
    return [e for e in p.trace if e[0] == 'send' and (who is None or e[1] == who)]


def install_native_replayer(ctx):
    """refuted obligations of the service properties are replayed on the real providers under
    CPython (replay/services.py): the provider is taken from the obligation name"""
    import re
    from . import replay

    def replayer(ctx2, ob, model):
        m = re.search(r'sopclass\.([A-Za-z_\.]+)', ob.name)
        prov = m.group(1).split('[')[0] if m else None
        if ob.name.startswith('pynetdicom2.c_find'):
            prov = 'c_find'
        if prov and prov.startswith('StorageCommitment.'):
            prov = prov
        r = replay.run_native('services.py', {'provider': prov}, timeout=300)
        r['searched_provider'] = prov
        return r
    ctx.replayers['*'] = replayer
