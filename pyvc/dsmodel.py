"""Assumed contract on pydicom.Dataset / DataElement (pydicom 2.4.5), as far as the repository uses
them on *command sets*: an insertion-ordered map  tag -> element, elements addressed by keyword
attribute or by (group, element) tuple, element.value mutable.  Audited against the installed
pydicom by replay/audit_pydicom.py on every run of a check that depends on it.

Data sets proper (pixel data etc.) are never interpreted: they travel as opaque byte strings.
"""
import z3
from . import smt
from .values import (Unsupported, Builtin, ClassVal, Obj, DictVal, ListVal, Opaque, ModuleVal,
                     BoundMethod, is_strlike)

COMMAND_KEYWORDS = {
    'CommandGroupLength': (0x0000, 0x0000),
    'AffectedSOPClassUID': (0x0000, 0x0002),
    'RequestedSOPClassUID': (0x0000, 0x0003),
    'CommandField': (0x0000, 0x0100),
    'MessageID': (0x0000, 0x0110),
    'MessageIDBeingRespondedTo': (0x0000, 0x0120),
    'MoveDestination': (0x0000, 0x0600),
    'Priority': (0x0000, 0x0700),
    'CommandDataSetType': (0x0000, 0x0800),
    'Status': (0x0000, 0x0900),
    'AffectedSOPInstanceUID': (0x0000, 0x1000),
    'RequestedSOPInstanceUID': (0x0000, 0x1001),
    'EventTypeID': (0x0000, 0x1002),
    'AttributeIdentifierList': (0x0000, 0x1005),
    'ActionTypeID': (0x0000, 0x1008),
    'NumberOfRemainingSuboperations': (0x0000, 0x1020),
    'NumberOfCompletedSuboperations': (0x0000, 0x1021),
    'NumberOfFailedSuboperations': (0x0000, 0x1022),
    'NumberOfWarningSuboperations': (0x0000, 0x1023),
    'MoveOriginatorApplicationEntityTitle': (0x0000, 0x1030),
    'MoveOriginatorMessageID': (0x0000, 0x1031),
}
TAG_KEYWORD = {v: k for k, v in COMMAND_KEYWORDS.items()}


class TagVal(int):
    """pydicom.tag.BaseTag: an int (group << 16 | element) that also compares equal to the
    (group, element) pair (ops.values_equal)"""
    is_dicom_tag = True

    def __repr__(self):
        return '(%04x, %04x)' % (int(self) >> 16, int(self) & 0xFFFF)


def tag_val(tag):
    if isinstance(tag, tuple):
        return TagVal((tag[0] << 16) | tag[1])
    return TagVal(int(tag))


def install(it):
    obj = it.builtins['object']

    def method(fn):
        b = Builtin(fn.__name__, fn)
        b.is_method = True
        return b

    # ---- DataElement
    def de_init(it, args, kw):
        me = args[0]
        me.fields['tag'] = tag_val(args[1]) if isinstance(args[1], (int, tuple)) else args[1]
        me.fields['VR'] = args[2] if len(args) > 2 else kw.get('VR')
        me.fields['value'] = args[3] if len(args) > 3 else kw.get('value')
    DataElement = ClassVal('DataElement', [obj], {'__init__': method(de_init)}, 'pydicom')

    def new_elem(it, tag, value):
        e = Obj(DataElement)
        e.fields['tag'] = tag_val(tag)
        e.fields['VR'] = None
        e.fields['value'] = value
        return e

    def norm_tag(it, key):
        if isinstance(key, tuple) and len(key) == 2 and all(isinstance(x, int) for x in key):
            return key
        if isinstance(key, int):
            return (key >> 16, key & 0xFFFF)
        if isinstance(key, str) and key in COMMAND_KEYWORDS:
            return COMMAND_KEYWORDS[key]
        raise Unsupported('Dataset key %r' % (key,))

    # ---- Dataset
    def ds_init(it, args, kw):
        args[0].fields['_elems'] = DictVal()

    def ds_getitem(it, args, kw):
        me, key = args
        tag = norm_tag(it, key)
        return it.dict_get(me.fields['_elems'], tag)          # KeyError if absent

    def ds_setitem(it, args, kw):
        me, key, elem = args
        it.dict_set(me.fields['_elems'], norm_tag(it, key), elem)

    def ds_contains(it, args, kw):
        me, key = args
        return it.dict_contains(me.fields['_elems'], norm_tag(it, key))

    def ds_get(it, args, kw):
        me, key = args[0], args[1]
        default = args[2] if len(args) > 2 else kw.get('default')
        if isinstance(key, str):
            if key not in COMMAND_KEYWORDS:
                raise Unsupported('Dataset.get(%r)' % key)
            e = it.dict_get(me.fields['_elems'], COMMAND_KEYWORDS[key], None)
            return default if e is None else e.fields['value']
        return it.dict_get(me.fields['_elems'], norm_tag(it, key), default)

    def ds_values(it, args, kw):
        d = args[0].fields['_elems']
        return ListVal([it.dict_get(d, k) for k in it.dict_keys(d)])

    def ds_keys(it, args, kw):
        return ListVal(it.dict_keys(args[0].fields['_elems']))

    def ds_len(it, args, kw):
        return len(it.dict_keys(args[0].fields['_elems']))

    def ds_iter_tags_sorted(it, me):
        return sorted(it.dict_keys(me.fields['_elems']))

    Dataset = ClassVal('Dataset', [obj], {
        '__init__': method(ds_init), '__getitem__': method(ds_getitem), '__setitem__': method(ds_setitem),
        '__contains__': method(ds_contains), 'get': method(ds_get), 'values': method(ds_values),
        'keys': method(ds_keys), '__len__': method(ds_len),
    }, 'pydicom')

    def ds_getattr_hook(it, me, name):
        if name in COMMAND_KEYWORDS:
            e = it.dict_get(me.fields['_elems'], COMMAND_KEYWORDS[name], None)
            if e is None:
                it.raise_exc('AttributeError', name)
            return e.fields['value']
        if name in me.fields or name.startswith('_'):
            return Ellipsis
        a, owner = me.cls.lookup(name)
        if owner is not None:
            return Ellipsis
        extra = me.fields.get('_extra')
        if extra is not None and name in extra:
            return extra[name]
        if name[:1].isupper():
            it.raise_exc('AttributeError', name)
        return Ellipsis

    def ds_setattr_hook(it, me, name, v):
        if name in COMMAND_KEYWORDS:
            tag = COMMAND_KEYWORDS[name]
            e = it.dict_get(me.fields['_elems'], tag, None)
            if e is None:
                it.dict_set(me.fields['_elems'], tag, new_elem(it, tag, v))
            else:
                e.fields['value'] = v        # existing element keeps its position
            return True
        if name[:1].isupper():
            me.fields.setdefault('_extra', {})[name] = v
            return True
        return False

    orig_instantiate_init = Dataset.attrs['__init__']

    def ds_init2(it, args, kw):
        orig_instantiate_init.fn(it, args, kw)
        args[0].getattr_hook = ds_getattr_hook
        args[0].setattr_hook = ds_setattr_hook
    Dataset.attrs['__init__'] = method(ds_init2)

    it.hooks['Dataset'] = Dataset
    it.hooks['DataElement'] = DataElement
    it.hooks['new_command_elem'] = new_elem
    mods = it.model_modules
    pyd = mods.get('pydicom')
    pyd.attrs['Dataset'] = Dataset
    pyd.attrs['DataElement'] = DataElement
    ds_mod = ModuleVal('pydicom.dataset', {'Dataset': Dataset})
    mods['pydicom.dataset'] = ds_mod
    pyd.attrs['dataset'] = ds_mod
