"""Reference layouts and validity natively: dispatch from a class key to the functions of
/verif/spec/ps38_layouts.py (the same table as contracts/pdu_c.py)."""
from spec import ps38_layouts as L

SUB = ('MaximumLengthSubItem ImplementationClassUIDSubItem ImplementationVersionNameSubItem '
       'AsynchronousOperationsWindowSubItem ScpScuRoleSelectionSubItem SOPClassExtendedNegotiationSubItem '
       'UserIdentityNegotiationSubItem UserIdentityNegotiationSubItemAc GenericUserDataSubItem').split()
VAR = 'ApplicationContextItem PresentationContextItemRQ PresentationContextItemAC UserInformationItem'.split()


def _fns(key):
    name = key.split('.')[-1]
    if name in SUB:
        return L.valid_sub_item, L.wire_sub_item
    if name in VAR:
        return L.valid_var_item, L.wire_var_item
    return {
        'AbstractSyntaxSubItem': (L.valid_abstract_syntax, L.wire_abstract_syntax),
        'TransferSyntaxSubItem': (L.valid_transfer_syntax, L.wire_transfer_syntax),
        'PresentationDataValueItem': (L.valid_pdv, L.wire_pdv),
        'AAssociateRqPDU': (L.valid_associate, lambda p: L.wire_associate(p, 1)),
        'AAssociateAcPDU': (L.valid_associate, lambda p: L.wire_associate(p, 2)),
        'AAssociateRjPDU': (L.valid_rj, L.wire_rj),
        'PDataTfPDU': (L.valid_pdata, L.wire_pdata),
        'AReleaseRqPDU': (L.valid_release, lambda p: L.wire_release(p, 5)),
        'AReleaseRpPDU': (L.valid_release, lambda p: L.wire_release(p, 6)),
        'AAbortPDU': (L.valid_abort, L.wire_abort),
    }[name]


def valid(key, v):
    return bool(_fns(key)[0](v))


def wire(key, v):
    return _fns(key)[1](v)
