"""Native twins of the spec prelude (pyvc/prelude.py) so that the spec modules under /verif/spec
run unchanged under CPython in the replay harnesses."""
import struct


def be1(x):
    return struct.pack('>B', x)


def be2(x):
    return struct.pack('>H', x)


def be4(x):
    return struct.pack('>I', x)


def enc(s):
    return s.encode('utf8')


def is_ascii(v):
    if isinstance(v, str):
        return all(ord(c) < 128 for c in v)
    return all(c < 128 for c in v)


def utf8_ok(b):
    try:
        b.decode('utf8')
        return True
    except UnicodeDecodeError:
        return False


def kind_of(x):
    return type(x).__name__


def join_map(fn, xs, elem=None):
    if isinstance(fn, str):
        return b''.join(getattr(x, fn)() for x in xs)
    return b''.join(fn(x) for x in xs)


def sum_map(fn, xs, elem=None):
    def val(x):
        if isinstance(fn, str):
            a = getattr(x, fn)
            return a() if callable(a) else a
        return fn(x)
    return sum(val(x) for x in xs)


def all_map(fn, xs, elem=None):
    return all(fn(x) for x in xs)


def no_pad_at_ends(s):
    return s == s.strip('\0 ')


def ae_title_field(s):
    return s.encode('ascii').ljust(16, b' ')[:16]


def implies(a, b):
    return (not a) or b
