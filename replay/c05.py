"""Native replay for C05: the real provider loop (thread not started; the body of run() taken from its
current source and stepped here) against the executable transcription of PS3.8 Table 9-10
(spec/ps38_table_9_10.py), over event histories: exhaustively to depth 3 and seeded random walks
beyond, both roles.  Events: each of the 7 PDU types from the peer, an unrecognised PDU, transport
close, ARTIM expiry, and every user primitive that is legal (defined cell) in the current state.
Compared step by step: protocol state, what was indicated to the user (kinds), what was sent (type
bytes), connection open/closed, ARTIM running.
stdin: {"obligation": name}; stdout (last line): JSON {"reproduced", "failures", "evaluations", "bound"}"""
import itertools
import json
import os
import random
import sys
import threading
import warnings

warnings.filterwarnings('ignore')
sys.path.insert(0, os.environ.get('VERIF_REPO', '/repo'))
sys.path.insert(0, os.path.join(os.path.dirname(os.path.abspath(__file__)), '..'))
sys.path.insert(0, os.path.dirname(os.path.abspath(__file__)))
threading.Thread.start = lambda self: None

from pynetdicom2 import dulprovider, fsm, pdu, userdataitems, dimsemessages  # noqa: E402
import spec.ps38_table_9_10 as T  # noqa: E402
import c03 as R3  # noqa: E402   (loop-body extraction, fake socket)

STEP = R3.STEP
KIND_CLS = {'A-ASSOCIATE-RQ': pdu.AAssociateRqPDU, 'A-ASSOCIATE-AC': pdu.AAssociateAcPDU,
            'A-ASSOCIATE-RJ': pdu.AAssociateRjPDU, 'P-DATA-TF': pdu.PDataTfPDU, 'A-RELEASE-RQ': pdu.AReleaseRqPDU,
            'A-RELEASE-RP': pdu.AReleaseRpPDU, 'A-ABORT': pdu.AAbortPDU}


def make(kind):
    items = [pdu.ApplicationContextItem('1.2.840.10008.3.1.1.1'),
             pdu.UserInformationItem([userdataitems.MaximumLengthSubItem(16384)])]
    if kind == 'A-ASSOCIATE-RQ':
        x = pdu.AAssociateRqPDU('A', 'B', items)
        x.called_presentation_address = ('127.0.0.1', 1)
        return x
    if kind == 'A-ASSOCIATE-AC':
        return pdu.AAssociateAcPDU('A', 'B', items)
    if kind == 'A-ASSOCIATE-RJ':
        return pdu.AAssociateRjPDU(1, 1, 1)
    if kind == 'P-DATA-TF':
        m = dimsemessages.CEchoRQMessage()
        m.message_id = 1
        m.sop_class_uid = '1.2.840.10008.1.1'
        m.set_length()
        return next(m.encode(1, 16384))
    if kind == 'A-RELEASE-RQ':
        return pdu.AReleaseRqPDU()
    if kind == 'A-RELEASE-RP':
        return pdu.AReleaseRpPDU()
    return pdu.AAbortPDU(0, 0)


class Model(object):
    """the reference machine: state, connection, ARTIM, per step the expected outputs"""

    def __init__(self, role):
        self.role = role
        self.sta = 1
        self.conn = role == 'acceptor'
        self.artim = False

    def step(self, evt):
        cell = T.CELLS.get((evt, self.sta))
        if cell is None:
            return None
        name, nxt = cell
        a = T.ACTIONS[name]
        wire = a.get('wire')
        user = a.get('user')
        if evt == 17:
            self.conn = False          # transport connection closed indication: it is gone
        if a.get('transport') == 'close':
            self.conn = False
        if a.get('transport') == 'connect':
            self.conn = True
        if a.get('timer') == 'start':
            self.artim = True
        if a.get('timer') == 'stop':
            self.artim = False
        self.sta = nxt[self.role] if isinstance(nxt, dict) else nxt
        return (wire is not None, user is not None)


def state_no(p):
    for n in range(1, 14):
        if p.state_machine.current_state == getattr(fsm.States, 'STA_%d' % n):
            return n


def run_history(role, history):
    s = R3.Sock([])
    real_socket = dulprovider.fsm.socket.socket
    made = []

    class FakeNew(R3.Sock):
        def __init__(self, *a):
            R3.Sock.__init__(self, [])
            made.append(self)

        def connect(self, addr):
            pass
    dulprovider.fsm.socket.socket = FakeNew
    try:
        p = dulprovider.DULServiceProvider(frozenset(), None, s) if role == 'acceptor' else \
            dulprovider.DULServiceProvider(frozenset(), None)
        sock = lambda: p.dul_socket     # noqa: E731
        dulprovider.select.select = lambda r, w, x, t=None: (
            [q for q in r if getattr(q, 'chunks', None) or getattr(q, 'eof', False)], [], [])
        m = Model(role)
        if role == 'acceptor':
            STEP(p)                       # the connection indication queued by the constructor
            m.step(5)
        for i, ev in enumerate(history):
            seen0 = p.to_service_user.qsize()
            cur = sock()
            sent0 = len(cur.sent) if cur is not None else 0
            kind, what = ev
            if kind == 'peer':
                if cur is None:
                    continue
                cur.chunks.append(make(what).encode() if what != 'junk' else b'\x09\x00\x00\x00\x00\x02ab')
                evt = {v: k for k, v in T.EVENT_PRIMITIVE.items() if k in T.PEER_PDU_EVENTS}.get(what, 19)
            elif kind == 'close':
                if cur is None:
                    continue
                cur.eof = True
                evt = 17
            elif kind == 'artim':
                if p.timer._start_time is None:
                    continue
                p.timer._start_time -= 100
                evt = 18
            else:
                evt = {v: k for k, v in T.EVENT_PRIMITIVE.items() if k in T.USER_EVENTS}[what]
                if T.CELLS.get((evt, m.sta)) is None:
                    continue          # not legal for the user in this state
                p.send(make(what))
            expect = m.step(evt)
            if evt == 1 and expect is not None:
                # connect() is synchronous in the library: the transport confirmation (Evt2) follows at once
                e2 = m.step(2)
                expect = (expect[0] or e2[0], expect[1] or e2[1]) if e2 else expect
            if expect is None and kind != 'user':
                # undefined cell reached by a peer event: the library raises KeyError (thread ends)
                pass
            try:
                for _ in range(4):
                    STEP(p)
            except KeyError:
                if expect is None:
                    return None
                return 'step %d %r: KeyError in a defined cell' % (i, ev)
            except Exception as e:   # noqa
                return 'step %d %r: %s %s' % (i, ev, type(e).__name__, e)
            if expect is None:
                return None
            got_state = state_no(p)
            new_sock = sock()
            indicated = p.to_service_user.qsize() - seen0
            probe = new_sock if new_sock is not None else cur
            sent = (len(probe.sent) if probe is not None else 0) - (sent0 if probe is cur else 0)
            problems = []
            if got_state != m.sta:
                problems.append('state Sta%s, protocol machine Sta%d' % (got_state, m.sta))
            if (new_sock is not None) != m.conn:
                problems.append('connection %s, protocol machine %s' % ('open' if new_sock is not None else 'closed',
                                                                         'open' if m.conn else 'closed'))
            if (p.timer._start_time is not None) != m.artim:
                problems.append('ARTIM %s, protocol machine %s' % ('running' if p.timer._start_time is not None else
                                                                    'stopped', 'running' if m.artim else 'stopped'))
            if (sent > 0) != expect[0]:
                problems.append('%d PDU(s) sent, protocol machine sends %s' % (sent, 'one' if expect[0] else 'none'))
            if what != 'P-DATA-TF' and (indicated > 0) != expect[1]:
                problems.append('%d indication(s), protocol machine gives %s' % (indicated, 'one' if expect[1] else 'none'))
            if problems:
                return 'after %r (step %d of %r): %s' % (ev, i, history, '; '.join(problems))
        return None
    finally:
        dulprovider.fsm.socket.socket = real_socket


ALPHABET = [('peer', k) for k in T.PDU_KINDS] + [('peer', 'junk'), ('close', None), ('artim', None)] + \
    [('user', k) for k in T.PDU_KINDS]


def search():
    n = 0
    rnd = random.Random(int(os.environ.get('VERIF_SEED', '1') or 1))
    for role in ('acceptor', 'requestor'):
        hists = list(itertools.product(ALPHABET, repeat=3))
        hists += [tuple(rnd.choice(ALPHABET) for _ in range(rnd.randint(4, 12))) for _ in range(600)]
        for h in hists:
            n += 1
            r = run_history(role, h)
            if r:
                yield n, {'role': role, 'history': [list(e) for e in h]}, [r]
    yield n, None, None


def main():
    json.loads(sys.stdin.read() or '{}')
    failures, n = [], 0
    for n, inp, f in search():
        if inp is None:
            break
        failures.append({'input': inp, 'failed_clauses': f})
        if len(failures) >= 20:
            break
    print(json.dumps({'reproduced': bool(failures), 'failures': failures[:6], 'evaluations': n,
                      'bound': 'both roles x (all histories of length 3 over 17 events + 600 seeded random walks of '
                               'length 4..12)'}, default=str))


if __name__ == '__main__':
    main()
