"""Native replay for the negotiation properties (C09, C10, C11): the real AssociationAcceptor.accept,
AssociationAcceptor._loop, AssociationRequester._request / get_scu and AEBase.update_context_def_list
are run under CPython on a small exhaustive universe (bounded search for a failing input after the
verifier refuted an obligation).  Objects are created without running the constructors (which open
sockets and start threads); the fields the constructors assign are set by hand.
stdin: {"obligation": name}; stdout (last line): JSON {"reproduced", "failures", "evaluations", "bound"}"""
import itertools
import json
import os
import sys
import types

sys.path.insert(0, os.environ.get('VERIF_REPO', '/repo'))
from pynetdicom2 import asceprovider, pdu, userdataitems, exceptions, applicationentity  # noqa: E402

TS = ['1.2.840.10008.1.2', '1.2.840.10008.1.2.1', '1.2.840.10008.1.2.2', '1.2.840.10008.1.2.4.50']
SOPS = ['1.2.840.10008.1.1', '1.2.840.10008.5.1.4.1.1.2', '1.2.840.10008.5.1.4.1.1.4']
GRID = [0, 7, 8, 127, 128, 1024, 16384, 65536, 2 ** 31, 2 ** 32 - 1]


class FakeDul(object):
    def __init__(self, inbox=()):
        self.sent = []
        self.inbox = list(inbox)
        self.accepted_contexts = None

    def send(self, x):
        self.sent.append(x)

    def receive(self, timeout=None):
        return self.inbox.pop(0)


def acceptor(own, served, supported):
    a = object.__new__(asceprovider.AssociationAcceptor)
    a.ae = types.SimpleNamespace(supported_scp={s: ('service', s) for s in served},
                                 supported_ts=frozenset(supported), timeout=1)
    a.dul = FakeDul()
    a.max_pdu_length = own
    a.accepted_contexts = {}
    a.sop_classes_as_scp = {}
    a.remote_ae = b''
    a.is_killed = False
    a.association_established = False
    return a


def request_pdu(contexts, peer):
    items = [pdu.ApplicationContextItem('1.2.840.10008.3.1.1.1')]
    for cid, sop, tss in contexts:
        items.append(pdu.PresentationContextItemRQ(cid, pdu.AbstractSyntaxSubItem(sop),
                                                   [pdu.TransferSyntaxSubItem(t) for t in tss]))
    items.append(pdu.UserInformationItem([userdataitems.MaximumLengthSubItem(peer),
                                          userdataitems.ImplementationClassUIDSubItem('1.2.3')]))
    return pdu.AAssociateRqPDU('CALLED', 'CALLING', items)


def length_clauses(own, peer, eff, announced):
    out = []
    if peer != 0 and not (eff != 0 and eff <= peer):
        out.append('bound')
    if peer == 0 and eff != own:
        out.append('unlimited')
    if not (eff == 0 or eff >= 7):
        out.append('usable')
    if own != 0 and not (1 <= announced <= own):
        out.append('announce')
    return out


def check_accept(own, peer, contexts, served, supported):
    a = acceptor(own, served, supported)
    rq = request_pdu(contexts, peer)
    try:
        a.accept(rq)
    except Exception as e:   # noqa
        return ['noexc: %s %s' % (type(e).__name__, e)]
    fails = []
    if len(a.dul.sent) != 1 or not isinstance(a.dul.sent[0], pdu.AAssociateAcPDU):
        return ['one-reply']
    ac = a.dul.sent[0]
    if ac.called_ae_title != rq.called_ae_title:
        fails.append('reply-called-ae-title')
    if ac.calling_ae_title != rq.calling_ae_title:
        fails.append('reply-calling-ae-title')
    if not (ac.variable_items and ac.variable_items[0] is rq.variable_items[0] and
            ac.variable_items[-1] is rq.variable_items[-1]):
        fails.append('reply-repeats-application-context-and-user-information')
    answers = ac.variable_items[1:-1]
    if len(answers) != len(contexts):
        fails.append('one-answer-per-context')
    else:
        for (cid, sop, tss), ans in zip(contexts, answers):
            if not isinstance(ans, pdu.PresentationContextItemAC):
                fails.append('answer-is-ac-item')
                continue
            if ans.context_id != cid:
                fails.append('answer-carries-the-proposed-id')
            should = sop in served and any(t in supported for t in tss)
            if (ans.result_reason == 0) != should:
                fails.append('accepted-iff-served-and-some-ts-supported')
            if ans.result_reason == 0:
                if ans.ts_sub_item.name not in tss:
                    fails.append('accepted-ts-was-proposed')
                if ans.ts_sub_item.name not in supported:
                    fails.append('accepted-ts-is-supported')
                e1, e2 = a.sop_classes_as_scp.get(cid), a.accepted_contexts.get(cid)
                if e1 is None or e2 is None:
                    fails.append('tables-written-iff-accepted')
                else:
                    if tuple(e1) != (cid, sop, ans.ts_sub_item.name):
                        fails.append('scp-table-entry')
                    if tuple(e2) != (cid, sop, ans.ts_sub_item.name):
                        fails.append('accepted-contexts-entry')
            elif cid in a.sop_classes_as_scp or cid in a.accepted_contexts:
                fails.append('tables-written-iff-accepted')
    if a.dul.accepted_contexts is not a.accepted_contexts:
        fails.append('provider-routes-by-the-same-table')
    ml = ac.variable_items[-1].user_data[0]
    fails += length_clauses(own, peer, a.max_pdu_length, ml.maximum_length_received)
    return fails


def search_accept():
    n = 0
    ts_lists = [l for k in (1, 2) for l in itertools.permutations(TS[:3], k)]
    for served in ([], [SOPS[0]], SOPS[:2]):
        for supported in ([], [TS[0]], [TS[1], TS[2]], TS[:3]):
            for ncx in (0, 1, 2):
                for combo in itertools.product(itertools.product(SOPS[:2], ts_lists), repeat=ncx):
                    contexts = [(2 * i + 1, sop, list(tss)) for i, (sop, tss) in enumerate(combo)]
                    n += 1
                    f = check_accept(16384, 65536, contexts, served, supported)
                    if f:
                        yield n, {'own': 16384, 'peer': 65536, 'contexts': contexts, 'served': served,
                                  'supported_ts': supported}, f
    # context ids that are not ascending: answered in the proposed order all the same
    for ids in ((3, 1), (5, 1, 3), (255, 1)):
        n += 1
        contexts = [(cid, SOPS[i % 2], [TS[0]]) for i, cid in enumerate(ids)]
        f = check_accept(16384, 65536, contexts, SOPS[:1], [TS[0]])
        if f:
            yield n, {'own': 16384, 'peer': 65536, 'contexts': contexts, 'served': SOPS[:1], 'supported_ts': [TS[0]]}, f
    for own in GRID:
        for peer in GRID:
            n += 1
            f = check_accept(own, peer, [(1, SOPS[0], [TS[0]])], [SOPS[0]], [TS[0]])
            if f:
                yield n, {'own': own, 'peer': peer}, f
    yield n, None, None


# ---------------------------------------------------------------------------------- requester
def requester(own, table, used, reply):
    r = object.__new__(asceprovider.AssociationRequester)
    r.ae = types.SimpleNamespace(supported_scu={s: (lambda *a, **k: ('called', a, k)) for s in used},
                                 supported_scp={}, timeout=1, local_ae={'aet': 'LOCAL', 'address': 'here'})
    r.dul = FakeDul([reply] if reply is not None else [])
    r.max_pdu_length = own
    r.accepted_contexts = {}
    r.context_def_list = dict(table)
    r.remote_ae = {'aet': 'REMOTE', 'address': '10.0.0.1', 'port': 104}
    r.sop_classes_as_scu = {}
    r.association_established = False
    return r


def reply_pdu(answers, peer):
    items = [pdu.ApplicationContextItem('1.2.840.10008.3.1.1.1')]
    for cid, result, ts in answers:
        items.append(pdu.PresentationContextItemAC(cid, result, pdu.TransferSyntaxSubItem(ts)))
    items.append(pdu.UserInformationItem([userdataitems.MaximumLengthSubItem(peer)]))
    return pdu.AAssociateAcPDU('REMOTE', 'LOCAL', items)


def check_request(own, peer, sops, supported, pattern):
    """sops: configured SOP classes (ids 1,3,..); pattern: per context (result, chosen ts)"""
    table = {2 * i + 1: asceprovider.PContextDef(2 * i + 1, s, frozenset(supported)) for i, s in enumerate(sops)}
    answers = [(2 * i + 1, res, ts) for i, (res, ts) in enumerate(pattern)]
    r = requester(own, table, sops, reply_pdu(answers, peer))
    try:
        r._request(r.ae.local_ae, r.remote_ae)
    except Exception as e:   # noqa
        return ['noexc: %s %s' % (type(e).__name__, e)]
    fails = []
    if len(r.dul.sent) != 1 or not isinstance(r.dul.sent[0], pdu.AAssociateRqPDU):
        return ['one-request']
    rq = r.dul.sent[0]
    if rq.called_ae_title != 'REMOTE':
        fails.append('called-is-the-remote-entity')
    if rq.calling_ae_title != 'LOCAL':
        fails.append('calling-is-the-local-entity')
    first = rq.variable_items[0]
    if not (isinstance(first, pdu.ApplicationContextItem) and first.context_name == '1.2.840.10008.3.1.1.1'):
        fails.append('dicom-application-context')
    proposed = rq.variable_items[1:-1]
    if len(proposed) != len(table):
        fails.append('one-context-per-table-entry')
    for item, (cid, cdef) in zip(proposed, table.items()):
        if item.context_id != cid or item.abs_sub_item.name != cdef.sop_class:
            fails.append('context-item')
        if sorted(t.name for t in item.ts_sub_items) != sorted(supported):
            fails.append('configured-transfer-syntaxes')
    ui = rq.variable_items[-1]
    if not (isinstance(ui, pdu.UserInformationItem) and ui.user_data and
            isinstance(ui.user_data[0], userdataitems.MaximumLengthSubItem)):
        fails.append('request-announces-a-maximum-length')
    else:
        fails += length_clauses(own, peer, r.max_pdu_length, ui.user_data[0].maximum_length_received)
        if ui.user_data[0].maximum_length_received != own:
            fails.append('announces-the-configured-maximum')
    want = {cid: (cid, table[cid].sop_class, ts) for cid, res, ts in answers if res == 0}
    got = {k: tuple(v) for k, v in r.accepted_contexts.items()}
    if got != want:
        fails.append('usable-iff-accepted')
    for cid, (c, sop, ts) in want.items():
        if tuple(r.sop_classes_as_scu.get(sop, ())) != (cid, ts) and \
                not any(c2 > cid and s2 == sop for c2, (_, s2, _) in want.items()):
            fails.append('scu-table-entry')
    if r.dul.accepted_contexts is not r.accepted_contexts:
        fails.append('provider-routes-by-the-same-table')
    # service lookup
    for sop in sops + ['9.9.9']:
        usable = any(s == sop for (_, s, _) in want.values())
        try:
            svc = r.get_scu(sop)
            ok = usable and callable(svc)
            if ok:
                res = svc()
                ctx = res[1][1]
                if res[1][0] is not r or ctx.sop_class != sop or ctx.id not in want or want[ctx.id][2] != ctx.supported_ts:
                    fails.append('service-bound-to-association-and-context')
        except exceptions.ClassNotSupportedError:
            ok = not usable
        except Exception as e:   # noqa
            fails.append('lookup-fails-with-class-not-supported (%s)' % type(e).__name__)
            ok = True
        if not ok:
            fails.append('service-iff-usable-context')
    return fails


def search_request():
    n = 0
    supported = TS[:2]
    for nsop in (0, 1, 2, 3):
        sops = SOPS[:nsop]
        for pattern in itertools.product([(0, TS[0]), (0, TS[1]), (1, ''), (3, ''), (4, '')], repeat=nsop):
            n += 1
            f = check_request(16384, 65536, sops, supported, pattern)
            if f:
                yield n, {'sops': sops, 'reply': pattern}, f
    # the whole id range: 128 configured classes (ids 1 .. 255), all accepted / the last one rejected
    many = ['1.2.826.0.1.3680043.9.%d' % i for i in range(128)]
    for last in ((0, TS[0]), (3, '')):
        n += 1
        f = check_request(16384, 65536, many, supported, [(0, TS[0])] * 127 + [last])
        if f:
            yield n, {'sops': '128 classes (ids 1..255)', 'reply': 'all accepted' if last[0] == 0 else 'id 255 rejected'}, f
    for own in GRID:
        for peer in GRID:
            n += 1
            f = check_request(own, peer, SOPS[:1], supported, [(0, TS[0])])
            if f:
                yield n, {'own': own, 'peer': peer}, f
    yield n, None, None


# ---------------------------------------------------------------------------------- dispatch
def search_loop():
    n = 0
    for in_table, served, elsewhere in itertools.product((False, True), repeat=3):
        if True:
            n += 1
            a = acceptor(16384, [SOPS[0]] if served else [], TS[:1])
            if elsewhere:
                # the message's SOP class was accepted under another context id
                a.sop_classes_as_scp[3] = (3, SOPS[0], TS[1])
            calls = []

            def svc(assoc, ctx, msg, calls=calls, a=a):
                calls.append((assoc, ctx, msg))
                a.is_killed = True
            if served:
                a.ae.supported_scp[SOPS[0]] = svc
            if in_table:
                a.sop_classes_as_scp[5] = (5, SOPS[1], TS[0])
            msg = types.SimpleNamespace(sop_class_uid=SOPS[0])
            a.receive = lambda: (msg, 5)
            fails, raised = [], None
            try:
                a._loop()
            except exceptions.ClassNotSupportedError:
                raised = 'ClassNotSupportedError'
            except Exception as e:   # noqa
                raised = type(e).__name__
            if bool(calls) != (in_table and served):
                fails.append('served-iff-context-accepted')
            if not calls and raised != 'ClassNotSupportedError':
                fails.append('unaccepted-context-is-class-not-supported')
            if calls:
                _, ctx, m = calls[0]
                if tuple(ctx) != (5, SOPS[1], TS[0]):
                    fails.append('service-gets-the-negotiated-context')
                if m is not msg:
                    fails.append('service-gets-the-message')
            if fails:
                yield n, {'context_in_table': in_table, 'class_served': served,
                          'class_accepted_under_another_id': elsewhere}, fails
    yield n, None, None


# ---------------------------------------------------------------------------------- id allocation
def search_ids():
    n = 0
    sizes = [0, 1, 2, 3, 64, 127, 128]
    for seq in itertools.chain(([a] for a in sizes), ([a, b] for a in sizes for b in sizes if a + b <= 128),
                               ([1, 1, 1], [2, 0, 3], [126, 1, 1])):
        n += 1
        ae = object.__new__(applicationentity.AEBase)
        applicationentity.AEBase.__init__(ae, None, 16384)
        k = 0
        classes = []
        for m in seq:
            cl = ['1.2.3.%d' % (k + j) for j in range(m)]
            k += m
            classes += cl
            ae.update_context_def_list(cl)
        ids = list(ae.context_def_list.keys())
        fails = []
        if ids != [2 * i + 1 for i in range(len(classes))]:
            fails.append('ids-are-1-3-5')
        if [ae.context_def_list[i].sop_class for i in ids] != classes:
            fails.append('each-class-once-in-order')
        if any(i > 255 for i in ids):
            fails.append('ids-at-most-255')
        if any(ae.context_def_list[i].supported_ts != ae.supported_ts or ae.context_def_list[i].id != i for i in ids):
            fails.append('entry-fields')
        if fails:
            yield n, {'add_calls': seq}, fails
    # beyond 128 classes
    for total in (129, 139, 200):
        n += 1
        ae = object.__new__(applicationentity.AEBase)
        applicationentity.AEBase.__init__(ae, None, 16384)
        ae.update_context_def_list(['1.2.3.%d' % j for j in range(total)])
        if max(ae.context_def_list) > 255:
            yield n, {'add_calls': [total]}, ['ids-at-most-255']
    yield n, None, None


def search_add():
    """add_scu / add_scp: the classes put into the proposal are the classes registered with the service"""
    n = 0
    own_lists = [[], SOPS[:1], SOPS[:2]]
    overrides = [None, [], SOPS[:1], SOPS[1:3], SOPS[:3], ['9.9.9']]
    for which in ('add_scu', 'add_scp'):
        for own in own_lists:
            for given in (overrides if which == 'add_scu' else [None]):
                for earlier in ([], ['7.7.7'], SOPS[2:3]):
                    n += 1
                    ae = object.__new__(applicationentity.AEBase)
                    applicationentity.AEBase.__init__(ae, None, 16384)
                    ae.supported_scp = {}
                    old = types.SimpleNamespace(sop_classes=list(earlier))
                    reg = ae.supported_scu if which == 'add_scu' else ae.supported_scp
                    reg.update({u: old for u in earlier})
                    before = dict(reg)
                    proposed_before = [c.sop_class for c in ae.context_def_list.values()]
                    svc = types.SimpleNamespace(sop_classes=list(own))
                    fails = []
                    try:
                        if which == 'add_scu':
                            r = ae.add_scu(svc) if given is None else ae.add_scu(svc, given)
                        else:
                            r = applicationentity.AE.add_scp(ae, svc)
                    except Exception as e:   # noqa
                        yield n, {'call': which, 'service_classes': own, 'override': given}, ['noexc: %r' % (e,)]
                        continue
                    eff = given if given else own
                    if r is not ae:
                        fails.append('chainable')
                    proposed = [c.sop_class for c in ae.context_def_list.values()]
                    if proposed != proposed_before + list(eff):
                        fails.append('proposal-extended-by-the-effective-list')
                    if any(reg.get(u) is not svc for u in eff):
                        fails.append('every-proposed-class-is-registered-with-the-service')
                    if any((u in reg) != (u in before) or (u in before and reg[u] is not before[u])
                           for u in set(reg) | set(before) if u not in eff):
                        fails.append('rest-of-the-registry-unchanged')
                    if fails:
                        yield n, {'call': which, 'service_classes': own, 'override': given, 'registered_earlier': earlier}, fails
    yield n, None, None


def main():
    req = json.loads(sys.stdin.read() or '{}')
    name = req.get('obligation', '')
    clause = name.split('#')[-1].split('@')[0]
    clause = clause.split(':')[-1] if clause.startswith(('inv:', 'frame:')) else clause
    if '.add_scu' in name or '.add_scp' in name:
        gen, bound = search_add(), ('add_scu / add_scp x 3 service class lists x 6 overrides (none, empty, subset, '
                                    'overlapping, superset, disjoint) x 3 earlier registrations')
    elif 'update_context_def_list' in name or '_build_context_def_list' in name or 'ids' in req.get('what', ''):
        gen, bound = search_ids(), 'sequences of add calls with 0..128 classes, and 129/139/200 classes in one call'
    elif '_loop' in name:
        gen, bound = search_loop(), 'context in table x class served x class accepted under another id'
    elif 'Requester' in name or 'get_scu' in name or 'build_pres_context_def_list' in name:
        gen, bound = search_request(), ('0..3 configured SOP classes x every reply pattern over (accept ts1, accept ts2, '
                                        'reject 1/3/4); 128 classes (ids 1..255); 10x10 maximum-length grid')
    else:
        gen, bound = search_accept(), ('0..2 proposed contexts x 2 abstract syntaxes x ordered lists of 1..2 of 3 '
                                       'transfer syntaxes x 3 served sets x 4 supported sets; 10x10 maximum-length grid')
    failures, n, related = [], 0, []
    for n, inp, f in gen:
        if inp is None:
            break
        rec = {'input': inp, 'failed_clauses': sorted(set(f))}
        if any(clause and (clause in c or c in clause) for c in f):
            related.append(rec)
        failures.append(rec)
    pick = related or failures
    print(json.dumps({'reproduced': bool(pick), 'failures': pick[:10], 'evaluations': n, 'bound': bound,
                      'matched_clause': bool(related)}, default=str))


if __name__ == '__main__':
    main()
