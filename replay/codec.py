"""Native replay / bounded search for C01 and C02: runs the real encode/decode of one class under
CPython on a bounded family of structured values of that class (all small field values and item
combinations, seeded random beyond) and reports the first values violating round trip, extent
or -- for C02 -- the reference layout.

stdin: {"key": "pdu.PDataTfPDU", "records": {...field descriptors...}, "families": {...},
        "std": bool, "seed": int, "limit": int}
stdout (last line): {"reproduced": bool, "failures": [...], "evaluations": n, "bound": "..."}"""
import io
import itertools
import json
import os
import random
import struct
import sys

sys.path.insert(0, os.environ.get('VERIF_REPO', '/repo'))
sys.path.insert(0, os.path.dirname(os.path.dirname(os.path.abspath(__file__))))
sys.path.insert(0, os.path.dirname(os.path.abspath(__file__)))

from pynetdicom2 import pdu, userdataitems  # noqa: E402

MODS = {'pdu': pdu, 'userdataitems': userdataitems}


def cls_of(key):
    m, c = key.split('.')
    return getattr(MODS[m], c)


class Gen(object):
    def __init__(self, records, families, rnd):
        self.records = records
        self.families = families
        self.rnd = rnd
        self.cache = {}

    def values(self, desc, depth=0):
        """small list of candidate values for a descriptor"""
        k = (desc, depth > 1)
        if k in self.cache:
            return self.cache[k]
        if desc == 'int':
            out = [0, 1, 4, 255, 65535, 4294967295]
        elif desc == 'str':
            out = ['', 'A', '1.2.840.10008.1.1', 'X' * 16]
        elif desc == 'bytes':
            out = [b'', b'\x00', b'AB', b'\x03' + b'\x00' * 70]
        elif desc.startswith('Tup['):
            n = len(desc[4:-1].split(','))
            out = [tuple([0] * n), tuple(range(1, n + 1))]
        elif desc.startswith('Seq['):
            inner = self.values(desc[4:-1], depth + 1)
            out = [[]]
            for v in inner[:14]:
                out.append([v])
            pairs = list(itertools.product(inner[:10], inner[:10]))
            self.rnd.shuffle(pairs)
            for a, b in pairs[:40]:
                out.append([a, b])
            for _ in range(6):
                out.append([self.rnd.choice(inner) for _ in range(3)])
        elif desc in self.families:
            out = []
            for m in self.families[desc]:
                out.extend(self.values(m, depth)[:6 if depth else 12])
        elif desc in self.records:
            out = self.instances(desc, depth)
        else:
            raise ValueError(desc)
        self.cache[k] = out
        return out

    def instances(self, key, depth):
        fields = self.records[key]
        cls = cls_of(key)
        cands = []
        for f, d in fields:
            vs = self.values(d, depth + 1)
            if depth:
                vs = vs[:3]
            cands.append(vs)
        combos = list(itertools.islice(itertools.product(*cands), 4000))
        self.rnd.shuffle(combos)
        out = []
        for combo in combos[:(600 if depth == 0 else 12)]:
            o = cls.__new__(cls)
            for (f, d), v in zip(fields, combo):
                setattr(o, f, v)
            out.append(o)
        return out


def same(a, b):
    if type(a) is not type(b) and not (isinstance(a, str) and isinstance(b, str)):
        if isinstance(a, (list, tuple)) and isinstance(b, (list, tuple)):
            pass
        else:
            return False
    if isinstance(a, (list, tuple)):
        return len(a) == len(b) and all(same(x, y) for x, y in zip(a, b))
    if hasattr(a, '__dict__') and not isinstance(a, (str, bytes, int)):
        return a.__dict__.keys() == b.__dict__.keys() and all(same(a.__dict__[k], b.__dict__[k]) for k in a.__dict__)
    return a == b


def show(v):
    if isinstance(v, list):
        return [show(x) for x in v]
    if hasattr(v, '__dict__') and not isinstance(v, (str, bytes, int)):
        return {type(v).__name__: {k: show(x) for k, x in v.__dict__.items()}}
    if isinstance(v, bytes):
        return v[:24].hex() + ('..(%d bytes)' % len(v) if len(v) > 24 else '')
    return v


def total_length(v):
    t = v.total_length
    return t() if callable(t) else t


def valid_text(v):
    """quantifier domain: ASCII text fields (all generated text is ASCII) -- nothing to filter"""
    return True


def main():
    req = json.loads(sys.stdin.read())
    key = req['key']
    rnd = random.Random(req.get('seed', 0))
    gen = Gen({k: [tuple(x) for x in v] for k, v in req['records'].items()}, req['families'], rnd)
    cls = cls_of(key)
    is_pdu = key.endswith('PDU')
    rests = [b''] if is_pdu else [b'', b'\x51\x00\x00\x04\x00\x00\x40\x00', b'\x10\x00\x00\x00']
    if key == 'pdu.PresentationContextItemRQ':
        rests = [b'', b'\x50\x00\x00\x00', b'\x20\x00\x00\x00']
    std = None
    if req.get('std'):
        import spec_native
        std = spec_native
    failures = []
    n = 0
    for v in gen.values(key)[:req.get('limit', 600)]:
        try:
            b = v.encode()
        except (struct.error, TypeError, UnicodeEncodeError, AttributeError):
            continue        # the encoder rejects the value: outside the domain
        n += 1
        bad = []
        if std is not None:
            try:
                if not std.valid(key, v):
                    continue
                w = std.wire(key, v)
                if w != b:
                    bad.append('std: encode() differs from the reference layout (%s vs %s)' % (b[:40].hex(), w[:40].hex()))
            except Exception as e:   # noqa
                bad.append('std: reference layout raised %r' % (e,))
        if total_length(v) != len(b):
            bad.append('len: total_length %r != %d bytes encoded' % (total_length(v), len(b)))
        for rest in rests:
            try:
                if is_pdu:
                    r = cls.decode(b)
                    pos = len(b)
                else:
                    s = io.BytesIO(b + rest)
                    r = cls.decode(s)
                    pos = s.tell()
            except Exception as e:   # noqa
                bad.append('decode raised %s: %s (rest=%s)' % (type(e).__name__, e, rest.hex()))
                break
            if not same(r, v):
                bad.append('rt-value: decoded %s (rest=%s)' % (json.dumps(show(r), default=str)[:300], rest.hex()))
                break
            if pos != len(b):
                bad.append('rt-consumed: stopped at %d, encoding has %d bytes (rest=%s)' % (pos, len(b), rest.hex()))
                break
            try:
                if r.encode() != b:
                    bad.append('re-encode differs')
                    break
            except Exception as e:   # noqa
                bad.append('re-encode raised %r' % (e,))
                break
        if bad:
            failures.append({'value': show(v), 'encoded': b[:64].hex(), 'violated': bad})
            if len(failures) >= 5:
                break
    print(json.dumps({'reproduced': bool(failures), 'failures': failures, 'evaluations': n,
                      'bound': 'field values from small boundary sets, lists of 0-3 items over all member kinds '
                               '(all single items, sampled pairs/triples), first %d instances, seed %d'
                               % (req.get('limit', 600), req.get('seed', 0))}, default=str))


if __name__ == '__main__':
    main()
