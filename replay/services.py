"""Native replay for C16 / C17 / C19: runs the real service providers / users of sopclass.py under
CPython against a fake association and application, over a bounded scenario grid, and checks the
clauses the contracts state.  stdin: {"provider": name or null}; stdout (last line): JSON
{"reproduced": bool, "failures": [{provider, scenario, violated: [...]}], "evaluations": n}"""
import copy
import io
import itertools
import json
import os
import sys

sys.path.insert(0, os.environ.get('VERIF_REPO', '/repo'))

import pydicom  # noqa: E402
from pynetdicom2 import sopclass, dimsemessages as dm, statuses, exceptions, asceprovider  # noqa: E402
from pydicom import uid  # noqa: E402


def snap(msg):
    """what the lazy encoder would have to see: command-set values and the data set"""
    cs = {int(e.tag): e.value for e in msg.command_set.values()}
    ds = msg.data_set
    return {'cls': type(msg).__name__, 'cs': cs, 'ds': ds if isinstance(ds, (bytes, type(None))) else 'file'}


class FakeAsce(object):
    def __init__(self, ae, inbox=()):
        self.ae = ae
        self.sent = []          # (snapshot at send time, message object, pc_id)
        self.inbox = list(inbox)
        self.remote_ae = 'REMOTE'

    def send(self, msg, pc_id):
        self.sent.append((snap(msg), msg, pc_id))

    def receive(self):
        return self.inbox.pop(0)

    def get_scu(self, sop_class):
        def service(ds, msg_id):
            self.ae.stored.append(ds)
            return self.ae.store_statuses.pop(0) if self.ae.store_statuses else statuses.SUCCESS
        return service


class FakeAE(object):
    def __init__(self):
        self.local_ae = {'aet': 'LOCAL'}
        self.context_def_list = {}
        self.store_in_file = set()
        self.stored = []
        self.store_statuses = []
        self.sub = None
        self.calls = []

    def request_association(self, remote):
        ae = self

        class CM(object):
            def __enter__(s):
                ae.sub = FakeAsce(ae, inbox=[(dm.NEventReportRSPMessage(), 1)])
                ae.calls.append('open')
                return ae.sub

            def __exit__(s, *a):
                ae.calls.append('close')
                return False
        return CM()


TS = uid.ImplicitVRLittleEndian


def ctx_of(pc_id, sop_class):
    return asceprovider.PContextDef(pc_id, uid.UID(sop_class), uid.UID(TS))


def lazy_violations(asce):
    """messages whose content changed between send() and now (the encoder runs later)"""
    out = []
    for i, (s, m, pc) in enumerate(asce.sent):
        if snap(m) != s:
            out.append('owned: message %d was modified after send()' % i)
    return out


def correlated(s, req, rsp_name, pc, ctx, instance=None):
    bad = []
    cs = s['cs']
    if s['cls'] != rsp_name:
        bad.append('send:type')
    if pc != ctx.id:
        bad.append('send:context')
    if cs.get(0x00000120) != req.message_id:
        bad.append('send:message-id')
    if cs.get(0x00000002) != req.sop_class_uid:
        bad.append('send:sop-class')
    if instance and cs.get(0x00001000) != getattr(req, instance):
        bad.append('send:sop-instance')
    return bad


def handler(outcome):
    def h(*a, **k):
        if outcome == 'raise':
            raise exceptions.EventHandlingError('x')
        return outcome
    return h


MSG_IDS = (1, 255, 256, 65535)
SOP = '1.2.840.10008.5.1.4.1.2.1.1'


def run_echo():
    for mid, outcome in itertools.product(MSG_IDS, (statuses.SUCCESS, statuses.Status(0x0110), 'raise')):
        ae = FakeAE()
        ae.on_receive_echo = handler(outcome)
        asce = FakeAsce(ae)
        req = dm.CEchoRQMessage()
        req.message_id = mid
        req.sop_class_uid = '1.2.840.10008.1.1'
        c = ctx_of(3, '1.2.840.10008.1.1')
        bad = []
        try:
            sopclass.verification_scp(asce, c, req)
        except Exception as e:   # noqa
            bad.append('noexc: %r' % e)
        if len(asce.sent) < 1:
            bad.append('answered')
        for s, m, pc in asce.sent:
            bad += correlated(s, req, 'CEchoRSPMessage', pc, c)
            exp = 0x0110 if outcome == 'raise' else int(outcome)
            if s['cs'].get(0x00000900) != exp:
                bad.append('send:status')
        yield 'verification_scp', {'message_id': mid, 'handler': str(outcome)}, bad


def run_store():
    for mid, outcome, with_ds in itertools.product(MSG_IDS, (statuses.SUCCESS, statuses.Status(0xB000), 'raise'), (True, False)):
        ae = FakeAE()
        ae.on_receive_store = handler(outcome)
        asce = FakeAsce(ae)
        req = dm.CStoreRQMessage()
        req.message_id = mid
        req.sop_class_uid = '1.2.840.10008.5.1.4.1.1.7'
        req.affected_sop_instance_uid = '1.2.3.%d' % mid
        if with_ds:
            req._data_set = io.BytesIO(b'xx')
        c = ctx_of(5, '1.2.840.10008.5.1.4.1.1.7')
        bad = []
        try:
            sopclass.storage_scp(asce, c, req)
        except Exception as e:   # noqa
            bad.append('noexc: %r' % e)
        if len(asce.sent) < 1:
            bad.append('answered')
        for s, m, pc in asce.sent:
            bad += correlated(s, req, 'CStoreRSPMessage', pc, c, 'affected_sop_instance_uid')
            exp = 0xC000 if outcome == 'raise' else int(outcome)
            if s['cs'].get(0x00000900) != exp:
                bad.append('send:status')
        yield 'storage_scp', {'message_id': mid, 'handler': str(outcome), 'data_set': with_ds}, bad


def ds_with(i):
    d = pydicom.Dataset()
    d.PatientName = 'P%d' % i
    d.SOPClassUID = '1.2.840.10008.5.1.4.1.1.7'
    d.SOPInstanceUID = '1.2.3.%d' % i
    return d


def run_find(fn):
    for n, mid in itertools.product((0, 1, 2, 3), (1, 65535)):
        results = [(ds_with(i), statuses.C_FIND_PENDING if i % 2 == 0 else statuses.C_FIND_PENDING_WARNING)
                   for i in range(n)]
        ae = FakeAE()
        ae.on_receive_find = lambda c, d, results=results: iter(results)
        asce = FakeAsce(ae)
        req = dm.CFindRQMessage()
        req.message_id = mid
        req.sop_class_uid = SOP
        from pynetdicom2 import dsutils
        req.data_set = dsutils.encode(ds_with(99), True, True)
        c = ctx_of(7, SOP)
        bad = []
        try:
            getattr(sopclass, fn)(asce, c, req)
        except Exception as e:   # noqa
            bad.append('noexc: %r' % e)
        if len(asce.sent) != n + 1:
            bad.append('one-response-per-match / one-final: %d responses for %d matches' % (len(asce.sent), n))
        for i, (s, m, pc) in enumerate(asce.sent):
            bad += correlated(s, req, 'CFindRSPMessage', pc, c)
            if i < n:
                if s['cs'].get(0x00000900) != int(results[i][1]):
                    bad.append('match-status')
                if s['ds'] != dsutils.encode(results[i][0], True, True):
                    bad.append('match-data')
            else:
                if s['cs'].get(0x00000900) != 0:
                    bad.append('final-success')
                if s['ds']:
                    bad.append('final-no-dataset')
                if s['cs'].get(0x00000800) != 0x0101:
                    bad.append('final-flag')
        bad += lazy_violations(asce)
        yield fn, {'matches': n, 'message_id': mid}, bad


def run_move():
    for nop, outcomes in ((0, []), (1, ['s']), (3, ['s', 'w', 'f']), (2, ['f', 's'])):
        ae = FakeAE()
        dss = [ds_with(i) for i in range(nop)]
        smap = {'s': statuses.SUCCESS, 'w': statuses.Status(0xB000, dm.CStoreRSPMessage),
                'f': statuses.Status(0xC000, dm.CStoreRSPMessage)}
        ae.store_statuses = [smap[o] for o in outcomes]
        ae.on_receive_move = lambda c, d, dest, dss=dss, nop=nop: ({'aet': 'DEST'}, nop, iter(dss))
        asce = FakeAsce(ae)
        req = dm.CMoveRQMessage()
        req.message_id = 77
        req.sop_class_uid = '1.2.840.10008.5.1.4.1.2.1.2'
        req.move_destination = 'DEST'
        from pynetdicom2 import dsutils
        req.data_set = dsutils.encode(ds_with(99), True, True)
        c = ctx_of(9, '1.2.840.10008.5.1.4.1.2.1.2')
        bad = []
        try:
            sopclass.qr_move_scp(asce, c, req)
        except Exception as e:   # noqa
            bad.append('noexc: %r' % e)
        finals = [x for x in asce.sent if x[0]['cs'].get(0x00000900) == 0]
        pend = [x for x in asce.sent if x[0]['cs'].get(0x00000900) == 0xFF00]
        if len(finals) != 1:
            bad.append('one-final: %d final responses' % len(finals))
        if len(pend) != nop:
            bad.append('one-pending-response: %d pending for %d sub-operations' % (len(pend), nop))
        for k, (s, m, pc) in enumerate(pend, 1):
            if s['cs'].get(0x00001021) != k:
                bad.append('progress-completed: after %d sub-operations reported %r' % (k, s['cs'].get(0x00001021)))
            if s['cs'].get(0x00001020) != nop - k:
                bad.append('progress-remaining: after %d of %d reported %r' % (k, nop, s['cs'].get(0x00001020)))
        if [d.SOPInstanceUID for d in ae.stored] != [d.SOPInstanceUID for d in dss]:
            bad.append('sub-operation-once: stored %r' % [d.SOPInstanceUID for d in ae.stored])
        for s, m, pc in asce.sent:
            bad += correlated(s, req, 'CMoveRSPMessage', pc, c)
        bad += lazy_violations(asce)
        yield 'qr_move_scp', {'nop': nop, 'outcomes': outcomes}, bad


def run_get():
    def store_rq(i, pc):
        m = dm.CStoreRQMessage()
        m.message_id = 100 + i
        m.sop_class_uid = '1.2.840.10008.5.1.4.1.1.7'
        m.affected_sop_instance_uid = '1.2.3.%d' % i
        from pynetdicom2 import dsutils
        m.data_set = dsutils.encode(ds_with(i), True, True)
        return (m, pc)

    def get_rsp(status):
        m = dm.CGetRSPMessage()
        m.status = status
        return (m, 1)
    scenarios = [
        [get_rsp(0)],
        [store_rq(1, 3), get_rsp(0xFF00), store_rq(2, 5), get_rsp(0)],
        [get_rsp(0xFF00), store_rq(1, 5), get_rsp(0xA702)],
    ]
    for si, inbox in enumerate(scenarios):
        for outcome in (statuses.SUCCESS, 'raise'):
            ae = FakeAE()
            ae.on_receive_store = handler(outcome)
            ae.context_def_list = {3: ctx_of(3, '1.2.840.10008.5.1.4.1.1.7'), 5: ctx_of(5, '1.2.840.10008.5.1.4.1.1.7')}
            reqs = [(m, pc) for (m, pc) in inbox if isinstance(m, dm.CStoreRQMessage)]
            asce = FakeAsce(ae, inbox=list(inbox))
            c = ctx_of(1, '1.2.840.10008.5.1.4.1.2.1.3')
            bad = []
            got = []
            try:
                for item in sopclass.qr_get_scu(asce, c, ds_with(99), 9):
                    got.append(item)
            except Exception as e:   # noqa
                bad.append('noexc: %r' % e)
            rsps = asce.sent[1:]
            if len(rsps) != len(reqs):
                bad.append('store-request-answered-exactly-once: %d responses for %d requests' % (len(rsps), len(reqs)))
            for (s, m, pc), (rq, rpc) in zip(rsps, reqs):
                if pc != rpc:
                    bad.append('answered-on-arrival-context: %r != %r' % (pc, rpc))
                if s['cs'].get(0x00000120) != rq.message_id:
                    bad.append('store-rsp:message-id')
                if s['cs'].get(0x00001000) != rq.affected_sop_instance_uid:
                    bad.append('store-rsp:sop-instance')
                exp = 0xC000 if outcome == 'raise' else int(outcome)
                if s['cs'].get(0x00000900) != exp:
                    bad.append('store-rsp:status')
            if outcome != 'raise' and len(got) != len(reqs):
                bad.append('instance-handed-over: %d yielded for %d stores' % (len(got), len(reqs)))
            if asce.inbox:
                bad.append('did not consume the final response')
            yield 'qr_get_scu', {'scenario': si, 'handler': str(outcome)}, bad


def run_find_scu(fn):
    def rsp(status, with_ds):
        m = dm.CFindRSPMessage()
        m.status = status
        if with_ds:
            from pynetdicom2 import dsutils
            m.data_set = dsutils.encode(ds_with(status & 0xFF), True, True)
        return (m, 1)
    scenarios = [[rsp(0, False)], [rsp(0xFF00, True), rsp(0xFF01, True), rsp(0, False)],
                 [rsp(0xFF00, True), rsp(0xA700, False), rsp(0xFF00, True)], [rsp(0xFE00, False)]]
    for si, inbox in enumerate(scenarios):
        ae = FakeAE()
        asce = FakeAsce(ae, inbox=list(inbox))
        c = ctx_of(1, SOP)
        bad = []
        got = []
        try:
            for item in getattr(sopclass, fn)(asce, c, ds_with(1), 5):
                got.append(item)
        except Exception as e:   # noqa
            bad.append('noexc: %r' % e)
        stop = next(i for i, (m, _) in enumerate(inbox) if m.status not in (0xFF00, 0xFF01))
        if len(got) != stop + 1:
            bad.append('one-result-per-response / stops-at-non-pending: %d results, expected %d' % (len(got), stop + 1))
        for (d, s), (m, _) in zip(got, inbox):
            if int(s) != m.status:
                bad.append('yield:status-code')
            if (d is None) != (not m.data_set):
                bad.append('yield:data')
        yield fn, {'scenario': si}, bad


def run_c_find():
    """the one-call wrapper pynetdicom2.c_find with ClientAE replaced by a recording fake (no sockets)"""
    import pynetdicom2
    from pynetdicom2 import applicationentity
    real = applicationentity.ClientAE
    for si, results in enumerate([[], [(None, 0)], [('d1', 0xFF00), ('d2', 0xFF01), (None, 0)], [('', 0xFF00), (None, 0xA700)]]):
        for root in (sopclass.PATIENT_ROOT_FIND_SOP_CLASS, sopclass.STUDY_ROOT_FIND_SOP_CLASS):
            log = []

            class Asce(object):
                def get_scu(self, sop):
                    log.append(('get_scu', sop))
                    return lambda ds, msg_id: (log.append(('service', ds)), iter(list(results)))[1]

            class CM(object):
                def __enter__(self):
                    log.append(('enter',))
                    return Asce()

                def __exit__(self, et, ev, tb):
                    log.append(('exit', et))
                    return False

            class FakeClientAE(object):
                def __init__(self, aet, *a, **k):
                    log.append(('ClientAE', aet))

                def add_scu(self, svc, *a, **k):
                    log.append(('add_scu', svc))
                    return self

                def request_association(self, remote):
                    log.append(('request_association', remote))
                    return CM()
            applicationentity.ClientAE = FakeClientAE
            bad = []
            try:
                got = list(pynetdicom2.c_find({'aet': 'REMOTE'}, 'LOCAL', 'query', root))
            except Exception as e:   # noqa
                got = None
                bad.append('noexc: %r' % e)
            finally:
                applicationentity.ClientAE = real
            if got is not None:
                if len(got) != len(results):
                    bad.append('one-yield-per-result: %d yielded for %d results' % (len(got), len(results)))
                elif got != results:
                    bad.append('yields-the-result-unchanged')
                if [e for e in log if e[0] == 'get_scu'] != [('get_scu', root)]:
                    bad.append('service-looked-up-for-the-requested-root')
                if [e for e in log if e[0] == 'service'] != [('service', 'query')]:
                    bad.append('query-handed-to-the-service-once')
                if [e for e in log if e[0] == 'add_scu'] != [('add_scu', sopclass.qr_find_scu)]:
                    bad.append('configures-the-find-user-service')
                if [e for e in log if e[0] == 'ClientAE'] != [('ClientAE', 'LOCAL')]:
                    bad.append('local-ae-title')
                if [e for e in log if e[0] == 'request_association'] != [('request_association', {'aet': 'REMOTE'})]:
                    bad.append('one-association-to-the-remote-entity')
                if not log or log[-1] != ('exit', None):
                    bad.append('association-left-normally-after-the-last-result')
            yield 'c_find', {'results': results, 'root': root}, bad


def run_commitment():
    for which, outcome in list(itertools.product(('n_action', 'n_event_report'), ('ok', 'raise'))) + \
            [('n_action', 'report-peer-refuses'), ('n_action', 'report-peer-silent')]:
        ae = FakeAE()
        if outcome.startswith('report-peer'):
            # the delivery of the N-EVENT-REPORT fails: the N-ACTION request is answered all the same
            def failing(remote, ae=ae, outcome=outcome):
                class CM(object):
                    def __enter__(s):
                        if outcome == 'report-peer-refuses':
                            raise exceptions.AssociationRejectedError(1, 1, 1)
                        sub = FakeAsce(ae)

                        def never(*a, **k):
                            raise exceptions.DCMTimeoutError()
                        sub.receive = never
                        return sub

                    def __exit__(s, *a):
                        return False
                return CM()
            ae.request_association = failing
        if outcome == 'raise':
            ae.on_commitment_request = handler('raise')
            ae.on_commitment_response = handler('raise')
        else:
            ae.on_commitment_request = lambda remote, uids: ({'aet': 'X'}, [('1.2', '1.2.3')], [])
            ae.on_commitment_response = lambda t, s, f: None
        asce = FakeAsce(ae)
        from pynetdicom2 import dsutils
        info = pydicom.Dataset()
        info.TransactionUID = '1.2.3.4'
        ref = pydicom.Dataset()
        ref.ReferencedSOPClassUID = '1.2'
        ref.ReferencedSOPInstanceUID = '1.2.3'
        info.ReferencedSOPSequence = pydicom.Sequence([ref])
        sc = '1.2.840.10008.1.20.1'
        c = ctx_of(11, sc)
        if which == 'n_action':
            req = dm.NActionRQMessage()
            req.message_id = 300
            req.sop_class_uid = sc
            req.requested_sop_instance_uid = '1.2.840.10008.1.20.1.1'
            req.action_type_id = 1
            rsp_name, inst = 'NActionRSPMessage', None
        else:
            req = dm.NEventReportRQMessage()
            req.message_id = 301
            req.sop_class_uid = sc
            req.affected_sop_instance_uid = '1.2.840.10008.1.20.1.1'
            req.event_type_id = 1
            rsp_name, inst = 'NEventReportRSPMessage', 'affected_sop_instance_uid'
        req.data_set = dsutils.encode(info, True, True)
        bad = []
        try:
            sopclass.StorageCommitment()(asce, c, req)
        except (exceptions.AssociationRejectedError, exceptions.DCMTimeoutError) as e:
            if not outcome.startswith('report-peer'):
                bad.append('noexc: %r' % e)
        except Exception as e:   # noqa
            bad.append('noexc: %r' % e)
        if len(asce.sent) < 1:
            bad.append('answered')
        for s, m, pc in asce.sent:
            bad += correlated(s, req, rsp_name, pc, c, inst)
            exp = 0x0110 if outcome == 'raise' else 0
            if s['cs'].get(0x00000900) != exp:
                bad.append('send:status')
        yield 'StorageCommitment.' + which, {'handler': outcome}, bad


def main():
    req = json.loads(sys.stdin.read() or '{}')
    want = req.get('provider')
    runs = [run_echo(), run_store(), run_find('qr_find_scp'), run_find('modality_work_list_scp'), run_move(),
            run_get(), run_find_scu('qr_find_scu'), run_find_scu('modality_work_list_scu'), run_commitment(),
            run_c_find()]
    failures = []
    n = 0
    for gen in runs:
        for prov, scenario, bad in gen:
            n += 1
            if bad and (want is None or want in prov):
                failures.append({'provider': prov, 'scenario': scenario, 'violated': sorted(set(bad))[:8]})
    print(json.dumps({'reproduced': bool(failures), 'failures': failures[:12], 'evaluations': n,
                      'bound': 'scenario grid of replay/services.py (message ids at boundaries, handler outcomes, '
                               '0-3 matches / sub-operations, 3 C-GET conversations, 4 C-FIND response sequences)'},
                     default=str))


if __name__ == '__main__':
    main()
