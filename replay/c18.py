"""Native replay / cross-check for C18: runs the real pynetdicom2.statuses under CPython.
stdin: {"cases": [[value, command_class_name_or_null], ...]} or {"exhaustive": true}
stdout (last line): JSON {"reproduced": bool, "failures": [...], "evaluations": n}"""
import json
import os
import sys

sys.path.insert(0, os.environ.get('VERIF_REPO', '/repo'))
sys.path.insert(0, os.path.dirname(os.path.dirname(os.path.abspath(__file__))))

from pynetdicom2 import statuses, dimsemessages  # noqa: E402
from spec import ps34_status as ps34  # noqa: E402


def classes():
    out = {}
    for k, v in vars(dimsemessages).items():
        if isinstance(v, type) and issubclass(v, dimsemessages.DIMSEMessage) and isinstance(v.command_field, int) \
                and v.command_field & 0x8000:
            out[k] = v      # response types only (the property's domain)
    return out


def check(value, cmd):
    """returns list of violated clause labels"""
    bad = []
    st = statuses.Status(value, cmd)
    flags = [st.is_success, st.is_pending, st.is_failure, st.is_warning, st.is_cancel]
    if sum(1 for f in flags if f) != 1:
        bad.append('total')
    if st.status_type not in ps34.NAMES:
        bad.append('total-name')
    if value == 0 and not st.is_success:
        bad.append('success')
    svc = ps34.service_class(None if cmd is None else cmd.command_field, value)
    if svc is not None and st.status_type != svc:
        bad.append('service')
    if svc is None and not ps34.is_general(value) and st.status_type != 'Failure':
        bad.append('unknown')
    if int(st) != value:
        bad.append('int')
    return bad


def check_add_status():
    """runs the real add_status natively on a small grid and returns what the dictionaries hold
    afterwards at the keys around the range (compared with the interpreter's result by the caller)"""
    out = []
    n = 0
    cmd = dimsemessages.CEchoRSPMessage
    for code in (0, 5, 0xC000):
        for width in (None, 0, 1, 2, 7, 20):
            for command in (None, cmd):
                end = None if width is None else code + width
                g, s_ = dict(statuses._general_status_dict), dict(statuses._status_dict)
                try:
                    statuses.add_status(code, 'Warning', 'probe', end, command)
                    hi = code if end is None else end
                    for k in range(code - 2, hi + 3):
                        n += 1
                        got_g = statuses._general_status_dict.get(k)
                        got_s = statuses._status_dict.get((cmd.command_field, k))
                        out.append([code, end, command.__name__ if command else None, k,
                                    list(got_g) if got_g else None, list(got_s) if got_s else None])
                finally:
                    statuses._general_status_dict.clear(); statuses._general_status_dict.update(g)
                    statuses._status_dict.clear(); statuses._status_dict.update(s_)
    return out, n


def main():
    req = json.loads(sys.stdin.read() or '{}')
    cls = classes()
    failures = []
    n = 0
    if req.get('add_status'):
        obs, n = check_add_status()
        print(json.dumps({'observations': obs, 'evaluations': n,
                          'bound': 'code in {0,5,0xC000} x width in {none,0,1,2,7,20} x command in {None, C-ECHO-RSP}; '
                                   'keys code-2 .. end+2 of both dictionaries'}))
        return
    if req.get('exhaustive'):
        for cmd in [None] + [cls[k] for k in sorted(cls)]:
            for value in range(65536):
                n += 1
                bad = check(value, cmd)
                if bad and len(failures) < 50:
                    failures.append({'value': value, 'command': None if cmd is None else cmd.__name__, 'violated': bad})
    for value, cname in req.get('cases', []):
        n += 1
        cmd = None if cname in (None, 'None') else cls[cname]
        bad = check(int(value), cmd)
        if bad:
            failures.append({'value': value, 'command': cname, 'violated': bad})
    print(json.dumps({'reproduced': bool(failures), 'failures': failures, 'evaluations': n}))


if __name__ == '__main__':
    main()
