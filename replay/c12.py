"""Native replay for C12 (and the robustness side of C13): the real DULServiceProvider (thread not
started) is fed malformed PDUs; we report exceptions that escape _process_incoming / the data
actions, and recv() calls that are not preceded by a select() on that socket.
stdin: {"obligation": name}; stdout (last line): JSON {"reproduced", "failures", "evaluations"}"""
import json
import os
import struct
import sys
import threading

sys.path.insert(0, os.environ.get('VERIF_REPO', '/repo'))
threading.Thread.start = lambda self: None   # replay process only

import select as _select  # noqa: E402
from pynetdicom2 import dulprovider, fsm, pdu, userdataitems, dimsemessages  # noqa: E402


class FakeSocket(object):
    def __init__(self, chunks=()):
        self.chunks = list(chunks)
        self.log = []
        self.closed = False

    def recv(self, n):
        self.log.append('recv')
        return self.chunks.pop(0) if self.chunks else b'x'

    def sendall(self, d):
        self.log.append(('sendall', bytes(d)))

    def close(self):
        self.closed = True

    def fileno(self):
        return -1


def provider(sock):
    return dulprovider.DULServiceProvider(frozenset(), None, sock)


def valid_rq():
    items = [pdu.ApplicationContextItem('1.2.840.10008.3.1.1.1'),
             pdu.PresentationContextItemRQ(1, pdu.AbstractSyntaxSubItem('1.2.840.10008.1.1'),
                                           [pdu.TransferSyntaxSubItem('1.2.840.10008.1.2')]),
             pdu.UserInformationItem([userdataitems.MaximumLengthSubItem(16384),
                                      userdataitems.ImplementationClassUIDSubItem('1.2.3')])]
    return pdu.AAssociateRqPDU('CALLED', 'CALLING', items).encode()


def corpus():
    rq = valid_rq()
    out = [('rq declared length 0', b'\x01\x00\x00\x00\x00\x00'),
           ('rq truncated body, fixed-up length', rq[:20][:2] + struct.pack('>I', 14) + rq[6:20]),
           ('rq with item length overlong', rq[:74] + b'\x10\x00\xff\xff' + rq[78:]),
           ('rq with unknown item type', rq[:74] + b'\x99' + rq[75:]),
           ('rq with non-ASCII AE title', rq[:10] + b'\xff\xfe' + rq[12:]),
           ('rq with non-utf8 uid', rq[:78] + b'\xff' + rq[79:]),
           ('unknown pdu type', b'\x09\x00\x00\x00\x00\x04abcd'),
           ('zero pdu type', b'\x00\x00\x00\x00\x00\x04abcd'),
           ('rj too short', b'\x03\x00\x00\x00\x00\x02ab'),
           ('abort too long', b'\x07\x00\x00\x00\x00\x06abcdef'),
           ('release too short', b'\x05\x00\x00\x00\x00\x00'),
           ('pdata pdv length 0', b'\x04\x00\x00\x00\x00\x06' + b'\x00\x00\x00\x00\x01\x03'),
           ('pdata pdv oversize', b'\x04\x00\x00\x00\x00\x06' + b'\xff\xff\xff\xff\x01\x03'),
           ('pdata truncated pdv header', b'\x04\x00\x00\x00\x00\x03' + b'\x00\x00\x00'),
           ('user info sub-item truncated', rq[:-3][:2] + struct.pack('>I', len(rq) - 9) + rq[6:-3])]
    return out


def main():
    req = json.loads(sys.stdin.read() or '{}')
    failures = []
    n = 0
    # (A) malformed PDUs through _process_incoming
    for name, raw in corpus():
        n += 1
        p = provider(FakeSocket())
        p.raw_pdu = raw
        try:
            p._process_incoming()
        except Exception as e:   # noqa
            failures.append({'what': '_process_incoming', 'input': name, 'hex': raw[:40].hex(),
                             'escaped': '%s: %s' % (type(e).__name__, e)})
    # (B) undecodable DIMSE fragments through DT-2 / AR-6
    bad_pdvs = [('empty pdv', pdu.PresentationDataValueItem(1, b'')),
                ('bad control byte', pdu.PresentationDataValueItem(1, b'\x07abc')),
                ('undecodable command set', pdu.PresentationDataValueItem(1, b'\x03\x00\x00\x00')),
                ('unknown command field', None)]
    for name, pdv in bad_pdvs:
        for action, state in (('dt_2', fsm.States.STA_6), ('ar_6', fsm.States.STA_7)):
            n += 1
            p = provider(FakeSocket())
            sm = p.state_machine
            sm.current_state = state
            if pdv is None:
                m = dimsemessages.CEchoRQMessage()
                m.message_id = 1
                m.sop_class_uid = '1.2.840.10008.1.1'
                m.command_set.CommandField = 0x7777
                m.set_length()
                p.primitive = next(m.encode(1, 16384))
            else:
                p.primitive = pdu.PDataTfPDU([pdv])
            try:
                getattr(sm, action)()
            except Exception as e:   # noqa
                failures.append({'what': action, 'input': name, 'escaped': '%s: %s' % (type(e).__name__, e)})
    # (C) recv() only after select() reported the socket readable
    real_select = dulprovider.select.select
    for sta in range(1, 14):
        n += 1
        sock = FakeSocket([b'x'] * 3 + [b''])
        p = provider(sock)
        p.state_machine.current_state = getattr(fsm.States, 'STA_%d' % sta)
        granted = []

        def fake_select(r, w, x, t=None, sock=sock, granted=granted):
            sock.log.append('select')
            granted.append(True)
            return (list(r), [], [])
        dulprovider.select.select = fake_select
        try:
            p._check_network()
        except Exception:   # noqa
            pass
        finally:
            dulprovider.select.select = real_select
        prev = None
        for ev in sock.log:
            if ev == 'recv' and prev != 'select':
                failures.append({'what': '_check_network', 'input': 'state Sta%d' % sta,
                                 'escaped': 'recv() without a preceding select(): would block on a silent peer'})
                break
            prev = ev
    print(json.dumps({'reproduced': bool(failures), 'failures': failures[:20], 'evaluations': n,
                      'bound': '15 malformed PDUs, 4 malformed DIMSE fragments x 2 actions, 13 states for the '
                               'select-before-recv discipline'}, default=str))


if __name__ == '__main__':
    main()
