"""Native replay for C07: real messages are fragmented by the real DIMSEMessage.encode, their PDVs are
regrouped into P-DATA-TF PDUs in every possible way (short fragment lists) and fed to the real
fsm.DIMSEDecoder, in memory and with file storage (real AEBase.get_file / write_meta).
stdin: {"obligation": name}; stdout (last line): JSON {"reproduced", "failures", "evaluations", "bound"}"""
import io
import itertools
import json
import os
import sys
import warnings

warnings.filterwarnings('ignore')
sys.path.insert(0, os.environ.get('VERIF_REPO', '/repo'))
sys.path.insert(0, os.path.join(os.path.dirname(os.path.abspath(__file__)), '..', 'spec'))
from pynetdicom2 import dimsemessages as dm, dsutils, fsm, pdu, asceprovider, applicationentity  # noqa: E402
import pydicom  # noqa: E402
from pydicom import uid  # noqa: E402
import ps37_commands as S  # noqa: E402


def compositions(n):
    """all ways to cut a list of n items into consecutive non-empty groups"""
    for cuts in itertools.product([0, 1], repeat=max(n - 1, 0)):
        groups, cur = [], [0]
        for i, c in enumerate(cuts):
            if c:
                groups.append(cur)
                cur = [i + 1]
            else:
                cur.append(i + 1)
        groups.append(cur)
        yield groups


def make_message(cls, data):
    m = cls()
    for klass in type(m).__mro__:
        for name, a in vars(klass).items():
            if isinstance(a, property) and name != 'data_set' and a.fset is not None:
                try:
                    setattr(m, name, '1.2.840.10008.5.1.4.1.1.2' if 'uid' in name else ('AET' if 'aet' in name or
                                                                                  'destination' in name else 3))
                except KeyError:
                    pass
    if data is not None:
        m.data_set = data
    return m


def dataset_bytes(n):
    ds = pydicom.Dataset()
    ds.PatientName = 'X' * max(n, 1)
    return dsutils.encode(ds, True, True)


def search():
    n = 0
    ts = uid.ImplicitVRLittleEndian
    for cls in [getattr(dm, k) for k in sorted(S.COMMAND_FIELD)]:
        for data_len, max_len in ((None, 16384), (None, 40), (10, 16384), (10, 40), (60, 40)):
            data = dataset_bytes(data_len) if data_len else None
            msg = make_message(cls, data)
            msg.set_length()
            pdvs = [p.data_value_items[0] for p in msg.encode(5, max_len)]
            if len(pdvs) > 9:
                pdvs_list = [pdvs]
                comps = [[[i] for i in range(len(pdvs))], [list(range(len(pdvs)))]]
            else:
                comps = list(compositions(len(pdvs)))
            cmd = dsutils.encode(msg.command_set, True, True)
            for use_file in (False, True):
                if use_file and cls.__name__ != 'CStoreRQMessage':
                    continue      # file storage is configured for storage SOP classes: C-STORE requests
                sop = msg.sop_class_uid
                for groups in comps:
                    n += 1
                    ae = object.__new__(applicationentity.AEBase)
                    ctx = asceprovider.PContextDef(5, sop, ts)
                    store = {sop} if use_file else set()
                    dec = fsm.DIMSEDecoder({5: ctx}, store, ae.get_file)
                    f = []
                    try:
                        for gi, grp in enumerate(groups):
                            if not dec.receiving:
                                f.append('completion-signalled-exactly-at-the-last-fragment (early, after %d of %d PDUs)'
                                         % (gi, len(groups)))
                                break
                            dec.process(pdu.PDataTfPDU([pdvs[i] for i in grp]))
                        if dec.receiving:
                            f.append('completion-signalled-exactly-at-the-last-fragment (never)')
                    except Exception as e:   # noqa
                        f.append('noexc: %s %s' % (type(e).__name__, e))
                    if not f:
                        m = dec.msg
                        if type(m).__name__ != type(msg).__name__:
                            f.append('message-class-of-the-command-field (%s for %s)' % (type(m).__name__, cls.__name__))
                        elif dsutils.encode(m.command_set, True, True) != cmd:
                            f.append('command-set-decoded-from-exactly-the-transmitted-bytes')
                        if dec.pc_id != 5:
                            f.append('presentation-context')
                        got = m.data_set
                        if data is None:
                            if got:
                                f.append('no-data-set')
                        elif use_file and sop is not None:
                            if not hasattr(got, 'read'):
                                f.append('data-set-is-the-storage-file')
                            else:
                                try:
                                    pos = got.tell()
                                    got.seek(0)
                                    whole = got.read()
                                    got.seek(pos)
                                    ds2 = pydicom.dcmread(got, force=False)
                                    if pos != 0:
                                        f.append('file-positioned-at-the-reported-start')
                                    if not whole.endswith(data) or whole[128:132] != b'DICM':
                                        f.append('file-holds-meta-then-exactly-the-transmitted-bytes')
                                    if ds2.file_meta.TransferSyntaxUID != ts or ds2.PatientName != 'X' * data_len:
                                        f.append('meta-transfer-syntax-is-the-negotiated-one / readable')
                                except Exception as e:   # noqa
                                    f.append('file-holds-meta-then-exactly-the-transmitted-bytes (%s)' % type(e).__name__)
                                finally:
                                    got.close()
                        elif got != data:
                            f.append('data-set-bytes-identical')
                    if f:
                        yield n, {'class': cls.__name__, 'data_set_bytes': data_len, 'max_pdu_length': max_len,
                                  'file_storage': use_file, 'pdv_grouping': groups if len(groups) < 12 else 'one per PDU'}, f
    yield n, None, None


def search_actions():
    """DT-2 / AR-6 on the real provider (thread not started, fake socket): messages 1..3 of an association whose
    accepted contexts were bound after construction, as negotiation does; memory and file storage"""
    import threading
    from pynetdicom2 import dulprovider
    threading.Thread.start = lambda self: None

    class Sock(object):
        def __init__(self):
            self.sent = []

        def sendall(self, b):
            self.sent.append(b)

        def close(self):
            pass
    n = 0
    ts = uid.ImplicitVRLittleEndian
    sop = '1.2.840.10008.5.1.4.1.1.2'
    for action, state in (('dt_2', fsm.States.STA_6), ('ar_6', fsm.States.STA_7)):
        for use_file in (False, True):
            for max_len in (16384, 40):
                n += 1
                ae = object.__new__(applicationentity.AEBase)
                store = frozenset([sop]) if use_file else frozenset()
                prov = dulprovider.DULServiceProvider(store, ae.get_file, Sock())
                prov.accepted_contexts = {5: asceprovider.PContextDef(5, sop, ts)}
                sm = prov.state_machine
                f = []
                for k in range(3):
                    data = dataset_bytes(10 + k)
                    msg = make_message(dm.CStoreRQMessage, data)
                    msg.sop_class_uid = sop
                    msg.set_length()
                    pdus = list(msg.encode(5, max_len))
                    for i, one in enumerate(pdus):
                        sm.current_state = state
                        prov.primitive = one
                        nxt = getattr(sm, action)()
                        done = not prov.to_service_user.empty()
                        if nxt != state:
                            f.append('decoder-works-on-the-negotiated-contexts (message %d, PDU %d of %d: the association '
                                     'was aborted, state %r)' % (k + 1, i + 1, len(pdus), nxt))
                            break
                        if done != (i == len(pdus) - 1):
                            f.append('completed-message-handed-over-once (message %d, PDU %d of %d)' % (k + 1, i + 1, len(pdus)))
                            break
                    if f:
                        break
                    got, pc = prov.to_service_user.get()
                    if sm.dimse_decoder is not None:
                        f.append('decoder-dropped-after-completion')
                    body = got.data_set
                    if use_file:
                        body.seek(0)
                        whole = body.read()
                        body.close()
                        if not whole.endswith(data) or whole[128:132] != b'DICM':
                            f.append('decoder-has-the-file-storage-configuration')
                    elif body != data:
                        f.append('decoder-works-on-the-negotiated-contexts (data set differs)')
                    if pc != 5 or type(got).__name__ != 'CStoreRQMessage':
                        f.append('pdu-goes-to-exactly-one-decoder')
                if f:
                    yield n, {'action': action, 'file_storage': use_file, 'max_pdu_length': max_len}, f
    yield n, None, None


def main():
    req = json.loads(sys.stdin.read() or '{}')
    name = req.get('obligation', '')
    clause = name.split('#')[-1].split('@')[0].split(':')[-1]
    failures, related, n = [], [], 0
    def both():
        total = 0
        for m, i, f in search():
            if i is not None:
                yield m, i, f
            total = m
        for m, i, f in search_actions():
            if i is not None:
                yield total + m, i, f
            else:
                yield total + m, None, None
    gen = search_actions() if 'StateMachine' in name else (both() if not name else search())
    for n, inp, f in gen:
        if inp is None:
            break
        rec = {'input': inp, 'failed_clauses': sorted(set(f))}
        failures.append(rec)
        if any(clause and clause.split('-')[0] in c for c in f):
            related.append(rec)
        if len(failures) > 200:
            break
    pick = related or failures
    print(json.dumps({'reproduced': bool(pick), 'failures': pick[:8], 'evaluations': n,
                      'bound': '23 classes x 5 (data set, maximum length) shapes x every grouping of the fragment list '
                               '(up to 9 fragments) x memory/file', 'matched_clause': bool(related)}, default=str))


if __name__ == '__main__':
    main()
