"""Native replay for C15: real storage_scu / storage_scp with fake associations, and the real
_get_storage_file on a scratch directory (bounded search for a failing input after the verifier
refuted an obligation).
stdin: {"obligation": name}; stdout (last line): JSON {"reproduced", "failures", "evaluations", "bound"}"""
import io
import json
import os
import shutil
import sys
import tempfile
import types
import warnings

warnings.filterwarnings('ignore')
sys.path.insert(0, os.environ.get('VERIF_REPO', '/repo'))
import pynetdicom2  # noqa: E402
from pynetdicom2 import sopclass, dimsemessages as dm, asceprovider, dsutils, statuses, exceptions  # noqa: E402
import pydicom  # noqa: E402
from pydicom import uid  # noqa: E402
from pydicom.dataset import FileMetaDataset  # noqa: E402

TS = [uid.ImplicitVRLittleEndian, uid.ExplicitVRLittleEndian, uid.ExplicitVRBigEndian]


class FakeAsce(object):
    def __init__(self, replies=()):
        self.sent = []
        self.replies = list(replies)
        self.ae = types.SimpleNamespace(local_ae={'aet': 'LOCAL'})

    def send(self, msg, pc_id):
        msg.set_length()
        self.sent.append((msg, pc_id))

    def receive(self):
        return self.replies.pop(0)


def dataset(n):
    ds = pydicom.Dataset()
    ds.SOPClassUID = '1.2.840.10008.5.1.4.1.1.7'
    ds.SOPInstanceUID = '1.2.3.%d' % n
    ds.PatientName = 'P' * n
    return ds


def search_storage_file():
    n = 0
    d = tempfile.mkdtemp(prefix='c15_replay_')
    try:
        ctx = asceprovider.PContextDef(1, '1.2.840.10008.5.1.4.1.1.7', uid.ImplicitVRLittleEndian)
        for repeat in (1, 2, 3):
            n += 1
            sub = os.path.join(d, 'r%d' % repeat)
            os.mkdir(sub)
            cs = pydicom.Dataset()
            cs.AffectedSOPClassUID = '1.2.840.10008.5.1.4.1.1.7'
            cs.AffectedSOPInstanceUID = '1.2.3.4'
            stored = {}
            fails = []
            for k in range(repeat):
                before = {f: open(os.path.join(sub, f), 'rb').read() for f in os.listdir(sub)}
                fp, start = pynetdicom2._get_storage_file(ctx, cs, sub)
                payload = b'DATA-OF-STORE-%d' % k
                fp.write(payload)
                fp.close()
                after = {f: open(os.path.join(sub, f), 'rb').read() for f in os.listdir(sub)}
                for f, content in before.items():
                    if after.get(f) != content:
                        fails.append('no-existing-file-is-opened-for-writing (store #%d of the same instance UID '
                                     'overwrote %s)' % (k + 1, f))
                if len(after) != len(before) + 1:
                    fails.append('one-file-created (store #%d: %d files, expected %d)' % (k + 1, len(after), len(before) + 1))
            if fails:
                yield n, {'stores_of_the_same_instance_uid': repeat}, fails
    finally:
        shutil.rmtree(d, ignore_errors=True)
    yield n, None, None


def search_scu_scp():
    n = 0
    for ts in TS:
        ctx = asceprovider.PContextDef(3, '1.2.840.10008.5.1.4.1.1.7', ts)
        for size in (1, 7, 200):
            for status in (0x0000, 0xB000, 0xA700, 0xC000):
                n += 1
                ds = dataset(size)
                rsp = dm.CStoreRSPMessage()
                rsp.status = status
                a = FakeAsce([(rsp, 3)])
                fails = []
                try:
                    st = sopclass.storage_scu(a, ctx, ds, 17)
                except Exception as e:   # noqa
                    yield n, {'ts': str(ts), 'size': size}, ['noexc: %s %s' % (type(e).__name__, e)]
                    continue
                if len(a.sent) != 1:
                    fails.append('one-c-store-request')
                else:
                    m, pc = a.sent[0]
                    if m.message_id != 17:
                        fails.append('message-id')
                    if m.sop_class_uid != ds.SOPClassUID:
                        fails.append('sop-class-of-the-data-set')
                    if m.affected_sop_instance_uid != ds.SOPInstanceUID:
                        fails.append('sop-instance-of-the-data-set')
                    if m.data_set != dsutils.encode(ds, ts.is_implicit_VR, ts.is_little_endian):
                        fails.append('data-set-encoded-in-the-negotiated-transfer-syntax')
                    if pc != 3:
                        fails.append('on-the-given-context')
                if int(st) != status:
                    fails.append('status-is-the-peers-status')
                if fails:
                    yield n, {'ts': str(ts), 'size': size, 'status': status}, fails
        # file source
        for with_inst in (True, False):
            n += 1
            ds = dataset(20)
            ds.file_meta = FileMetaDataset()
            ds.file_meta.MediaStorageSOPClassUID = ds.SOPClassUID
            if with_inst:
                ds.file_meta.MediaStorageSOPInstanceUID = ds.SOPInstanceUID
            ds.file_meta.TransferSyntaxUID = ts
            ds.is_little_endian, ds.is_implicit_VR = ts.is_little_endian, ts.is_implicit_VR
            ds.preamble = b'\0' * 128
            d = tempfile.mkdtemp(prefix='c15_replay_')
            try:
                fn = os.path.join(d, 'x.dcm')
                try:
                    pydicom.dcmwrite(fn, ds, write_like_original=not with_inst)
                except Exception:
                    continue
                rsp = dm.CStoreRSPMessage()
                rsp.status = 0
                a = FakeAsce([(rsp, 3)])
                fails = []
                try:
                    sopclass.storage_scu(a, ctx, fn, 5)
                    m, pc = a.sent[0]
                    rest = m.data_set.read()
                    m.data_set.close()
                    want = dsutils.encode(dataset(20), ts.is_implicit_VR, ts.is_little_endian)
                    if rest != want:
                        fails.append('file-positioned-at-the-first-byte-of-the-data-set')
                    if m.affected_sop_instance_uid != ds.SOPInstanceUID:
                        fails.append('sop-instance-of-the-file')
                except Exception as e:   # noqa
                    fails.append('noexc: %s %s' % (type(e).__name__, e))
                if fails:
                    yield n, {'ts': str(ts), 'file_meta_has_instance_uid': with_inst}, fails
            finally:
                shutil.rmtree(d, ignore_errors=True)
    # provider
    for raises in (False, True):
        for status in (0x0000, 0xB000, 0xA700):
            n += 1
            data = io.BytesIO(b'received data set')
            req = dm.CStoreRQMessage()
            req.message_id = 9
            req.sop_class_uid = '1.2.840.10008.5.1.4.1.1.7'
            req.affected_sop_instance_uid = '1.2.3'
            req.data_set = data
            calls = []

            def on_store(ctx_, ds_, calls=calls, raises=raises, status=status):
                calls.append((ctx_, ds_, ds_.closed))
                if raises:
                    raise exceptions.EventHandlingError('no')
                return statuses.Status(status, dm.CStoreRSPMessage)
            a = FakeAsce()
            a.ae.on_receive_store = on_store
            ctx = asceprovider.PContextDef(3, req.sop_class_uid, uid.ImplicitVRLittleEndian)
            fails = []
            try:
                sopclass.storage_scp(a, ctx, req)
            except Exception as e:   # noqa
                fails.append('noexc: %s %s' % (type(e).__name__, e))
            else:
                if len(calls) != 1 or calls[0][1] is not data or calls[0][0] is not ctx or calls[0][2]:
                    fails.append('handler-gets-context-and-the-received-data-set')
                if not data.closed:
                    fails.append('received-file-closed-afterwards')
                want = 0xC000 if raises else status
                if len(a.sent) != 1 or a.sent[0][0].status != want:
                    fails.append('response-status-is-the-handlers')
            if fails:
                yield n, {'handler_raises': raises, 'handler_status': status}, fails
    yield n, None, None


def main():
    req = json.loads(sys.stdin.read() or '{}')
    name = req.get('obligation', '')
    gen = search_storage_file() if '_get_storage_file' in name else search_scu_scp()
    clause = name.split('#')[-1].split('@')[0]
    failures, related, n = [], [], 0
    for n, inp, f in gen:
        if inp is None:
            break
        rec = {'input': inp, 'failed_clauses': sorted(set(f))}
        failures.append(rec)
        if any(clause and clause.split('-')[0] in c for c in f):
            related.append(rec)
    pick = related or failures
    print(json.dumps({'reproduced': bool(pick), 'failures': pick[:8], 'evaluations': n,
                      'bound': '1..3 stores of one instance UID into a scratch directory; 3 transfer syntaxes x 3 sizes x '
                               '4 statuses; file source with/without meta instance UID; provider x handler outcomes',
                      'matched_clause': bool(related)}, default=str))


if __name__ == '__main__':
    main()
