"""Native replay for C03: the real DULServiceProvider (thread not started, its run loop body stepped by
this script exactly as run() does it, the step itself taken from the current source of run()) is fed a
conversation's byte stream under every single cut, every pair of cuts, one-byte dribble and
everything-at-once; what the user is told and what goes back on the wire must not depend on it.
stdin: {"obligation": name}; stdout (last line): JSON {"reproduced", "failures", "evaluations", "bound"}"""
import inspect
import itertools
import json
import os
import sys
import textwrap
import threading

sys.path.insert(0, os.environ.get('VERIF_REPO', '/repo'))
threading.Thread.start = lambda self: None   # replay process only

from pynetdicom2 import dulprovider, fsm, pdu, userdataitems, dimsemessages  # noqa: E402


class Sock(object):
    def __init__(self, chunks, eof=False):
        self.chunks = list(chunks)
        self.sent = []
        self.closed = False
        self.eof = eof            # the peer closes the connection behind the last chunk
        self.eof_seen = False

    def recv(self, n):
        if self.chunks:
            return self.chunks.pop(0)
        self.eof_seen = True
        return b''

    def sendall(self, d):
        self.sent.append(bytes(d))

    def close(self):
        self.closed = True

    def fileno(self):
        return -1


def loop_body_source():
    """the body of `while not self.is_killed:` in run(), as a function step(self) that returns after one
    iteration (so that the replay follows the code under test, not a copy of it)"""
    src = textwrap.dedent(inspect.getsource(dulprovider.DULServiceProvider.run))
    lines = src.split('\n')
    start = next(i for i, l in enumerate(lines) if l.strip().startswith('while not self.is_killed'))
    indent = len(lines[start]) - len(lines[start].lstrip())
    body = []
    for l in lines[start + 1:]:
        if l.strip() and (len(l) - len(l.lstrip())) <= indent:
            break
        body.append(l[indent + 4:])
    code = 'def step(self):\n    for _once in (0,):\n' + '\n'.join('        ' + l for l in body) + '\n'
    ns = {}
    exec(code, dulprovider.__dict__, ns)
    return ns['step']


STEP = loop_body_source()


def conversation():
    items = [pdu.ApplicationContextItem('1.2.840.10008.3.1.1.1'),
             pdu.PresentationContextItemRQ(1, pdu.AbstractSyntaxSubItem('1.2.840.10008.1.1'),
                                           [pdu.TransferSyntaxSubItem('1.2.840.10008.1.2')]),
             pdu.UserInformationItem([userdataitems.MaximumLengthSubItem(16384)])]
    rq = pdu.AAssociateRqPDU('CALLED', 'CALLING', items).encode()
    echo = dimsemessages.CEchoRQMessage()
    echo.message_id = 1
    echo.sop_class_uid = '1.2.840.10008.1.1'
    echo.set_length()
    pdata = b''.join(p.encode() for p in echo.encode(1, 16384))
    rel = pdu.AReleaseRqPDU().encode()
    ab = pdu.AAbortPDU(0, 0).encode()
    return {'rq+abort': rq + ab, 'rq+echo+release': rq + pdata + rel, 'rq+release': rq + rel}


def run_stream(chunks, waiting_at_start, accept=False, eof=False):
    # the local user stays passive: its answers would race with the peer's next PDU, and that race
    # (not the segmentation) would then decide the outcome
    s = Sock(chunks if waiting_at_start else [], eof)
    later = [] if waiting_at_start else list(chunks)
    p = dulprovider.DULServiceProvider(frozenset(), None, s)
    dulprovider.select.select = lambda r, w, x, t=None: (
        list(r) if (s.chunks or (s.eof and not later and not s.eof_seen)) else [], [], [])
    seen = []
    idle = 0
    for _ in range(400):
        if p.is_killed:
            break
        before = (len(seen), len(s.sent))
        STEP(p)
        while not p.to_service_user.empty():
            x = p.to_service_user.get()
            seen.append(type(x).__name__ if not isinstance(x, tuple) else 'DIMSE:' + type(x[0]).__name__)
            if seen[-1] == 'AAssociateRqPDU' and accept and p.state_machine.current_state == fsm.States.STA_3:
                ac = pdu.AAssociateAcPDU('CALLED', 'CALLING', x.variable_items[:1] + x.variable_items[-1:])
                p.accepted_contexts = {1: None}
                p.send(ac)
            if seen[-1] == 'AReleaseRqPDU' and p.state_machine.current_state == fsm.States.STA_8:
                p.send(pdu.AReleaseRpPDU())
        if not s.chunks and later and not p.event:
            s.chunks.append(later.pop(0))
        if (len(seen), len(s.sent)) == before and not s.chunks and not later and not p.event:
            idle += 1
            if idle > 6:
                break
        else:
            idle = 0
    if eof:
        idle = p.state_machine.current_state == fsm.States.STA_1
        return seen, [d[:1].hex() for d in s.sent], ('closed' if s.closed else 'open',
                                                    'idle Sta1' if idle else 'state %r' % (p.state_machine.current_state,))
    return seen, [d[:1].hex() for d in s.sent]


def cuts_of(stream):
    n = len(stream)
    yield 'everything at once', [stream]
    yield 'one byte at a time', [stream[i:i + 1] for i in range(n)]
    for i in range(1, n):
        yield 'cut at %d' % i, [stream[:i], stream[i:]]
    step = max(1, n // 14)
    for i, j in itertools.combinations(range(1, n, step), 2):
        yield 'cuts at %d,%d' % (i, j), [stream[:i], stream[i:j], stream[j:]]


def search():
    n = 0
    for name, stream in conversation().items():
        # reference: one PDU per segment
        frames, pos = [], 0
        while pos < len(stream):
            ln = int.from_bytes(stream[pos + 2:pos + 6], 'big') + 6
            frames.append(stream[pos:pos + ln])
            pos += ln
        ref = run_stream(frames, waiting_at_start=False)
        for what, chunks in cuts_of(stream):
            for waiting in (False, True):
                n += 1
                got = run_stream(chunks, waiting)
                if got != ref:
                    yield n, {'conversation': name, 'segmentation': what, 'first_segment_waiting_at_start': waiting,
                              'user_saw': got[0], 'expected': ref[0], 'sent_types': got[1], 'expected_sent': ref[1]}, \
                        ['event-handled-with-its-own-primitive / no-byte-lost-duplicated-or-reordered: indications %r, '
                         'one-PDU-per-segment gives %r' % (got[0], ref[0])]
    # the peer closes the connection behind the last byte: what arrived before the close is handled before the
    # close is, under every segmentation; and a close after any byte prefix ends idle with the connection closed
    for name, stream in conversation().items():
        frames, pos = [], 0
        while pos < len(stream):
            ln = int.from_bytes(stream[pos + 2:pos + 6], 'big') + 6
            frames.append(stream[pos:pos + ln])
            pos += ln
        ref = run_stream(frames, waiting_at_start=False, eof=True)
        for what, chunks in cuts_of(stream):
            if what.startswith('cuts at'):
                continue
            n += 1
            got = run_stream(chunks, True, eof=True)
            if got != ref:
                yield n, {'conversation': name + ', then the peer closes', 'segmentation': what, 'user_saw': got[0],
                          'expected': ref[0], 'sent_types': got[1], 'expected_sent': ref[1], 'end': got[2],
                          'expected_end': ref[2]}, \
                    ['a-buffered-complete-pdu-is-recognised-before-the-close: indications %r, one-PDU-per-segment '
                     'gives %r' % (got[0], ref[0])]
        for k in range(0, len(stream)):
            n += 1
            got = run_stream([stream[:k]] if k else [], True, eof=True)
            if got[2][0] != 'closed' or not got[2][1].endswith('1'):
                yield n, {'conversation': name, 'peer_closes_after_bytes': k, 'end': got[2], 'user_saw': got[0]}, \
                    ['end-of-stream-is-evt17 / socket-closed-and-dropped: after the peer closed behind %d bytes the '
                     'provider ends %r' % (k, got[2])]
    yield n, None, None


def main():
    req = json.loads(sys.stdin.read() or '{}')
    failures, n = [], 0
    for n, inp, f in search():
        if inp is None:
            break
        failures.append({'input': inp, 'failed_clauses': f})
        if len(failures) >= 40:
            break
    print(json.dumps({'reproduced': bool(failures), 'failures': failures[:6], 'evaluations': n,
                      'bound': '3 acceptor-side conversations x (all at once, 1-byte dribble, every single cut, ~90 pairs of '
                               'cuts) x first segment waiting at start or not; the same followed by the peer\'s close '
                               '(all at once, dribble, single cuts); close after every byte prefix'}, default=str))


if __name__ == '__main__':
    main()
