"""Native replay for C06 (and the sending side of C10): the real fragment / fragment_file /
DIMSEMessage.encode / Association.send under CPython on a bounded grid of stream lengths and
maximum PDU lengths (bounded search for a failing input after the verifier refuted an obligation).
stdin: {"obligation": name}; stdout (last line): JSON {"reproduced", "failures", "evaluations", "bound"}"""
import io
import json
import os
import sys
import types

sys.path.insert(0, os.environ.get('VERIF_REPO', '/repo'))
from pynetdicom2 import dimsemessages, pdu, asceprovider, dsutils  # noqa: E402

MAXES = [0, 7, 8, 9, 10, 16, 17, 100, 16384, 2 ** 32 - 1]


def lengths_for(m):
    size = (m - 6) if m else 8
    size = min(size, 64)
    out = set([0, 1, 2, 3])
    for k in (1, 2, 3):
        for d in (-2, -1, 0, 1, 2):
            if k * size + d >= 0:
                out.add(k * size + d)
    return sorted(x for x in out if x <= 400)


class Closable(io.BytesIO):
    was_closed = False

    def close(self):
        self.was_closed = True
        io.BytesIO.close(self)


def check_stream(frags, data, m, normal, last):
    fails = []
    if b''.join(c for c, f in frags) != data:
        fails.append('all-bytes-fragmented / fragment-is-the-next-bytes')
    if any(len(c) < 1 for c, f in frags):
        fails.append('fragment-non-empty')
    if m and any(len(c) + 6 > m for c, f in frags):
        fails.append('fragment-fits-the-pdu-limit')
    flags = [f for c, f in frags]
    want = [normal] * (len(frags) - 1) + [last] if frags else []
    if flags != want:
        fails.append('last-flag-iff-nothing-follows')
    if data and not frags:
        fails.append('stream-ends-with-last-fragment')
    return fails


def search():
    n = 0
    for m in MAXES:
        for ln in lengths_for(m):
            data = bytes((i * 7 + 3) & 0xFF for i in range(ln))
            for fn in ('fragment', 'fragment_file'):
                n += 1
                src = data if fn == 'fragment' else io.BytesIO(data)
                try:
                    frags = list(getattr(dimsemessages, fn)(src, m, 0, 2))
                    f = check_stream(frags, data, m, 0, 2)
                except Exception as e:   # noqa
                    f = ['noexc: %s %s' % (type(e).__name__, e)]
                if f:
                    yield n, {'function': fn, 'max_pdu_length': m, 'stream_length': ln}, f
            # the whole pipeline
            for kind in ('none', 'bytes', 'file'):
                n += 1
                msg = dimsemessages.CStoreRQMessage()
                msg.message_id = 7
                msg.sop_class_uid = '1.2.840.10008.5.1.4.1.1.2'
                msg.affected_sop_instance_uid = '1.2.3.4'
                msg.priority = 0
                fobj = None
                if kind == 'bytes' and ln:
                    msg.data_set = data
                elif kind == 'file':
                    fobj = Closable(data)
                    msg.data_set = fobj
                msg.set_length()
                cmd = dsutils.encode(msg.command_set, True, True)
                f = []
                try:
                    pdus = list(msg.encode(5, m))
                except Exception as e:   # noqa
                    yield n, {'encode': kind, 'max_pdu_length': m, 'data_length': ln}, ['noexc: %s %s' % (type(e).__name__, e)]
                    continue
                streams = {1: [], 0: []}
                order = []
                for p in pdus:
                    if not isinstance(p, pdu.PDataTfPDU) or len(p.data_value_items) != 1:
                        f.append('pdu:one-pdv')
                        continue
                    v = p.data_value_items[0]
                    if v.context_id != 5:
                        f.append('pdu:on-the-message-context')
                    if m and p.pdu_length > m:
                        f.append('pdu:within-the-maximum-length')
                    if p.pdu_length != len(v.data_value) + 5:
                        f.append('pdu:pdu-length')
                    ctrl = v.data_value[0]
                    if ctrl not in (0, 1, 2, 3):
                        f.append('pdu:command-control-codes')
                        continue
                    streams[ctrl & 1].append((v.data_value[1:], ctrl))
                    order.append(ctrl & 1)
                if order != sorted(order, reverse=True):
                    f.append('pdu:command-set-complete-before-data')
                f += ['command: ' + x for x in check_stream(streams[1], cmd, m, 1, 3)]
                expect_data = data if kind != 'none' else b''
                f += ['data: ' + x for x in check_stream(streams[0], expect_data, m, 0, 2)]
                if fobj is not None and not fobj.was_closed:
                    f.append('file-closed')
                if f:
                    yield n, {'encode': kind, 'max_pdu_length': m, 'data_length': ln}, f
    # Association.send
    for eff in (0, 7, 16384):
        n += 1
        a = object.__new__(asceprovider.Association)
        a.max_pdu_length = eff
        a.ae = types.SimpleNamespace()
        sent = []
        a.dul = types.SimpleNamespace(send=sent.append)
        calls = []
        msg = types.SimpleNamespace(set_length=lambda: calls.append('set_length'),
                                    encode=lambda pc, m: calls.append(('encode', pc, m)) or 'encoder')
        f = []
        try:
            a.send(msg, 9)
        except Exception as e:   # noqa
            f.append('noexc: %s %s' % (type(e).__name__, e))
        else:
            if sent != ['encoder']:
                f.append('queues-the-message-encoder')
            if ('encode', 9, eff) not in calls:
                f.append('uses-the-negotiated-maximum-length / uses-the-callers-context')
            if calls[:1] != ['set_length']:
                f.append('group-length-set-before-encoding')
        if f:
            yield n, {'send_with_negotiated_maximum': eff}, f
    yield n, None, None


def main():
    req = json.loads(sys.stdin.read() or '{}')
    name = req.get('obligation', '')
    clause = name.split('#')[-1].split('@')[0]
    failures, related, n = [], [], 0
    for n, inp, f in search():
        if inp is None:
            break
        rec = {'input': inp, 'failed_clauses': sorted(set(f))}
        failures.append(rec)
        key = clause.split(':')[-1]
        if any(key and key in c for c in f):
            related.append(rec)
    pick = related or failures
    print(json.dumps({'reproduced': bool(pick), 'failures': pick[:10], 'evaluations': n,
                      'bound': 'maximum lengths %s x stream lengths within +-2 of 1..3 fragment sizes x bytes/file' % MAXES,
                      'matched_clause': bool(related)}, default=str))


if __name__ == '__main__':
    main()
