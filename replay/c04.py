"""Native replay for C04: one cell of PS3.8 Table 9-10 executed on the real StateMachine under
CPython (fake socket, real queue/timer, provider thread not started -- Thread.start is patched
in this process only).  stdin: {"evt","sta","role","artim","prim","channel"}
stdout (last line): JSON {"reproduced": bool, "observed": {...}, "expected": {...}}"""
import json
import os
import sys
import threading

sys.path.insert(0, os.environ.get('VERIF_REPO', '/repo'))
sys.path.insert(0, os.path.dirname(os.path.dirname(os.path.abspath(__file__))))

threading.Thread.start = lambda self: None   # replay process only

from pynetdicom2 import dulprovider, fsm, pdu, userdataitems  # noqa: E402
from spec import ps38_table_9_10 as T  # noqa: E402


class FakeSocket(object):
    def __init__(self):
        self.log = []
        self.closed = False

    def sendall(self, data):
        self.log.append(('sendall', bytes(data)))

    def close(self):
        self.closed = True
        self.log.append(('close',))

    def connect(self, addr):
        self.log.append(('connect', addr))

    def recv(self, n):
        return b''

    def fileno(self):
        return -1


def make_prim(kind):
    if kind in (None, 'none'):
        return None
    if kind in (T.RQ, T.AC):
        items = [pdu.ApplicationContextItem('1.2.840.10008.3.1.1.1'),
                 pdu.UserInformationItem([userdataitems.MaximumLengthSubItem(16384)])]
        cls = pdu.AAssociateRqPDU if kind == T.RQ else pdu.AAssociateAcPDU
        p = cls('CALLED', 'CALLING', items)
        p.called_presentation_address = ('127.0.0.1', 9)
        return p
    if kind == T.RJ:
        return pdu.AAssociateRjPDU(1, 2, 3)
    if kind == T.PDATA:
        from pynetdicom2 import dimsemessages
        m = dimsemessages.CEchoRQMessage()
        m.message_id = 1
        m.sop_class_uid = '1.2.840.10008.1.1'
        m.set_length()
        return next(m.encode(1, 16384))
    if kind == T.RLRQ:
        return pdu.AReleaseRqPDU()
    if kind == T.RLRP:
        return pdu.AReleaseRpPDU()
    if kind == T.ABORT:
        return pdu.AAbortPDU(source=0, reason_diag=0)


UNREAD = ('earlier indication not yet read by the user',)
BUFFERED = b'\x04\x00\x00\x00'        # the head of a further PDU already received


def run_cell(evt, sta, role, artim, kind, unread=False):
    sock = FakeSocket()
    if role == 'acceptor':
        prov = dulprovider.DULServiceProvider(frozenset(), None, sock)
    else:
        prov = dulprovider.DULServiceProvider(frozenset(), None)
    sm = prov.state_machine
    sm.current_state = getattr(fsm.States, 'STA_%d' % sta)
    want_open = not (evt == 17 or (sta == 1 and evt != 5))
    prov.dul_socket = sock if want_open else None
    prim = make_prim(kind)
    prov.primitive = prim
    prov.timer._start_time = 12345.0 if artim else None
    pre_timer = prov.timer._start_time
    prov.raw_pdu = BUFFERED
    if unread:
        prov.to_service_user.put(UNREAD)
    obs = {'raised': None}
    real_socket = fsm.socket.socket
    fsm.socket.socket = lambda *a, **k: sock
    try:
        sm.action(getattr(fsm.Events, 'EVT_%d' % evt))
    except Exception as e:   # noqa
        obs['raised'] = '%s: %s' % (type(e).__name__, e)
    finally:
        fsm.socket.socket = real_socket
    sends = [e[1] for e in sock.log if e[0] == 'sendall']
    puts = []
    while not prov.to_service_user.empty():
        puts.append(prov.to_service_user.get())
    obs['unread_kept_first'] = (puts[:1] == [UNREAD]) if unread else True
    if unread and puts[:1] == [UNREAD]:
        puts = puts[1:]
    obs['buffer_untouched'] = prov.raw_pdu == BUFFERED
    obs.update({
        'sent_types': [s[0] if s else None for s in sends],
        'sent_hex': [s.hex()[:40] for s in sends],
        'indications': [type(x).__name__ + (':source=%s' % x.source if isinstance(x, pdu.AAbortPDU) else '') for x in puts],
        'indication_is_primitive': [x is prim for x in puts],
        'closed': sock.closed, 'connects': len([e for e in sock.log if e[0] == 'connect']),
        'timer_running': prov.timer._start_time is not None,
        'timer_unchanged': prov.timer._start_time == pre_timer,
        'state': sm.current_state,
    })
    return obs, prim, sends, puts


def expected(evt, sta, role):
    cell = T.CELLS.get((evt, sta))
    if cell is None:
        return None
    action, nxt = cell
    n = nxt[role] if isinstance(nxt, dict) else nxt
    return {'action': action, 'effects': {k: repr(v) for k, v in T.ACTIONS[action].items()}, 'next': 'STA_%d' % n}


def violated(evt, sta, role, kind, obs, prim, sends, puts):
    bad = []
    cell = T.CELLS.get((evt, sta))
    if not obs['raised'] or cell is None:
        if not obs['buffer_untouched']:
            bad.append('frame:receive-buffer-untouched')
        if not obs['unread_kept_first']:
            bad.append('frame:unread-indications-kept-in-order')
    if cell is None:
        if sends:
            bad.append('undefined:wire')
        if puts:
            bad.append('undefined:user')
        if obs['closed'] or obs['connects']:
            bad.append('undefined:transport')
        if obs['state'] != getattr(fsm.States, 'STA_%d' % sta):
            bad.append('undefined:state')
        return bad
    action, nxt = cell
    spec = T.ACTIONS[action]
    if obs['raised']:
        return bad + ['noexc']
    w = spec.get('wire')
    if w is not None and w[0] == 'abort-from-user-or-any':
        w = ('primitive', (T.ABORT,)) if evt == 15 else ('any', T.ABORT)
    if w is None:
        if sends:
            bad.append('wire')
    elif len(sends) != 1:
        bad.append('wire')
    else:
        s = sends[0]
        if w[0] == 'primitive':
            if prim is None or s != prim.encode():
                bad.append('wire')
        elif w[0] == 'any':
            if s[0] != T.PDU_TYPE_CODE[w[1]] or len(s) != 10:
                bad.append('wire')
        elif w[0] == 'new':
            if s[0] != T.PDU_TYPE_CODE[w[1]] or len(s) != 10 or \
                    ('source' in w[2] and s[8] != w[2]['source']):
                bad.append('wire')
    u = spec.get('user')
    if u is None:
        if puts:
            bad.append('user')
    elif u[0] == 'message':
        if len(puts) > 1:
            bad.append('user')
    elif len(puts) != 1:
        bad.append('user')
    elif u[0] == 'primitive':
        if puts[0] is not prim or prim is None:
            bad.append('user')
    elif u[0] == 'new':
        if not isinstance(puts[0], pdu.AAbortPDU) or (u[2] and puts[0].source != u[2].get('source')):
            bad.append('user')
    tr = spec.get('transport')
    if tr is None and (obs['closed'] or obs['connects']):
        bad.append('transport')
    if tr == 'close' and not obs['closed']:
        bad.append('transport')
    if tr == 'connect' and not obs['connects']:
        bad.append('transport')
    tm = spec.get('timer')
    if tm is None and not obs['timer_unchanged']:
        bad.append('timer')
    if tm == 'start' and not obs['timer_running']:
        bad.append('timer')
    if tm == 'stop' and obs['timer_running']:
        bad.append('timer')
    n = nxt[role] if isinstance(nxt, dict) else nxt
    if obs['state'] != getattr(fsm.States, 'STA_%d' % n):
        bad.append('next')
    return bad


def main():
    req = json.loads(sys.stdin.read())
    if req.get('all'):
        # bounded native sweep of the whole table (engine cross-check)
        fails = []
        n = 0
        for evt in range(1, 20):
            for sta in range(1, 14):
                for role in ('acceptor', 'requestor'):
                    for artim in (False, True):
                        k = T.EVENT_PRIMITIVE[evt]
                        kinds = [k] if k else ([T.RQ] if evt == 2 else [None] + list(T.PDU_KINDS))
                        for kind in kinds:
                            for unread in (False, True):
                                n += 1
                                obs, prim, sends, puts = run_cell(evt, sta, role, artim, kind, unread)
                                bad = violated(evt, sta, role, kind, obs, prim, sends, puts)
                                if bad:
                                    fails.append({'evt': evt, 'sta': sta, 'role': role, 'artim': artim,
                                                  'prim': kind, 'unread_indication': unread, 'violated': bad})
        print(json.dumps({'reproduced': bool(fails), 'failures': fails[:400], 'n_failures': len(fails),
                          'evaluations': n}))
        return
    bad, obs = [], None
    for unread in (False, True):
        obs, prim, sends, puts = run_cell(req['evt'], req['sta'], req['role'], req['artim'], req['prim'], unread)
        obs['unread_indication'] = unread
        bad = violated(req['evt'], req['sta'], req['role'], req['prim'], obs, prim, sends, puts)
        if bad:
            break
    print(json.dumps({'reproduced': req.get('channel') in bad or (bool(bad) and req.get('channel') is None),
                      'violated_channels': bad, 'observed': obs,
                      'expected': expected(req['evt'], req['sta'], req['role'])}, default=str))


if __name__ == '__main__':
    main()
