"""Native replay for C14: the real reject / abort / release / _handle_errors / _get_dul_message /
_establish / handle / _request / request_association under CPython with fake providers (bounded
search for a failing input after the verifier refuted an obligation).
stdin: {"obligation": name}; stdout (last line): JSON {"reproduced", "failures", "evaluations", "bound"}"""
import itertools
import json
import os
import sys
import types

sys.path.insert(0, os.environ.get('VERIF_REPO', '/repo'))
from pynetdicom2 import asceprovider, applicationentity, pdu, exceptions  # noqa: E402

VALS = [0, 1, 2, 3, 7, 255]


class FakeDul(object):
    def __init__(self, inbox=()):
        self.sent = []
        self.inbox = list(inbox)
        self.accepted_contexts = None

    def send(self, x):
        self.sent.append(x)

    def receive(self, timeout=None):
        return self.inbox.pop(0)


def mk(cls, inbox=()):
    a = object.__new__(cls)
    a.ae = types.SimpleNamespace(supported_scp={}, supported_scu={}, supported_ts=frozenset(), timeout=1,
                                 on_association_request=lambda asce, rq: None,
                                 on_association_response=lambda r: None)
    a.dul = FakeDul(inbox)
    a.max_pdu_length = 16384
    a.accepted_contexts = {}
    a.association_established = False
    a.is_killed = False
    a.sop_classes_as_scp = {}
    a.sop_classes_as_scu = {}
    a.context_def_list = {}
    a.remote_ae = {'aet': 'R', 'address': 'x', 'port': 1}
    a.kill = lambda: a.dul.sent.append('KILL')
    return a


def search():
    n = 0
    for r, s, d in itertools.product(VALS, repeat=3):
        # acceptor refuses
        n += 1
        a = mk(asceprovider.AssociationAcceptor, ['RQ'])

        def refuse(asce, rq, r=r, s=s, d=d):
            raise exceptions.AssociationRejectedError(r, s, d)
        a.ae.on_association_request = refuse
        a.accept = lambda rq: a.dul.sent.append('ACCEPT')
        f = []
        try:
            a._establish()
            f.append('refusal-propagates')
        except exceptions.AssociationRejectedError as e:
            if (e.result, e.source, e.diagnostic) != (r, s, d):
                f.append('refusal-propagates (values changed)')
        rj = [x for x in a.dul.sent if isinstance(x, pdu.AAssociateRjPDU)]
        if len(rj) != 1:
            f.append('one-a-associate-rj')
        elif (rj[0].result, rj[0].source, rj[0].reason_diag) != (r, s, d):
            f.append('rj-result / rj-source / rj-reason: sent %r' % ((rj[0].result, rj[0].source, rj[0].reason_diag),))
        if 'ACCEPT' in a.dul.sent or a.association_established:
            f.append('accept-not-reached / not-established')
        if f:
            yield n, {'refusal': (r, s, d)}, f
        # requestor sees the rejection
        n += 1
        q = mk(asceprovider.AssociationRequester, [pdu.AAssociateRjPDU(r, s, d)])
        f = []
        try:
            q._request({'aet': 'L'}, q.remote_ae)
            f.append('rejection-error')
        except exceptions.AssociationRejectedError as e:
            if (e.result, e.source, e.diagnostic) != (r, s, d):
                f.append('rejection-values-unchanged: got %r' % ((e.result, e.source, e.diagnostic),))
        except Exception as e:   # noqa
            f.append('rejection-error (%s)' % type(e).__name__)
        if f:
            yield n, {'a-associate-rj': (r, s, d)}, f
    for s, d in itertools.product(VALS, repeat=2):
        n += 1
        q = mk(asceprovider.AssociationRequester, [pdu.AAbortPDU(s, d)])
        f = []
        try:
            q.receive()
            f.append('never-returns-a-pdu-as-a-message')
        except exceptions.AssociationAbortedError as e:
            if (e.source, e.reason_diag) != (s, d):
                f.append('abort-values-unchanged: got %r' % ((e.source, e.reason_diag),))
        except Exception as e:   # noqa
            f.append('abort-error (%s)' % type(e).__name__)
        if f:
            yield n, {'a-abort': (s, d)}, f
    for reason in VALS:
        for cls, src in ((asceprovider.AssociationAcceptor, 2), (asceprovider.AssociationRequester, 0)):
            n += 1
            a = mk(cls)
            a.abort(reason)
            f = []
            ab = [x for x in a.dul.sent if isinstance(x, pdu.AAbortPDU)]
            if len(ab) != 1 or ab[0].reason_diag != reason:
                f.append('reason')
            elif ab[0].source != src:
                f.append('source')
            if a.dul.sent[-1:] != ['KILL']:
                f.append('provider-stopped-after-the-pdu-was-handed-over')
            if f:
                yield n, {'abort_by': cls.__name__, 'reason': reason}, f
    # release / other PDUs
    for item, want in ((pdu.AReleaseRqPDU(), exceptions.AssociationReleasedError), (pdu.AReleaseRpPDU(), exceptions.NetDICOMError),
                       (('msg', 3), None)):
        n += 1
        q = mk(asceprovider.AssociationRequester, [item])
        f = []
        try:
            r = q.receive()
            if want is not None or r is not item:
                f.append('message-returned-as-received / never-returns-a-pdu-as-a-message')
        except Exception as e:   # noqa
            if want is None or type(e) is not want:
                f.append('release-error / unexpected-pdu-is-a-library-error (%s)' % type(e).__name__)
        if f:
            yield n, {'received': repr(item)}, f
    # handle(): no service on a refused association
    n += 1
    a = mk(asceprovider.AssociationAcceptor)
    log = []

    def est():
        log.append('establish')
        raise exceptions.AssociationRejectedError(1, 1, 1)
    a._establish = est
    a._loop = lambda: log.append('loop')
    try:
        a.handle()
    except exceptions.AssociationRejectedError:
        pass
    if 'loop' in log or a.dul.sent[-1:] != ['KILL']:
        yield n, {'handle': 'refused'}, ['no-service-on-a-refused-association / provider-stopped-exactly-once']
    # request_association
    for scenario in ('normal', 'body-raises', 'request-fails'):
        n += 1
        calls = []

        class Stub(object):
            def __init__(self, ae, m, remote):
                self.association_established = False

            def request(self):
                calls.append('request')
                if scenario == 'request-fails':
                    raise exceptions.AssociationRejectedError(1, 1, 1)
                self.association_established = True

            def release(self):
                calls.append('release')

            def abort(self, reason=0):
                calls.append('abort')

            def kill(self):
                calls.append('kill')
        real = asceprovider.AssociationRequester
        asceprovider.AssociationRequester = Stub
        ae = object.__new__(applicationentity.AEBase)
        ae.max_pdu_length = 1
        f = []
        try:
            try:
                with ae.request_association({'aet': 'R'}):
                    if scenario == 'body-raises':
                        raise ValueError('app')
                if scenario != 'normal':
                    f.append('error-is-re-raised')
            except (ValueError, exceptions.AssociationRejectedError):
                if scenario == 'normal':
                    f.append('normal-exit-releases-exactly-once')
        finally:
            asceprovider.AssociationRequester = real
        fin = [c for c in calls if c != 'request']
        want = {'normal': ['release'], 'body-raises': ['abort'], 'request-fails': ['kill']}[scenario]
        if fin != want:
            f.append({'normal': 'normal-exit-releases-exactly-once', 'body-raises': 'error-exit-aborts-exactly-once',
                      'request-fails': 'failed-request-is-only-stopped'}[scenario] + ' (calls %r)' % fin)
        if f:
            yield n, {'request_association': scenario}, f
    yield n, None, None


def main():
    req = json.loads(sys.stdin.read() or '{}')
    name = req.get('obligation', '')
    clause = name.split('#')[-1].split('@')[0]
    failures, related, n = [], [], 0
    for n, inp, f in search():
        if inp is None:
            break
        rec = {'input': inp, 'failed_clauses': sorted(set(f))}
        failures.append(rec)
        if any(clause and clause.split('-')[0] in c for c in f):
            related.append(rec)
    pick = related or failures
    print(json.dumps({'reproduced': bool(pick), 'failures': pick[:8], 'evaluations': n,
                      'bound': 'field values {0,1,2,3,7,255}^3 for rejections, ^2 for aborts; both roles; 3 context-manager '
                               'scenarios', 'matched_clause': bool(related)}, default=str))


if __name__ == '__main__':
    main()
