"""Native side of C08 under CPython with the installed pydicom.
mode "audit":  the writer model the proof assumes -- dsutils.encode(ds) is the concatenation, in
               ascending tag order, of dsutils.encode_element(e); Dataset.values() iterates in insertion
               order; encode_element depends on tag and value only -- checked on the 23 message classes
               x UID lengths 1..64 x optional fields.
mode "search": bounded search for a message whose transmitted command set is malformed (group length,
               command field, data-set flag), independent implicit-VR-LE element reader.
stdin: {"mode", "obligation"}; stdout (last line): JSON"""
import io
import json
import os
import struct
import sys
import warnings

warnings.filterwarnings('ignore')
sys.path.insert(0, os.environ.get('VERIF_REPO', '/repo'))
sys.path.insert(0, os.path.join(os.path.dirname(os.path.abspath(__file__)), '..', 'spec'))
from pynetdicom2 import dimsemessages as dm, dsutils  # noqa: E402
import ps37_commands as S  # noqa: E402


def classes():
    return [getattr(dm, k) for k in sorted(S.COMMAND_FIELD)]


def fill(msg, uid_len, variant):
    """set every tag-bound property the message type carries"""
    uid = ('1.' * 40)[:uid_len - 1] + '7' if uid_len > 1 else '1'
    for klass in type(msg).__mro__:
        for name, a in vars(klass).items():
            if not isinstance(a, property) or name == 'data_set' or a.fset is None:
                continue
            if 'uid' in name:
                v = uid
            elif 'aet' in name or 'destination' in name:
                v = 'AE' + 'X' * (variant % 5)
            elif name == 'attribute_identifier_list':
                continue
            else:
                v = (variant * 257 + 1) & 0xFFFF
            try:
                setattr(msg, name, v)
            except KeyError:
                pass


def read_elements(b):
    """independent implicit VR little endian reader: [(group, element, value bytes, offset after)]"""
    out, pos = [], 0
    while pos < len(b):
        g, e, ln = struct.unpack('<HHI', b[pos:pos + 8])
        out.append((g, e, b[pos + 8:pos + 8 + ln], pos + 8 + ln))
        pos += 8 + ln
    return out


def transmitted(msg, max_len=16384):
    cmd, data = b'', b''
    for p in msg.encode(3, max_len):
        v = p.data_value_items[0].data_value
        if v[0] & 1:
            cmd += v[1:]
        else:
            data += v[1:]
    return cmd, data


def check_message(msg, K):
    fails = []
    msg.set_length()
    cmd, data = transmitted(msg)
    els = read_elements(cmd)
    tags = [(g, e) for g, e, v, end in els]
    if tags != sorted(tags):
        fails.append('ascending-tag-order')
    if not els or tags[0] != (0, 0):
        fails.append('set_length:group-length (no leading group length element)')
    else:
        gl = struct.unpack('<I', els[0][2])[0]
        if gl != len(cmd) - els[0][3]:
            fails.append('set_length:group-length (value %d, %d bytes follow)' % (gl, len(cmd) - els[0][3]))
    d = {(g, e): v for g, e, v, end in els}
    cf = struct.unpack('<H', d.get((0, 0x0100), b'\0\0'))[0]
    if cf != S.COMMAND_FIELD[K]:
        fails.append('init:command-field')
    flag = struct.unpack('<H', d.get((0, 0x0800), b'\0\0'))[0]
    if (flag == S.NO_DATA_SET) != (len(data) == 0):
        fails.append('setter:flag-says-no-data-set-iff-none-follows (flag %04X, %d data bytes follow)' % (flag, len(data)))
    return fails


def search():
    n = 0
    kinds = [('none', lambda: None), ('empty', lambda: b''), ('bytes', lambda: b'\x08\x00\x18\x00\x02\x00\x00\x001.'),
             ('file', lambda: io.BytesIO(b'\x08\x00\x18\x00\x02\x00\x00\x001.'))]
    for cls in classes():
        K = cls.__name__
        for uid_len in (1, 2, 15, 16, 63, 64):
            # one use of a fresh object
            for kname, mk in kinds:
                n += 1
                m = cls()
                fill(m, uid_len, n)
                v = mk()
                if v is not None or kname == 'none':
                    m.data_set = v
                f = check_message(m, K)
                if f:
                    yield n, {'class': K, 'uid_length': uid_len, 'data_set': kname}, f
        # the same object sent repeatedly with changing fields and data sets
        for (k1, mk1) in kinds:
            for (k2, mk2) in kinds:
                n += 1
                m = cls()
                fill(m, 10, 1)
                m.data_set = mk1()
                f1 = check_message(m, K)
                fill(m, 33, 2)
                m.data_set = mk2()
                f2 = check_message(m, K)
                if f1 or f2:
                    yield n, {'class': K, 'sent_twice_with_data_sets': [k1, k2]}, ['second send: ' + x for x in f2] or f1
    yield n, None, None


def audit():
    n, bad = 0, []
    for cls in classes():
        for uid_len in range(1, 65):
            n += 1
            m = cls()
            fill(m, uid_len, uid_len)
            m.set_length()
            ds = m.command_set
            vals = list(ds.values())
            whole = dsutils.encode(ds, True, True)
            by_tag = sorted(vals, key=lambda e: e.tag)
            joined = b''.join(dsutils.encode_element(e, True, True) for e in by_tag)
            if whole != joined:
                bad.append('%s uid_len=%d: encode != sorted concatenation of encode_element' % (cls.__name__, uid_len))
            # insertion order of values(): CommandField first, then CommandDataSetType, then command_fields
            want = [0x00000100, 0x00000800] + [int(ds.data_element(k).tag) for k in cls.command_fields]
            if [int(e.tag) for e in vals] != want:
                bad.append('%s: Dataset.values() is not in insertion order' % cls.__name__)
            # function of tag and value only
            for e in vals:
                from pydicom.dataelem import DataElement
                twin = DataElement(e.tag, e.VR, e.value)
                if dsutils.encode_element(twin, True, True) != dsutils.encode_element(e, True, True):
                    bad.append('%s: encode_element depends on more than tag and value' % cls.__name__)
            if len(bad) > 5:
                break
    return {'ok': not bad, 'problems': bad[:5], 'evaluations': n,
            'bound': '23 classes x UID lengths 1..64'}


def main():
    req = json.loads(sys.stdin.read() or '{}')
    if req.get('mode') == 'audit':
        print(json.dumps(audit()))
        return
    name = req.get('obligation', '')
    clause = name.split('#')[-1].split('@')[0]
    key = clause.split(':')[-1]
    failures, related, n = [], [], 0
    for n, inp, f in search():
        if inp is None:
            break
        rec = {'input': inp, 'failed_clauses': sorted(set(f))}
        failures.append(rec)
        if any(key and key.split('-')[0] in c for c in f):
            related.append(rec)
    pick = related or failures
    print(json.dumps({'reproduced': bool(pick), 'failures': pick[:8], 'evaluations': n,
                      'bound': '23 classes x UID lengths {1,2,15,16,63,64} x 4 data-set kinds; every class sent '
                               'twice over 4x4 data-set kinds', 'matched_clause': bool(related)}, default=str))


if __name__ == '__main__':
    main()
