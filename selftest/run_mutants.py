#!/usr/bin/env python3
"""Mutant self-test: apply each property-breaking edit to a scratch copy of the repository
(outside /repo and /verif), run the property's check against the copy (VERIF_REPO), and
require exit 1 with a VIOLATION line.  The copy is removed afterwards.

usage: run_mutants.py [Cxx ...] [--keep-going] [--jobs N]
mutants.json: {"C18": [{"id": "a", "file": "pynetdicom2/statuses.py", "old": "...", "new": "...",
                        "expect": "substring of the failing obligation (optional)"}]}
A mutant with "holds": true is a behaviour-preserving edit: the check must exit 0 (no false alarm).
"""
import json
import os
import shutil
import subprocess
import sys
import tempfile
from concurrent.futures import ThreadPoolExecutor

HERE = os.path.dirname(os.path.abspath(__file__))
VERIF = os.path.dirname(HERE)
REPO = os.environ.get('VERIF_REPO', '/repo')


def run_one(pid, m):
    tmp = tempfile.mkdtemp(prefix='pyvc_mut_%s_%s_' % (pid, m['id']))
    try:
        dst = os.path.join(tmp, 'repo')
        shutil.copytree(REPO, dst, ignore=shutil.ignore_patterns('.git', '__pycache__', '*.pyc', 'docs'))
        edits = m.get('edits') or [m]
        for e in edits:
            path = os.path.join(dst, e['file'])
            with open(path) as fh:
                src = fh.read()
            if src.count(e['old']) != 1:
                return (pid, m['id'], 'BAD-MUTANT', 'old text occurs %d times in %s' % (src.count(e['old']), e['file']))
            with open(path, 'w') as fh:
                fh.write(src.replace(e['old'], e['new']))
        env = dict(os.environ, VERIF_REPO=dst, PYVC_EVIDENCE_DIR=os.path.join(tmp, 'evidence'),
                   PYVC_OUT_DIR=os.path.join(tmp, 'out'), PYVC_JOBS=os.environ.get('MUTANT_PYVC_JOBS', '4'))
        r = subprocess.run([os.path.join(VERIF, 'check'), pid], capture_output=True, text=True, env=env,
                           timeout=3600)
        lines = [l for l in r.stdout.split('\n') if l.startswith(('VIOLATION', 'UNDECIDED', 'CHECKER-ERROR', 'KNOWN'))]
        if m.get('holds'):
            ok = r.returncode == 0
            return (pid, m['id'], 'OK-HOLDS' if ok else 'FALSE-ALARM', 'exit %d %s' % (r.returncode, lines[:2]))
        if r.returncode == 1 and any(l.startswith('VIOLATION') for l in lines):
            exp = m.get('expect')
            if exp and not any(exp in l for l in lines):
                return (pid, m['id'], 'CAUGHT-OTHER', '; '.join(lines[:3]))
            return (pid, m['id'], 'CAUGHT', '; '.join(l.split(' obligation=')[-1] for l in lines[:3]))
        return (pid, m['id'], 'MISSED', 'exit %d %s %s' % (r.returncode, lines[:3], r.stdout[-300:]))
    finally:
        shutil.rmtree(tmp, ignore_errors=True)


def main():
    args = [a for a in sys.argv[1:] if not a.startswith('--')]
    jobs = 4
    if '--jobs' in sys.argv:
        jobs = int(sys.argv[sys.argv.index('--jobs') + 1])
        args = [a for a in args if a != str(jobs)]
    with open(os.path.join(HERE, 'mutants.json')) as fh:
        allm = json.load(fh)
    todo = []
    for pid in (args or sorted(allm)):
        for m in allm.get(pid, []):
            todo.append((pid, m))
    bad = 0
    with ThreadPoolExecutor(jobs) as ex:
        for pid, mid, verdict, detail in ex.map(lambda t: run_one(*t), todo):
            print('%-4s %-4s %-12s %s' % (pid, mid, verdict, detail[:220]))
            if verdict not in ('CAUGHT', 'OK-HOLDS'):
                bad += 1
    print('mutants: %d run, %d not as expected' % (len(todo), bad))
    return 1 if bad else 0


if __name__ == '__main__':
    sys.exit(main())
