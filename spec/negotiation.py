"""Helper predicates for the negotiation properties (C09, C11).  The application-entity
configuration is a pair of predicates over names: cfg_served(abstract syntax) and
cfg_supported_ts(transfer syntax)."""
from spec_prelude import *   # noqa: F401,F403


def ts_unsupported(ts):
    """this proposed transfer syntax sub-item names a transfer syntax the entity does not support"""
    return not cfg_supported_ts(ts.name)


def answers_a_proposed_context(ac):
    """the context id of this answer is one of the ids the requester proposed"""
    return cfg_proposed(ac.context_id)


def rejected(ac):
    """a presentation-context answer that is not an acceptance"""
    return ac.result_reason != 0
