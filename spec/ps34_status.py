"""Status classification pinned by C18 -- transcription of PS3.7 Annex C (general statuses) and
the PS3.4 service tables of C-STORE (B.2.3), C-FIND (C.4.1.1.4), C-MOVE (C.4.2.1.5), C-GET
(C.4.3.1.4).  Pure, restricted Python: executed natively by the replay harness and
symbolically by pyvc.  Command fields: response messages, PS3.7 9.3."""

C_STORE_RSP = 0x8001
C_GET_RSP = 0x8010
C_FIND_RSP = 0x8020
C_MOVE_RSP = 0x8021

# every code PS3.7 Annex C assigns a meaning to, independent of the service
GENERAL_CODES = (
    0x0000, 0x0001,
    0x0105, 0x0106, 0x0107, 0x0110, 0x0111, 0x0112, 0x0113, 0x0114, 0x0115, 0x0116, 0x0117,
    0x0118, 0x0119, 0x0120, 0x0121, 0x0122, 0x0123, 0x0124,
    0x0210, 0x0211, 0x0212, 0x0213,
    0xFE00, 0xFF00, 0xFF01,
)

NAMES = ('Success', 'Pending', 'Failure', 'Warning', 'Cancel')


def service_class(command_field, code):
    """classification the service table of `command_field` prescribes for `code`, or None if
    the table does not mention the code"""
    if code == 0x0000:
        return 'Success'
    if command_field == C_STORE_RSP:
        if code == 0xB000 or code == 0xB006 or code == 0xB007:
            return 'Warning'
        if 0xA700 <= code <= 0xA7FF or 0xA900 <= code <= 0xA9FF or 0xC000 <= code <= 0xCFFF:
            return 'Failure'
        return None
    if command_field == C_FIND_RSP:
        if code == 0xFF00 or code == 0xFF01:
            return 'Pending'
        if code == 0xFE00:
            return 'Cancel'
        if code == 0xA700 or code == 0xA900 or 0xC000 <= code <= 0xCFFF:
            return 'Failure'
        return None
    if command_field == C_GET_RSP:
        if code == 0xFF00:
            return 'Pending'
        if code == 0xFE00:
            return 'Cancel'
        if code == 0xB000:
            return 'Warning'
        if code == 0xA701 or code == 0xA702 or code == 0xA900 or 0xC000 <= code <= 0xCFFF:
            return 'Failure'
        return None
    if command_field == C_MOVE_RSP:
        if code == 0xFF00:
            return 'Pending'
        if code == 0xFE00:
            return 'Cancel'
        if code == 0xB000:
            return 'Warning'
        if code == 0xA701 or code == 0xA702 or code == 0xA801 or code == 0xA900 \
                or 0xC000 <= code <= 0xCFFF:
            return 'Failure'
        return None
    return None


def is_general(code):
    return code in GENERAL_CODES
