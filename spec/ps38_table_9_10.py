"""PS3.8 section 9.2: upper-layer state machine -- transcription of Table 9-10 (state
transition table) and Tables 9-6..9-9 (actions).  DESIGN.md appendix A is the prose twin.

States 1..13, events 1..19 as in the standard (the library numbers them from 0; the driver
maps through fsm.States / fsm.Events *names*, never through the library's integers).

An action is described by its effect on four channels and the next state:
  wire      None | ('primitive', kinds)            the current primitive is sent, it is a PDU of one of `kinds`
                 | ('new', kind, {field: value})   a newly built PDU of `kind` with these field values is sent
                 | ('any', kind)                   some well-formed PDU of `kind` is sent (fields not pinned)
  user      None | ('primitive',)                  the current primitive is handed to the local user
                 | ('new', kind, {field: value}|None)  a newly built indication object of `kind`
                 | ('message',)                    P-DATA indication: library level = the reassembled
                                                   DIMSE message when (and only when) it is complete
  transport None | 'connect' | 'close'
  timer     None | 'start' (start or restart: running afterwards) | 'stop' (not running afterwards)
  next      state number, or {'requestor': n, 'acceptor': m}
"""

RQ, AC, RJ, PDATA, RLRQ, RLRP, ABORT = 'A-ASSOCIATE-RQ', 'A-ASSOCIATE-AC', 'A-ASSOCIATE-RJ', \
    'P-DATA-TF', 'A-RELEASE-RQ', 'A-RELEASE-RP', 'A-ABORT'

PDU_KINDS = (RQ, AC, RJ, PDATA, RLRQ, RLRP, ABORT)
PDU_TYPE_CODE = {RQ: 1, AC: 2, RJ: 3, PDATA: 4, RLRQ: 5, RLRP: 6, ABORT: 7}

ACTIONS = {
    # association establishment (Table 9-6)
    'AE-1': dict(transport='connect'),
    'AE-2': dict(wire=('primitive', (RQ,))),
    'AE-3': dict(user=('primitive',)),
    'AE-4': dict(user=('primitive',), transport='close'),
    'AE-5': dict(timer='start'),
    # AE-6: stop ARTIM; acceptable -> indicate (Sta3); the library never rejects at provider level
    'AE-6': dict(timer='stop', user=('primitive',)),
    'AE-7': dict(wire=('primitive', (AC,))),
    'AE-8': dict(wire=('primitive', (RJ,)), timer='start'),
    # data transfer (Table 9-7)
    'DT-1': dict(wire=('primitive', (PDATA,))),
    'DT-2': dict(user=('message',)),
    # association release (Table 9-8)
    'AR-1': dict(wire=('any', RLRQ)),
    'AR-2': dict(user=('primitive',)),
    'AR-3': dict(user=('primitive',), transport='close'),
    'AR-4': dict(wire=('any', RLRP), timer='start'),
    'AR-5': dict(timer='stop'),
    'AR-6': dict(user=('message',)),
    'AR-7': dict(wire=('primitive', (PDATA,))),
    'AR-8': dict(user=('primitive',)),
    'AR-9': dict(wire=('any', RLRP)),
    'AR-10': dict(user=('primitive',)),
    # association abort (Table 9-9)
    # AA-1: send A-ABORT PDU (service-user source) and start (or restart) ARTIM.  When triggered by
    # the user's A-ABORT request the PDU is the user's primitive; when triggered by a peer PDU in
    # Sta2 only "a well-formed A-ABORT PDU" is demanded (source not pinned, see DESIGN 4/C04).
    'AA-1': dict(wire=('abort-from-user-or-any',), timer='start'),
    'AA-2': dict(timer='stop', transport='close'),
    'AA-3': dict(user=('primitive',), transport='close'),
    'AA-4': dict(user=('new', ABORT, None)),
    'AA-5': dict(timer='stop'),
    'AA-6': dict(),
    'AA-7': dict(wire=('any', ABORT)),
    'AA-8': dict(wire=('new', ABORT, {'source': 2}), user=('new', ABORT, {'source': 2}), timer='start'),
}


def _cells():
    t = {}

    def put(evt, states, action, nxt):
        for s in states:
            t[(evt, s)] = (action, nxt)
    rng = lambda a, b: range(a, b + 1)   # noqa: E731
    put(1, [1], 'AE-1', 4)
    put(2, [4], 'AE-2', 5)
    for evt in (3, 4):
        put(evt, [2], 'AA-1', 13)
        put(evt, [3], 'AA-8', 13)
        put(evt, rng(6, 12), 'AA-8', 13)
        put(evt, [13], 'AA-6', 13)
    put(3, [5], 'AE-3', 6)
    put(4, [5], 'AE-4', 1)
    put(5, [1], 'AE-5', 2)
    put(6, [2], 'AE-6', 3)
    put(6, [3], 'AA-8', 13)
    put(6, rng(5, 12), 'AA-8', 13)
    put(6, [13], 'AA-7', 13)
    put(7, [3], 'AE-7', 6)
    put(8, [3], 'AE-8', 13)
    put(9, [6], 'DT-1', 6)
    put(9, [8], 'AR-7', 8)
    put(10, [2], 'AA-1', 13)
    put(10, [3, 5], 'AA-8', 13)
    put(10, [6], 'DT-2', 6)
    put(10, [7], 'AR-6', 7)
    put(10, rng(8, 12), 'AA-8', 13)
    put(10, [13], 'AA-6', 13)
    put(11, [6], 'AR-1', 7)
    put(12, [2], 'AA-1', 13)
    put(12, [3, 5], 'AA-8', 13)
    put(12, [6], 'AR-2', 8)
    put(12, [7], 'AR-8', {'requestor': 9, 'acceptor': 10})
    put(12, rng(8, 12), 'AA-8', 13)
    put(12, [13], 'AA-6', 13)
    put(13, [2], 'AA-1', 13)
    put(13, [3, 5, 6, 8, 9, 12], 'AA-8', 13)
    put(13, [7, 11], 'AR-3', 1)
    put(13, [10], 'AR-10', 12)
    put(13, [13], 'AA-6', 13)
    put(14, [8, 12], 'AR-4', 13)
    put(14, [9], 'AR-9', 11)
    put(15, [3], 'AA-1', 13)
    put(15, [4], 'AA-2', 1)
    put(15, rng(5, 12), 'AA-1', 13)
    put(16, [2, 13], 'AA-2', 1)
    put(16, [3], 'AA-3', 1)
    put(16, rng(5, 12), 'AA-3', 1)
    put(17, [2], 'AA-5', 1)
    put(17, [3, 4], 'AA-4', 1)
    put(17, rng(5, 12), 'AA-4', 1)
    put(17, [13], 'AR-5', 1)
    put(18, [2, 13], 'AA-2', 1)
    put(19, [2], 'AA-1', 13)
    put(19, [3], 'AA-8', 13)
    put(19, rng(5, 12), 'AA-8', 13)
    put(19, [13], 'AA-7', 13)
    return t


CELLS = _cells()
assert len(CELLS) == 123, len(CELLS)

# the primitive that accompanies each event (None: no PDU / primitive of its own)
EVENT_PRIMITIVE = {
    1: RQ, 2: None, 3: AC, 4: RJ, 5: None, 6: RQ, 7: AC, 8: RJ, 9: PDATA, 10: PDATA, 11: RLRQ,
    12: RLRQ, 13: RLRP, 14: RLRP, 15: ABORT, 16: ABORT, 17: None, 18: None, 19: None,
}
# events produced by the local user (their primitive is the user's request/response object)
USER_EVENTS = (1, 7, 8, 9, 11, 14, 15)
PEER_PDU_EVENTS = (3, 4, 6, 10, 12, 13, 16)
