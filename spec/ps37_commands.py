"""DICOM PS3.7 Annex E.1 (command dictionary): Command Field (0000,0100) values per DIMSE message,
and the Command Data Set Type (0000,0800) null value.  Transcription of the standard."""

COMMAND_FIELD = {
    'CStoreRQMessage': 0x0001, 'CStoreRSPMessage': 0x8001,
    'CGetRQMessage': 0x0010, 'CGetRSPMessage': 0x8010,
    'CFindRQMessage': 0x0020, 'CFindRSPMessage': 0x8020,
    'CMoveRQMessage': 0x0021, 'CMoveRSPMessage': 0x8021,
    'CEchoRQMessage': 0x0030, 'CEchoRSPMessage': 0x8030,
    'NEventReportRQMessage': 0x0100, 'NEventReportRSPMessage': 0x8100,
    'NGetRQMessage': 0x0110, 'NGetRSPMessage': 0x8110,
    'NSetRQMessage': 0x0120, 'NSetRSPMessage': 0x8120,
    'NActionRQMessage': 0x0130, 'NActionRSPMessage': 0x8130,
    'NCreateRQMessage': 0x0140, 'NCreateRSPMessage': 0x8140,
    'NDeleteRQMessage': 0x0150, 'NDeleteRSPMessage': 0x8150,
    'CCancelRQMessage': 0x0FFF,
}

NO_DATA_SET = 0x0101     # PS3.7 9.1.x / E.1: Command Data Set Type "null" value

GROUP_LENGTH_TAG = (0x0000, 0x0000)
