"""Byte layouts of DICOM PS3.8 section 9.3 (PDUs and items) and PS3.7 Annex D.3.3 (user
information sub-items) -- transcription of the standard (DESIGN.md appendix B), written as
printers `wire_*(v)`; plus the value-space predicates `valid_*(v)` taken from the quantifier
text of properties C01/C02 ("in-range field values").

Restricted Python: executed symbolically by pyvc (functions of modules named spec.* run in spec
mode: and/or/not build formulas) and natively by the replay harness with spec_prelude's twins.
All integers unsigned big-endian.  be1/be2/be4(x): 1/2/4-byte big-endian encoding.
"""
from spec_prelude import *   # noqa: F401,F403  (be1, be2, be4, enc, join_map, sum_map, all_map, ...)


def u8(x):
    return 0 <= x and x <= 0xFF


def u16(x):
    return 0 <= x and x <= 0xFFFF


def u32(x):
    return 0 <= x and x <= 0xFFFFFFFF


def text(s, maxlen):
    """ASCII text field of at most maxlen characters"""
    return is_ascii(s) and len(s) <= maxlen


# ======================================================================= sub-items (PS3.7 D.3.3)
KNOWN_SUB_ITEM_TYPES = (0x51, 0x52, 0x53, 0x54, 0x55, 0x56, 0x58, 0x59)


def valid_sub_item(x):
    k = kind_of(x)
    if k == 'MaximumLengthSubItem':
        return u8(x.reserved) and x.item_length == 4 and u32(x.maximum_length_received)
    if k == 'ImplementationClassUIDSubItem':
        return u8(x.reserved) and text(x.implementation_class_uid, 64)
    if k == 'ImplementationVersionNameSubItem':
        return u8(x.reserved) and text(x.implementation_version_name, 64)
    if k == 'AsynchronousOperationsWindowSubItem':
        return u8(x.reserved) and x.item_length == 4 and u16(x.max_num_ops_invoked) \
            and u16(x.max_num_ops_performed)
    if k == 'ScpScuRoleSelectionSubItem':
        return u8(x.reserved) and text(x.sop_class_uid, 64) and u8(x.scu_role) and u8(x.scp_role)
    if k == 'SOPClassExtendedNegotiationSubItem':
        return u8(x.reserved) and text(x.sop_class_uid, 64) and len(x.app_info) <= 0xFF00
    if k == 'UserIdentityNegotiationSubItem':
        return u8(x.reserved) and u8(x.user_identity_type) and u8(x.positive_response_req) \
            and utf8_ok(x._primary_field) and utf8_ok(x._secondary_field) \
            and len(x._primary_field) + len(x._secondary_field) <= 0xFF00
    if k == 'UserIdentityNegotiationSubItemAc':
        return u8(x.reserved) and is_ascii(x.server_response) and len(x.server_response) <= 0xFF00
    if k == 'GenericUserDataSubItem':
        return 1 <= x.item_type and x.item_type <= 0xFF and x.item_type not in KNOWN_SUB_ITEM_TYPES \
            and u8(x.reserved) and len(x.user_data) <= 0xFFFF
    return False


def sub_item_header(item_type, reserved, length):
    return be1(item_type) + be1(reserved) + be2(length)


def wire_sub_item(x):
    k = kind_of(x)
    if k == 'MaximumLengthSubItem':                       # D.1 / PS3.8 Annex D: 51H
        return sub_item_header(0x51, x.reserved, 4) + be4(x.maximum_length_received)
    if k == 'ImplementationClassUIDSubItem':              # D.3.3.2.1: 52H
        return sub_item_header(0x52, x.reserved, len(enc(x.implementation_class_uid))) \
            + enc(x.implementation_class_uid)
    if k == 'ImplementationVersionNameSubItem':           # D.3.3.2.3: 55H
        return sub_item_header(0x55, x.reserved, len(enc(x.implementation_version_name))) \
            + enc(x.implementation_version_name)
    if k == 'AsynchronousOperationsWindowSubItem':        # D.3.3.3.1: 53H
        return sub_item_header(0x53, x.reserved, 4) + be2(x.max_num_ops_invoked) \
            + be2(x.max_num_ops_performed)
    if k == 'ScpScuRoleSelectionSubItem':                 # D.3.3.4.1: 54H
        u = enc(x.sop_class_uid)
        return sub_item_header(0x54, x.reserved, 2 + len(u) + 2) + be2(len(u)) + u \
            + be1(x.scu_role) + be1(x.scp_role)
    if k == 'SOPClassExtendedNegotiationSubItem':         # D.3.3.5.1: 56H
        u = enc(x.sop_class_uid)
        return sub_item_header(0x56, x.reserved, 2 + len(u) + len(x.app_info)) + be2(len(u)) + u \
            + x.app_info
    if k == 'UserIdentityNegotiationSubItem':             # D.3.3.7.1: 58H
        return sub_item_header(0x58, x.reserved, 2 + 2 + len(x._primary_field) + 2 + len(x._secondary_field)) \
            + be1(x.user_identity_type) + be1(x.positive_response_req) \
            + be2(len(x._primary_field)) + x._primary_field \
            + be2(len(x._secondary_field)) + x._secondary_field
    if k == 'UserIdentityNegotiationSubItemAc':           # D.3.3.7.2: 59H
        r = enc(x.server_response)
        return sub_item_header(0x59, x.reserved, 2 + len(r)) + be2(len(r)) + r
    if k == 'GenericUserDataSubItem':                     # any other sub-item: opaque body
        return sub_item_header(x.item_type, x.reserved, len(x.user_data)) + x.user_data
    return b''


# ======================================================================= items (PS3.8 9.3.2, 9.3.3)
def valid_abstract_syntax(x):
    return u8(x.reserved) and text(x.name, 64)


def valid_transfer_syntax(x):
    return u8(x.reserved) and text(x.name, 64)


def wire_abstract_syntax(x):                              # 9.3.2.2.1: 30H
    return be1(0x30) + be1(x.reserved) + be2(len(enc(x.name))) + enc(x.name)


def wire_transfer_syntax(x):                              # 9.3.2.2.2: 40H
    return be1(0x40) + be1(x.reserved) + be2(len(enc(x.name))) + enc(x.name)


def valid_var_item(x):
    k = kind_of(x)
    if k == 'ApplicationContextItem':
        return u8(x.reserved) and text(x.context_name, 64)
    if k == 'PresentationContextItemRQ':
        return u8(x.context_id) and u8(x.reserved1) and u8(x.reserved2) and u8(x.reserved3) \
            and u8(x.reserved4) and valid_abstract_syntax(x.abs_sub_item) \
            and all_map(valid_transfer_syntax, x.ts_sub_items) \
            and len(join_map(wire_transfer_syntax, x.ts_sub_items)) <= 0xFF00
    if k == 'PresentationContextItemAC':
        return u8(x.context_id) and u8(x.result_reason) and u8(x.reserved1) and u8(x.reserved2) \
            and u8(x.reserved3) and valid_transfer_syntax(x.ts_sub_item)
    if k == 'UserInformationItem':
        return u8(x.reserved) and all_map(valid_sub_item, x.user_data) \
            and len(join_map(wire_sub_item, x.user_data)) <= 0xFFFF
    return False


def wire_var_item(x):
    k = kind_of(x)
    if k == 'ApplicationContextItem':                     # 9.3.2.1: 10H
        n = enc(x.context_name)
        return be1(0x10) + be1(x.reserved) + be2(len(n)) + n
    if k == 'PresentationContextItemRQ':                  # 9.3.2.2: 20H
        body = wire_abstract_syntax(x.abs_sub_item) + join_map(wire_transfer_syntax, x.ts_sub_items)
        return be1(0x20) + be1(x.reserved1) + be2(4 + len(body)) + be1(x.context_id) \
            + be1(x.reserved2) + be1(x.reserved3) + be1(x.reserved4) + body
    if k == 'PresentationContextItemAC':                  # 9.3.3.2: 21H
        body = wire_transfer_syntax(x.ts_sub_item)
        return be1(0x21) + be1(x.reserved1) + be2(4 + len(body)) + be1(x.context_id) \
            + be1(x.reserved2) + be1(x.result_reason) + be1(x.reserved3) + body
    if k == 'UserInformationItem':                        # 9.3.2.3: 50H
        body = join_map(wire_sub_item, x.user_data)
        return be1(0x50) + be1(x.reserved) + be2(len(body)) + body
    return b''


def valid_pdv(x):
    return u8(x.context_id) and len(x.data_value) + 1 <= 0xFFFFFFFF


def wire_pdv(x):                                          # 9.3.5.1: length(4) = 1 + |data|, context id(1)
    return be4(1 + len(x.data_value)) + be1(x.context_id) + x.data_value


# ======================================================================= PDUs (PS3.8 9.3.2 - 9.3.8)
def valid_ae_title(s):
    """0-16 ASCII characters without padding characters at either end"""
    return is_ascii(s) and len(s) <= 16 and no_pad_at_ends(s)


def valid_associate(p):
    r = p.reserved3
    return valid_ae_title(p.called_ae_title) and valid_ae_title(p.calling_ae_title) \
        and u16(p.protocol_version) and u8(p.reserved1) and u16(p.reserved2) \
        and u32(r[0]) and u32(r[1]) and u32(r[2]) and u32(r[3]) and u32(r[4]) and u32(r[5]) \
        and u32(r[6]) and u32(r[7]) \
        and all_map(valid_var_item, p.variable_items) \
        and 68 + len(join_map(wire_var_item, p.variable_items)) <= 0xFFFFFFFF


def wire_associate(p, pdu_type):                          # 9.3.2 (01H) / 9.3.3 (02H)
    r = p.reserved3
    items = join_map(wire_var_item, p.variable_items)
    return be1(pdu_type) + be1(p.reserved1) + be4(68 + len(items)) + be2(p.protocol_version) \
        + be2(p.reserved2) + ae_title_field(p.called_ae_title) + ae_title_field(p.calling_ae_title) \
        + be4(r[0]) + be4(r[1]) + be4(r[2]) + be4(r[3]) + be4(r[4]) + be4(r[5]) + be4(r[6]) + be4(r[7]) \
        + items


def valid_rj(p):
    return u8(p.reserved1) and u8(p.reserved2) and u8(p.result) and u8(p.source) and u8(p.reason_diag)


def wire_rj(p):                                           # 9.3.4: 03H, length 4
    return be1(0x03) + be1(p.reserved1) + be4(4) + be1(p.reserved2) + be1(p.result) + be1(p.source) \
        + be1(p.reason_diag)


def valid_pdata(p):
    return u8(p.reserved) and all_map(valid_pdv, p.data_value_items) \
        and len(join_map(wire_pdv, p.data_value_items)) <= 0xFFFFFFFF


def wire_pdata(p):                                        # 9.3.5: 04H
    items = join_map(wire_pdv, p.data_value_items)
    return be1(0x04) + be1(p.reserved) + be4(len(items)) + items


def valid_release(p):
    return u8(p.reserved1) and u32(p.reserved2)


def wire_release(p, pdu_type):                            # 9.3.6 (05H) / 9.3.7 (06H): length 4, reserved(4)
    return be1(pdu_type) + be1(p.reserved1) + be4(4) + be4(p.reserved2)


def valid_abort(p):
    return u8(p.reserved1) and u8(p.reserved2) and u8(p.reserved3) and u8(p.source) and u8(p.reason_diag)


def wire_abort(p):                                        # 9.3.8: 07H, length 4
    return be1(0x07) + be1(p.reserved1) + be4(4) + be1(p.reserved2) + be1(p.reserved3) + be1(p.source) \
        + be1(p.reason_diag)
